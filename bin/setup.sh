#!/bin/sh
# setup_cmd: build the hand-written Coq theories (full .vo build) from files on disk only.
set -e
HERE="$(cd "$(dirname "$0")/.." && pwd)"
"$HERE/bin/mkcoqproject"
cd "$HERE/coq"
coq_makefile -f _CoqProject -o Makefile >/dev/null
mkdir -p "$HERE/_build"
flock "$HERE/_build/.lock" timeout 3000 make -j16
