#!/usr/bin/env python3
"""bin/try_seed.py <src dir with patch.diff demo.py meta.json> <seed id, e.g. C16-1> <Cxx> [Cyy ...]
Confirms a seeded change (demo passes clean / fails mutated, baseline suite unchanged) in a scratch worktree,
runs the named checks against it, and files it under /verif/seeded/<seed id>/ with the outcome in meta.json."""
import json, os, shutil, subprocess, sys, tempfile
from pathlib import Path
src, sid, props = Path(sys.argv[1]).resolve(), sys.argv[2], sys.argv[3:]
V = Path("/verif")
wt = Path(tempfile.mkdtemp(prefix="seedwt_", dir="/dev/shm"))
os.rmdir(wt)
def sh(cmd, **kw):
    return subprocess.run(cmd, shell=True, stdout=subprocess.PIPE, stderr=subprocess.STDOUT, text=True, **kw)
sh(f"git -C /repo worktree add -q -f {wt} HEAD")
out = {}
try:
    env = dict(os.environ, PYTHONPATH=str(wt), PYTHONHASHSEED="0")
    r = sh(f"cd {wt} && /venv/bin/python {src/'demo.py'}", env=env); out["demo_clean"] = (r.returncode, r.stdout[-300:])
    r = sh(f"git -C {wt} apply {src/'patch.diff'}"); out["apply"] = r.returncode
    if r.returncode != 0:
        # the tree has moved on since the change was written (repairs in the same file): merge it in
        sh(f"git -C {wt} reset -q --hard")
        r = sh(f"git -C {wt} apply --3way {src/'patch.diff'}"); out["apply"] = r.returncode
        if r.returncode != 0:
            print(sid, "patch no longer applies to this tree (not even with --3way): nothing filed")
            sh(f"git -C /repo worktree remove --force {wt}")
            sys.exit(3)
    r = sh(f"cd {wt} && /venv/bin/python {src/'demo.py'}", env=env); out["demo_mutated"] = (r.returncode, r.stdout[-600:])
    prev = json.loads((src / "meta.json").read_text()).get("confirmed", {}).get("pinned_suite") if (src / "meta.json").exists() else None
    if os.environ.get("TRY_SEED_SKIP_BASELINE") and prev and prev.startswith("passed=213"):
        out["baseline"] = prev          # re-run of the checks only: the suite result of this patch was confirmed when it was filed
    else:
        r = sh(f"/verif/bin/baseline_check.py {wt}"); out["baseline"] = r.stdout.strip().splitlines()[0] if r.stdout.strip() else "?"
    out["checks"] = {}
    for p in props:
        r = sh(f"VERIF_REPO={wt} /verif/bin/check {p} --tier quick")
        lines = [l for l in r.stdout.splitlines() if l.startswith(("VIOLATION", "[" + p))]
        out["checks"][p] = {"exit": r.returncode, "lines": [l[:300] for l in lines[:6]]}
finally:
    sh(f"git -C /repo worktree remove --force {wt}")
dst = V / "seeded" / sid
dst.mkdir(parents=True, exist_ok=True)
for f in ("patch.diff", "demo.py"):
    if (src / f).resolve() != (dst / f).resolve():
        shutil.copy(src / f, dst / f)
meta = json.loads((src / "meta.json").read_text()) if (src / "meta.json").exists() else {}
meta["confirmed"] = {"demo_on_clean_tree": out["demo_clean"][0] == 0, "demo_on_mutated_tree_fails": out["demo_mutated"][0] != 0,
                     "patch_applies": out["apply"] == 0, "pinned_suite": out["baseline"]}
meta["verif_result"] = out["checks"]
meta["caught_by"] = [p for p, v in out["checks"].items() if v["exit"] != 0]
(dst / "meta.json").write_text(json.dumps(meta, indent=1))
print(sid, "clean:", out["demo_clean"][0], "mutated:", out["demo_mutated"][0], "baseline:", out["baseline"], "caught_by:", meta["caught_by"])
for p, v in out["checks"].items():
    for l in v["lines"]: print("   ", l[:200])
