#!/bin/sh
# usage: bin/seed_sweep.sh <outdir> [streams]  -- re-run every filed seeded change against the quick check of its own property
# (one stream per group of properties; scratch directories are per property, so a property never runs twice at a time)
OUT="$1"; mkdir -p "$OUT"; : > "$OUT/summary.txt"
run_prop() {
  for d in /verif/seeded/$1-*; do
    [ -d "$d" ] || continue
    sid=$(basename "$d")
    TRY_SEED_SKIP_BASELINE=1 /verif/bin/try_seed.py "$d" "$sid" "$1" > "$OUT/$sid.log" 2>&1
    head -n 1 "$OUT/$sid.log" >> "$OUT/summary.txt"
  done
}
( run_prop C01; run_prop C07; run_prop C13; run_prop C19 ) &
( run_prop C02; run_prop C08; run_prop C14 ) &
( run_prop C03; run_prop C09; run_prop C15; run_prop C20 ) &
( run_prop C04; run_prop C10; run_prop C16 ) &
( run_prop C05; run_prop C11; run_prop C17 ) &
( run_prop C06; run_prop C12; run_prop C18 ) &
wait
echo DONE >> "$OUT/summary.txt"
