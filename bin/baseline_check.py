#!/venv/bin/python
"""Run the repository's pinned suite (guard off) and compare with BASELINE.json's stable_pass set.
usage: baseline_check.py [repo_dir]"""
import json, os, subprocess, sys, tempfile, xml.etree.ElementTree as ET
repo = sys.argv[1] if len(sys.argv) > 1 else "/repo"
base = json.load(open("/root/.vp/BASELINE.json"))
with tempfile.TemporaryDirectory(dir="/dev/shm") as d:
    x = os.path.join(d, "j.xml")
    env = dict(os.environ); env.pop("SKOPS_VERIF", None)
    subprocess.run(["/venv/bin/python", "-m", "pytest", "-ra", "-q", "-p", "no:cacheprovider", "--timeout=900",
                    "--continue-on-collection-errors", f"--junitxml={x}"], cwd=repo, env=env,
                   stdout=subprocess.DEVNULL, stderr=subprocess.DEVNULL)
    passed = set()
    for tc in ET.parse(x).getroot().iter("testcase"):
        if not any(c.tag in ("failure", "error", "skipped") for c in tc):
            passed.add(f"{tc.get('classname')}::{tc.get('name')}")
missing = sorted(set(base["stable_pass"]) - passed)
print(f"passed={len(passed)} stable_pass={len(base['stable_pass'])} missing={len(missing)}")
for m in missing[:20]:
    print("  MISSING", m)
sys.exit(1 if missing else 0)
