#!/bin/sh
# usage: bin/refac_run.sh <dir with rN/patch.diff> <outdir>  -- run the relevant quick checks against each behaviour-preserving patch
# (checks of one patch run in parallel: scratch directories are per property; patches run one after the other)
SRC="$1"; OUT="$2"; mkdir -p "$OUT"
sel() {
 case "$1" in
  r1) echo "C01 C02 C03 C08 C11 C13 C19 C20" ;;
  r2) echo "C02 C12 C16 C17 C18 C20 C05" ;;
  r3) echo "C01 C02 C04 C05 C06 C08 C12 C18 C20 C11" ;;
  r4) echo "C01 C02 C03 C06 C20 C11 C19" ;;
  r5) echo "C02 C05 C06 C07 C12 C18 C19 C08" ;;
  r6) echo "C13 C02 C19 C20" ;;
  r7) echo "C09 C10 C14 C20" ;;
  r8) echo "C15 C20 C09" ;;
  r9) echo "C16 C17 C20" ;;
  r10) echo "C02 C04 C08 C11 C20 C12 C18 C01" ;;
 esac
}
for N in r1 r2 r3 r4 r5 r6 r7 r8 r9 r10; do
  WT=/dev/shm/refac_wt_$N
  git -C /repo worktree add -q -f "$WT" HEAD || continue
  git -C "$WT" apply "$SRC/$N/patch.diff" || { echo "$N: patch does not apply" >> "$OUT/summary.txt"; git -C /repo worktree remove --force "$WT"; continue; }
  for c in $(sel $N); do
    ( VERIF_REPO="$WT" /verif/bin/check "$c" --tier quick > "$OUT/$N-$c.log" 2>&1; echo "$N $c exit=$? $(grep -c '^VIOLATION' "$OUT/$N-$c.log") viol" >> "$OUT/summary.txt" ) &
  done
  wait
  git -C /repo worktree remove --force "$WT"
done
echo DONE >> "$OUT/summary.txt"
