#!/bin/sh
# usage: bin/with_mutant.sh <patch.diff> <Cxx> [Cyy ...]   -- run checks against a scratch worktree with the patch applied
set -e
P="$(realpath "$1")"; shift
WT=/dev/shm/verif_wt_$$
git -C /repo worktree add -q -f "$WT" HEAD
trap 'git -C /repo worktree remove --force "$WT"' EXIT
git -C "$WT" apply "$P"
for c in "$@"; do VERIF_REPO="$WT" /verif/bin/check "$c" --tier quick || true; done
