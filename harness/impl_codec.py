"""Implementation-side runner for the dump-side correspondences (C04 C05 C06 C07 C12 C13-total).
stdin: {"mode":..., "cases":[...]}  stdout: JSON list."""
from __future__ import annotations

import contextlib
import io
import json
import sys
import types
import warnings
import zipfile
from pathlib import Path

sys.path.insert(0, str(Path(__file__).resolve().parent))
warnings.simplefilter("ignore")

import numpy as np  # noqa: E402

from absval import abs_value, fingerprint  # noqa: E402
from values import build  # noqa: E402


def exc_name(e):
    from skops.io.exceptions import UnsupportedTypeException, UntrustedTypesFoundException
    if isinstance(e, UnsupportedTypeException):
        return "Unsupported"
    if isinstance(e, UntrustedTypesFoundException):
        return "Untrusted"
    return type(e).__name__


def norm_schema(schema, names):
    """ids renumbered in first-occurrence order; uuid/id member names renamed likewise"""
    ids, files = {}, {}

    def walk(j, key=None):
        if isinstance(j, dict):
            out = {}
            for k, v in j.items():
                if k == "__id__":
                    out[k] = ids.setdefault(v, len(ids))
                elif k == "file" and isinstance(v, str):
                    out[k] = files.setdefault(v, f"member{len(files)}" + Path(v).suffix)
                elif k == "_skops_version":
                    out[k] = "V"
                else:
                    out[k] = walk(v, k)
            return out
        if isinstance(j, list):
            return [walk(x) for x in j]
        return j
    s = walk(schema)
    return s, sorted(files.get(n, n) for n in names)


def identity_partition(obj):
    """paths (as tuples) grouped by object identity, for mutable containers/arrays reachable through
    list/tuple/dict values/object-array cells/attributes"""
    groups = {}
    seen_stack = set()

    def visit(o, path):
        t = type(o)
        ident = isinstance(o, (list, dict, set, bytearray, np.ndarray)) or hasattr(o, "__dict__") and not isinstance(o, type) and not callable(o)
        try:
            import scipy.sparse as sp
            ident = ident or sp.issparse(o)
        except Exception:
            pass
        ident = ident or isinstance(o, (np.random.RandomState, np.random.Generator))
        if ident:
            groups.setdefault(id(o), []).append(path)
            if id(o) in seen_stack:
                return
            seen_stack.add(id(o))
        if len(path) > 12:
            return
        if isinstance(o, (list, tuple)):
            for i, x in enumerate(o):
                visit(x, path + (i,))
        elif isinstance(o, dict):
            for i, (k, x) in enumerate(o.items()):
                visit(x, path + ("v", i))
            if hasattr(o, "default_factory"):
                pass
        elif isinstance(o, np.ndarray) and o.dtype == object:
            for i, x in enumerate(o.ravel().tolist()):
                visit(x, path + ("c", i))
        elif isinstance(o, np.ma.MaskedArray):
            pass
        elif isinstance(o, types.MethodType):
            # a bound method carries its owner: the owner must be THE object, not a copy
            visit(o.__self__, path + ("self",))
        elif hasattr(o, "__dict__") and not isinstance(o, type) and not callable(o):
            for k in sorted(o.__dict__):
                visit(o.__dict__[k], path + ("a", k))
        if ident:
            seen_stack.discard(id(o))
    visit(obj, ())
    return sorted(sorted(map(list, ps)) for ps in groups.values() if len(ps) > 0)


def one_roundtrip(sio, spec, opts):
    rec = {}
    try:
        obj = build(spec)
    except Exception as e:
        return {"build": "err:" + type(e).__name__ + ":" + str(e)[:80]}
    rec["build"] = "ok"
    fp0 = fingerprint(obj)
    rec["fp0"] = fp0 if opts.get("keep_fp") else None
    rec["type0"] = f"{type(obj).__module__}.{type(obj).__qualname__}"
    try:
        data = sio.dumps(obj)
    except BaseException as e:  # noqa
        rec["dump"] = "raises:" + (exc_name(e) if isinstance(e, Exception) else "BASEEXC")
        rec["dump_msg"] = str(e)[:120]
        rec["pure"] = fingerprint(obj) == fp0
        return rec
    rec["dump"] = "ok"
    rec["pure"] = fingerprint(obj) == fp0
    rec["size"] = len(data)
    with zipfile.ZipFile(io.BytesIO(data)) as z:
        names = z.namelist()
        schema = json.loads(z.read("schema.json"))
    rec["schema"], rec["members"] = norm_schema(schema, [n for n in names if n != "schema.json"])
    rec["protocol"] = schema.get("protocol")
    rec["version_ok"] = isinstance(schema.get("_skops_version"), str)
    try:
        gut = sio.get_untrusted_types(data=data)
        rec["gut"] = gut
    except Exception as e:
        rec["gut"] = None
        rec["gut_err"] = exc_name(e)
        gut = []
    if opts.get("vis"):
        # C13, first clause: every archive dumps wrote is visualized to the end in all nine (show x trusted) combinations
        # (before load: a refused or failing load must not hide a visualize failure)
        rec["vis"] = visualize_all(sio, data, gut)
    try:
        obj2 = sio.loads(data, trusted=gut)
    except BaseException as e:  # noqa
        rec["load"] = "raises:" + (exc_name(e) if isinstance(e, Exception) else "BASEEXC")
        rec["load_msg"] = str(e)[:160]
        return rec
    rec["load"] = "ok"
    fp2 = fingerprint(obj2)
    rec["same"] = fp2 == fp0
    if not rec["same"]:
        rec["fp0"], rec["fp2"] = fp0[:1500], fp2[:1500]
    rec["part0"] = identity_partition(obj)
    rec["part2"] = identity_partition(obj2)
    # stability: dump the loaded value again, k times
    k = opts.get("cycles", 2)
    cur = obj2
    stable = True
    try:
        for _ in range(k):
            d2 = sio.dumps(cur)
            cur = sio.loads(d2, trusted=sio.get_untrusted_types(data=d2))
            if fingerprint(cur) != fp0:
                stable = False
                break
    except Exception as e:
        stable = "raises:" + exc_name(e)
    rec["stable"] = stable
    # RNGs continue the identical stream
    return rec


def visualize_all(sio, data, gut):
    vis = {}
    for show in ("all", "untrusted", "trusted"):
        for tname, T in (("none", None), ("full", gut), ("half", gut[: len(gut) // 2])):
            buf = io.StringIO()
            try:
                with contextlib.redirect_stdout(buf):
                    sio.visualize(data, show=show, trusted=T)
                vis[f"{show}/{tname}"] = "ok"
            except Exception as e:
                vis[f"{show}/{tname}"] = "raises:" + exc_name(e) + ":" + str(e)[:60]
    return vis


def mode_roundtrip(cases):
    import skops.io as sio
    opts = cases[0]
    return [one_roundtrip(sio, spec, opts) for spec in cases[1:]]


def mode_dump_hex(cases):
    """real archives as hex, for the byte-level mutation sweep"""
    import skops.io as sio
    out = []
    for spec in cases:
        try:
            out.append(sio.dumps(build(spec)).hex())
        except Exception:
            out.append(None)
    return out


def mode_golden_make(cases):
    """freeze archives written by the tree as it is NOW: spec, schema.json text, members (hex)"""
    import skops.io as sio
    out = []
    for spec in cases:
        try:
            obj = build(spec)
            data = sio.dumps(obj)
            back = sio.loads(data, trusted=sio.get_untrusted_types(data=data))
            if fingerprint(back) != fingerprint(obj):
                out.append(None)
                continue
            with zipfile.ZipFile(io.BytesIO(data)) as z:
                out.append({"spec": spec, "schema": z.read("schema.json").decode(), "members": {n: z.read(n).hex() for n in z.namelist() if n != "schema.json"}})
        except Exception:
            out.append(None)
    return out


def mode_golden_check(cases):
    """C08: archives frozen from an earlier state of the tree must still load to the value they were written from"""
    import skops.io as sio
    out = []
    for g in cases:
        buf = io.BytesIO()
        with zipfile.ZipFile(buf, "w") as z:
            z.writestr("schema.json", g["schema"])
            for n, hx in g["members"].items():
                z.writestr(n, bytes.fromhex(hx))
        data = buf.getvalue()
        try:
            want = fingerprint(build(g["spec"]))
            gut = sio.get_untrusted_types(data=data)
            back = sio.loads(data, trusted=gut)
            out.append("same" if fingerprint(back) == want else "DIFFERENT")
        except Exception as e:
            out.append("raises:" + exc_name(e) + ":" + str(e)[:100])
    return out


def rewrite_old(schema, proto):
    """the archive layout skops wrote under an older protocol, at every nesting position"""
    n = {"fn": 0, "rg": 0}

    def walk(j):
        if isinstance(j, dict):
            j = {k: walk(v) for k, v in j.items()}
            if j.get("__loader__") == "FunctionNode" and proto == 0:
                j["content"] = {"module_path": j["__module__"], "function": j["__class__"]}
                n["fn"] += 1
            if j.get("__loader__") == "RandomGeneratorNode" and proto <= 1 and isinstance(j.get("content"), dict):
                j["content"] = {"bit_generator": j["content"]["bit_generator"]}
                n["rg"] += 1
            return j
        if isinstance(j, list):
            return [walk(x) for x in j]
        return j
    out = walk(schema)
    out["protocol"] = proto
    return out, n


def mode_old_layouts(cases):
    """C08: a value dumped now, rewritten into the protocol-0 / protocol-1 layouts, must load to the same value"""
    import skops.io as sio
    out = []
    for spec in cases:
        rec = {}
        try:
            obj = build(spec)
            data = sio.dumps(obj)
        except Exception as e:
            out.append({"skip": type(e).__name__})
            continue
        fp0 = fingerprint(obj)
        with zipfile.ZipFile(io.BytesIO(data)) as z:
            members = {n: z.read(n) for n in z.namelist() if n != "schema.json"}
            schema = json.loads(z.read("schema.json"))
        for proto in (0, 1, schema["protocol"]):
            new, n = rewrite_old(schema, proto)
            buf = io.BytesIO()
            with zipfile.ZipFile(buf, "w") as z:
                z.writestr("schema.json", json.dumps(new))
                for k, v in members.items():
                    z.writestr(k, v)
            d2 = buf.getvalue()
            try:
                gut = sio.get_untrusted_types(data=d2)
                back = sio.loads(d2, trusted=gut)
                import absval
                # the old Generator layouts carry the bit generator state only (no seed sequence): compare without it there
                absval.GENERATOR_SEED_SEQ = not (proto < 2 and n["rg"] > 0)
                try:
                    same = fingerprint(back) == (fp0 if absval.GENERATOR_SEED_SEQ else fingerprint(obj))
                finally:
                    absval.GENERATOR_SEED_SEQ = True
                rec[str(proto)] = {"rewritten": n, "result": "same" if same else "DIFFERENT"}
            except Exception as e:
                rec[str(proto)] = {"rewritten": n, "result": "raises:" + exc_name(e)}
        out.append(rec)
    return out



def one_codec(sio, spec, opts):
    """model correspondence for C04/C05/C12: the value as a Coq `pval` term + the canonical texts of
    what the implementation does with it (normalised archive, loaded value or exception class)"""
    import absval
    import pval_emit as PE
    if PE.abs_hook not in absval.EXT_HOOKS:
        absval.EXT_HOOKS.append(PE.abs_hook)
    rec = {}
    try:
        obj = build(spec)
    except Exception as e:
        return {"build": "err:" + type(e).__name__ + ":" + str(e)[:80]}
    rec["build"] = "ok"
    try:
        rec["term"], rec["kinds"] = PE.emit_case(obj, opts["protocol"], opts["version"])
    except PE.Unmodelled as e:
        rec["skip"] = str(e)
    except RecursionError:
        rec["skip"] = "recursion"
    try:
        t0 = PE.value_text(obj)
    except Exception as e:
        t0 = "<abs failed: %s>" % type(e).__name__
    x0 = masked_extras(obj)
    rec["type0"] = f"{type(obj).__module__}.{type(obj).__qualname__}"
    try:
        data = sio.dumps(obj)
    except BaseException as e:  # noqa
        en = PE.exc_enum(e) if isinstance(e, Exception) else "BASEEXC"
        rec["dump"] = "err:" + en
        rec["load"] = "dump-err:" + en
        rec["msg"] = str(e)[:160]
        rec["pure"] = PE.value_text(obj) == t0
        return rec
    rec["pure"] = PE.value_text(obj) == t0
    with zipfile.ZipFile(io.BytesIO(data)) as z:
        names = z.namelist()
        infos = [(i.filename, i.is_dir()) for i in z.infolist()]
        schema = json.loads(z.read("schema.json"))
    ns, nm = norm_schema(schema, [n for n in names if n != "schema.json"])
    rec["dump"] = "ok:" + PE.archive_text(ns, alias_orphans(nm))
    rec["names"] = names
    rec["raw_schema"] = schema if opts.get("keep_schema") else None
    rec["protocol"] = schema.get("protocol")
    rec["version"] = schema.get("_skops_version")
    rec["wf"] = schema_wf(schema, names, infos)
    try:
        gut = sio.get_untrusted_types(data=data)
        obj2 = sio.loads(data, trusted=gut)
    except BaseException as e:  # noqa
        rec["load"] = "err:" + (PE.exc_enum(e) if isinstance(e, Exception) else "BASEEXC")
        rec["msg"] = str(e)[:160]
        return rec
    t2 = PE.value_text(obj2)
    rec["load"] = "ok:" + t2
    # the canonical text is what the Coq model can say; attributes of masked arrays it has no notion of (fill_value, hard
    # mask) are compared beside it
    x2 = masked_extras(obj2)
    rec["same"] = t2 == t0 and x2 == x0
    rec["extras_only"] = t2 == t0 and x2 != x0      # the difference lies outside what the pval abstraction carries
    if not rec["same"]:
        rec["t0"] = t0[:3000] + ("" if x2 == x0 else f" masked fill_value/hardmask before {x0} after {x2}")
    k = opts.get("cycles", 0)
    if k:
        cur, stable = obj2, True
        try:
            for _ in range(k):
                d2 = sio.dumps(cur)
                cur = sio.loads(d2, trusted=sio.get_untrusted_types(data=d2))
                if PE.value_text(cur) != t0:
                    stable = False
                    break
        except Exception as e:
            stable = "raises:" + PE.exc_enum(e)
        rec["stable"] = stable
        rec["draws"] = rng_draws(obj, cur)
    return rec


def alias_orphans(norm_members):
    """members no node refers to keep their id/uuid name in norm_schema: rename them too"""
    import re
    return sorted(n if re.fullmatch(r"member\d+\.\w+", n) else "orphan" + Path(n).suffix for n in norm_members)


def rng_draws(a, b):
    """the next draws of every RNG reachable at the same list/tuple/dict-value position (copies are drawn from)"""
    import copy
    out = []

    def walk(x, y, depth=0):
        if depth > 6:
            return
        if isinstance(x, np.random.RandomState) and isinstance(y, np.random.RandomState):
            out.append(bool(np.array_equal(copy.deepcopy(x).random_sample(4), copy.deepcopy(y).random_sample(4))))
        elif isinstance(x, np.random.Generator) and isinstance(y, np.random.Generator):
            out.append(bool(np.array_equal(copy.deepcopy(x).random(4), copy.deepcopy(y).random(4))))
        elif isinstance(x, (list, tuple)) and isinstance(y, (list, tuple)) and len(x) == len(y):
            for p, q in zip(x, y):
                walk(p, q, depth + 1)
        elif isinstance(x, dict) and isinstance(y, dict) and len(x) == len(y):
            for p, q in zip(x.values(), y.values()):
                walk(p, q, depth + 1)
    walk(a, b)
    return out


NODE_KEYS = ("__loader__", "__class__", "__module__", "__id__")


def schema_wf(schema, names, infos):
    """C12's statement on the real archive: returns a list of defects (empty = well-formed)"""
    import re
    bad = []
    if not isinstance(schema.get("protocol"), int):
        bad.append("root lacks an int protocol")
    if not isinstance(schema.get("_skops_version"), str):
        bad.append("root lacks _skops_version")
    refs = []

    def walk(j, path):
        if isinstance(j, dict):
            if "__loader__" in j or "__class__" in j or "__module__" in j:
                for k in NODE_KEYS:
                    if k not in j:
                        bad.append(f"node at {path or '<root>'} lacks {k}")
                if isinstance(j.get("file"), str):
                    refs.append(j["file"])
            for k, v in j.items():
                walk(v, path + "/" + k)
        elif isinstance(j, list):
            for i, v in enumerate(j):
                walk(v, f"{path}/{i}")
    walk(schema, "")
    others = [n for n in names if n != "schema.json"]
    if names.count("schema.json") != 1:
        bad.append("schema.json member count != 1")
    for r in sorted(set(refs)):
        if r not in others:
            bad.append(f"node refers to missing member {r}")
    for n in others:
        if n not in refs:
            bad.append(f"member {n} is not referred to by any node")
    if len(set(names)) != len(names):
        bad.append("duplicate member names")
    for n, isdir in infos:
        if isdir or "/" in n or "\\" in n or n.startswith((".", "~")) or ":" in n:
            bad.append(f"member name {n!r} is not flat")
        elif n != "schema.json" and not re.fullmatch(r"(\d+\.np[yz]|[0-9a-f]{8}-[0-9a-f]{4}-[0-9a-f]{4}-[0-9a-f]{4}-[0-9a-f]{12}\.bin)", n):
            bad.append(f"member name {n!r} is not <id>.npy / <id>.npz / <uuid>.bin")
    return bad


def mode_codec(cases):
    import skops
    import skops.io as sio
    opts = cases[0]
    opts.setdefault("version", skops.__version__)
    return [one_codec(sio, spec, opts) for spec in cases[1:]]


def read_archive(data):
    import hashlib
    with zipfile.ZipFile(io.BytesIO(data)) as z:
        names = z.namelist()
        infos = [(i.filename, i.is_dir()) for i in z.infolist()]
        ctypes = sorted({i.compress_type for i in z.infolist()})
        schema = json.loads(z.read("schema.json"))
        contents = {n: hashlib.sha1(z.read(n)).hexdigest() for n in names if n != "schema.json"}
        bad_crc = z.testzip()
    return names, infos, ctypes, schema, contents, bad_crc


def norm_archive(data):
    """(normalised schema text, {normalised member name: content hash}, defects, compress types)"""
    import pval_emit as PE
    names, infos, ctypes, schema, contents, bad_crc = read_archive(data)
    ids, files = {}, {}
    ns, nm = norm_schema(schema, [n for n in names if n != "schema.json"])
    # rename members like norm_schema does (first occurrence order of "file" values)
    order = []

    def walk(j):
        if isinstance(j, dict):
            for k, v in j.items():
                if k == "file" and isinstance(v, str):
                    if v not in order:
                        order.append(v)
                else:
                    walk(v)
        elif isinstance(j, list):
            for x in j:
                walk(x)
    walk(schema)
    alias = {n: f"member{i}" + Path(n).suffix for i, n in enumerate(order)}
    cont = {}
    for n, h in contents.items():
        cont.setdefault(alias.get(n, "orphan" + Path(n).suffix), []).append(h)
    cont = {k: sorted(v) for k, v in cont.items()}
    wf = schema_wf(schema, names, infos)
    if bad_crc:
        wf.append(f"bad CRC in member {bad_crc}")
    return PE.archive_text(ns, alias_orphans(nm)), cont, wf, ctypes


def masked_extras(obj):
    """(fill_value, hardmask) of every masked array inside obj, in the order absval visits them"""
    import absval
    out = []

    def walk(a):
        if isinstance(a, list):
            if len(a) >= 5 and a[0] == "masked":
                out.append([a[3], a[4]])
            for x in a:
                walk(x)
    try:
        walk(absval.abs_value(obj))
    except Exception as e:  # noqa
        return ["abs failed: " + type(e).__name__]
    return out


def one_sinks(sio, spec, opts):
    """C12: the same object to dumps / str path / Path / open binary file under every compression setting"""
    import absval
    import os
    import pval_emit as PE
    if PE.abs_hook not in absval.EXT_HOOKS:
        absval.EXT_HOOKS.append(PE.abs_hook)
    scratch = Path(opts["scratch"])
    scratch.mkdir(parents=True, exist_ok=True)
    rec = {"variants": {}}
    try:
        obj = build(spec)
    except Exception as e:
        return {"build": "err:" + type(e).__name__}
    rec["build"] = "ok"
    try:
        rec["original"] = "ok:" + PE.value_text(obj)
    except Exception as e:  # noqa
        rec["original"] = "err:" + type(e).__name__
    for method, level in opts["configs"]:
        # "file_ab": a file object opened for appending (empty file); "writeonly": an object that only has write()
        for sink in ("dumps", "str", "path", "file", "file_ab", "writeonly"):
            key = f"{sink}/{method}/{level}"
            kw = {"compression": method, "compresslevel": level}
            f = scratch / f"a_{os.getpid()}.skops"
            try:
                if sink == "dumps":
                    data = sio.dumps(obj, **kw)
                elif sink == "str":
                    sio.dump(obj, str(f), **kw)
                    data = f.read_bytes()
                elif sink == "path":
                    sio.dump(obj, f, **kw)
                    data = f.read_bytes()
                elif sink == "file":
                    with open(f, "wb") as fh:
                        sio.dump(obj, fh, **kw)
                    data = f.read_bytes()
                elif sink == "file_ab":
                    with open(f, "ab") as fh:
                        sio.dump(obj, fh, **kw)
                    data = f.read_bytes()
                else:
                    class WriteOnly:
                        def __init__(self):
                            self.chunks = []

                        def write(self, b):
                            self.chunks.append(bytes(b))
                            return len(b)
                    wo = WriteOnly()
                    sio.dump(obj, wo, **kw)
                    data = b"".join(wo.chunks)
            except BaseException as e:  # noqa
                rec["variants"][key] = {"dump": "err:" + (PE.exc_enum(e) if isinstance(e, Exception) else "BASEEXC")}
                continue
            finally:
                if f.exists():
                    f.unlink()
            v = {"dump": "ok"}
            try:
                v["archive"], v["contents"], v["wf"], v["ctypes"] = norm_archive(data)
            except Exception as e:
                v["archive"] = "unreadable:" + type(e).__name__
                rec["variants"][key] = v
                continue
            try:
                if sink in ("dumps", "file", "file_ab", "writeonly"):
                    o2 = sio.loads(data, trusted=sio.get_untrusted_types(data=data))
                else:
                    f.write_bytes(data)
                    o2 = sio.load(str(f) if sink == "str" else f, trusted=sio.get_untrusted_types(file=f))
                    f.unlink()
                v["load"] = "ok:" + PE.value_text(o2)
            except BaseException as e:  # noqa
                v["load"] = "err:" + (PE.exc_enum(e) if isinstance(e, Exception) else "BASEEXC")
            rec["variants"][key] = v
    return rec


def mode_sinks(cases):
    import skops.io as sio
    opts = cases[0]
    return [one_sinks(sio, spec, opts) for spec in cases[1:]]


MODES = {"roundtrip": mode_roundtrip, "dump_hex": mode_dump_hex, "old_layouts": mode_old_layouts, "codec": mode_codec, "sinks": mode_sinks,
         "golden_make": mode_golden_make, "golden_check": mode_golden_check}

if __name__ == "__main__":
    req = json.load(sys.stdin)
    real_stdout = sys.stdout
    sys.stdout = sys.stderr
    res = MODES[req["mode"]](req["cases"])
    json.dump(res, real_stdout, default=str)
