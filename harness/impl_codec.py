"""Implementation-side runner for the dump-side correspondences (C04 C05 C06 C07 C12 C13-total).
stdin: {"mode":..., "cases":[...]}  stdout: JSON list."""
from __future__ import annotations

import contextlib
import io
import json
import sys
import warnings
import zipfile
from pathlib import Path

sys.path.insert(0, str(Path(__file__).resolve().parent))
warnings.simplefilter("ignore")

import numpy as np  # noqa: E402

from absval import abs_value, fingerprint  # noqa: E402
from values import build  # noqa: E402


def exc_name(e):
    from skops.io.exceptions import UnsupportedTypeException, UntrustedTypesFoundException
    if isinstance(e, UnsupportedTypeException):
        return "Unsupported"
    if isinstance(e, UntrustedTypesFoundException):
        return "Untrusted"
    return type(e).__name__


def norm_schema(schema, names):
    """ids renumbered in first-occurrence order; uuid/id member names renamed likewise"""
    ids, files = {}, {}

    def walk(j, key=None):
        if isinstance(j, dict):
            out = {}
            for k, v in j.items():
                if k == "__id__":
                    out[k] = ids.setdefault(v, len(ids))
                elif k == "file" and isinstance(v, str):
                    out[k] = files.setdefault(v, f"member{len(files)}" + Path(v).suffix)
                elif k == "_skops_version":
                    out[k] = "V"
                else:
                    out[k] = walk(v, k)
            return out
        if isinstance(j, list):
            return [walk(x) for x in j]
        return j
    s = walk(schema)
    return s, sorted(files.get(n, n) for n in names)


def identity_partition(obj):
    """paths (as tuples) grouped by object identity, for mutable containers/arrays reachable through
    list/tuple/dict values/object-array cells/attributes"""
    groups = {}
    seen_stack = set()

    def visit(o, path):
        t = type(o)
        ident = isinstance(o, (list, dict, set, bytearray, np.ndarray)) or hasattr(o, "__dict__") and not isinstance(o, type) and not callable(o)
        try:
            import scipy.sparse as sp
            ident = ident or sp.issparse(o)
        except Exception:
            pass
        ident = ident or isinstance(o, (np.random.RandomState, np.random.Generator))
        if ident:
            groups.setdefault(id(o), []).append(path)
            if id(o) in seen_stack:
                return
            seen_stack.add(id(o))
        if len(path) > 12:
            return
        if isinstance(o, (list, tuple)):
            for i, x in enumerate(o):
                visit(x, path + (i,))
        elif isinstance(o, dict):
            for i, (k, x) in enumerate(o.items()):
                visit(x, path + ("v", i))
            if hasattr(o, "default_factory"):
                pass
        elif isinstance(o, np.ndarray) and o.dtype == object:
            for i, x in enumerate(o.ravel().tolist()):
                visit(x, path + ("c", i))
        elif isinstance(o, np.ma.MaskedArray):
            pass
        elif hasattr(o, "__dict__") and not isinstance(o, type) and not callable(o):
            for k in sorted(o.__dict__):
                visit(o.__dict__[k], path + ("a", k))
        if ident:
            seen_stack.discard(id(o))
    visit(obj, ())
    return sorted(sorted(map(list, ps)) for ps in groups.values() if len(ps) > 0)


def one_roundtrip(sio, spec, opts):
    rec = {}
    try:
        obj = build(spec)
    except Exception as e:
        return {"build": "err:" + type(e).__name__ + ":" + str(e)[:80]}
    rec["build"] = "ok"
    fp0 = fingerprint(obj)
    rec["fp0"] = fp0 if opts.get("keep_fp") else None
    rec["type0"] = f"{type(obj).__module__}.{type(obj).__qualname__}"
    try:
        data = sio.dumps(obj)
    except BaseException as e:  # noqa
        rec["dump"] = "raises:" + (exc_name(e) if isinstance(e, Exception) else "BASEEXC")
        rec["dump_msg"] = str(e)[:120]
        rec["pure"] = fingerprint(obj) == fp0
        return rec
    rec["dump"] = "ok"
    rec["pure"] = fingerprint(obj) == fp0
    rec["size"] = len(data)
    with zipfile.ZipFile(io.BytesIO(data)) as z:
        names = z.namelist()
        schema = json.loads(z.read("schema.json"))
    rec["schema"], rec["members"] = norm_schema(schema, [n for n in names if n != "schema.json"])
    rec["protocol"] = schema.get("protocol")
    rec["version_ok"] = isinstance(schema.get("_skops_version"), str)
    try:
        gut = sio.get_untrusted_types(data=data)
        rec["gut"] = gut
    except Exception as e:
        rec["gut"] = None
        rec["gut_err"] = exc_name(e)
        gut = []
    try:
        obj2 = sio.loads(data, trusted=gut)
    except BaseException as e:  # noqa
        rec["load"] = "raises:" + (exc_name(e) if isinstance(e, Exception) else "BASEEXC")
        rec["load_msg"] = str(e)[:160]
        return rec
    rec["load"] = "ok"
    fp2 = fingerprint(obj2)
    rec["same"] = fp2 == fp0
    if not rec["same"]:
        rec["fp0"], rec["fp2"] = fp0[:1500], fp2[:1500]
    rec["part0"] = identity_partition(obj)
    rec["part2"] = identity_partition(obj2)
    # stability: dump the loaded value again, k times
    k = opts.get("cycles", 2)
    cur = obj2
    stable = True
    try:
        for _ in range(k):
            d2 = sio.dumps(cur)
            cur = sio.loads(d2, trusted=sio.get_untrusted_types(data=d2))
            if fingerprint(cur) != fp0:
                stable = False
                break
    except Exception as e:
        stable = "raises:" + exc_name(e)
    rec["stable"] = stable
    # RNGs continue the identical stream
    if opts.get("vis"):
        vis = {}
        for show in ("all", "untrusted", "trusted"):
            for tname, T in (("none", None), ("full", gut), ("half", gut[: len(gut) // 2])):
                buf = io.StringIO()
                try:
                    with contextlib.redirect_stdout(buf):
                        sio.visualize(data, show=show, trusted=T)
                    vis[f"{show}/{tname}"] = "ok"
                except Exception as e:
                    vis[f"{show}/{tname}"] = "raises:" + exc_name(e) + ":" + str(e)[:60]
        rec["vis"] = vis
    return rec


def mode_roundtrip(cases):
    import skops.io as sio
    opts = cases[0]
    return [one_roundtrip(sio, spec, opts) for spec in cases[1:]]


def mode_dump_hex(cases):
    """real archives as hex, for the byte-level mutation sweep"""
    import skops.io as sio
    out = []
    for spec in cases:
        try:
            out.append(sio.dumps(build(spec)).hex())
        except Exception:
            out.append(None)
    return out


def rewrite_old(schema, proto):
    """the archive layout skops wrote under an older protocol, at every nesting position"""
    n = {"fn": 0, "rg": 0}

    def walk(j):
        if isinstance(j, dict):
            j = {k: walk(v) for k, v in j.items()}
            if j.get("__loader__") == "FunctionNode" and proto == 0:
                j["content"] = {"module_path": j["__module__"], "function": j["__class__"]}
                n["fn"] += 1
            if j.get("__loader__") == "RandomGeneratorNode" and proto <= 1 and isinstance(j.get("content"), dict):
                j["content"] = {"bit_generator": j["content"]["bit_generator"]}
                n["rg"] += 1
            return j
        if isinstance(j, list):
            return [walk(x) for x in j]
        return j
    out = walk(schema)
    out["protocol"] = proto
    return out, n


def mode_old_layouts(cases):
    """C08: a value dumped now, rewritten into the protocol-0 / protocol-1 layouts, must load to the same value"""
    import skops.io as sio
    out = []
    for spec in cases:
        rec = {}
        try:
            obj = build(spec)
            data = sio.dumps(obj)
        except Exception as e:
            out.append({"skip": type(e).__name__})
            continue
        fp0 = fingerprint(obj)
        with zipfile.ZipFile(io.BytesIO(data)) as z:
            members = {n: z.read(n) for n in z.namelist() if n != "schema.json"}
            schema = json.loads(z.read("schema.json"))
        for proto in (0, 1, schema["protocol"]):
            new, n = rewrite_old(schema, proto)
            buf = io.BytesIO()
            with zipfile.ZipFile(buf, "w") as z:
                z.writestr("schema.json", json.dumps(new))
                for k, v in members.items():
                    z.writestr(k, v)
            d2 = buf.getvalue()
            try:
                gut = sio.get_untrusted_types(data=d2)
                back = sio.loads(d2, trusted=gut)
                rec[str(proto)] = {"rewritten": n, "result": "same" if fingerprint(back) == fp0 else "DIFFERENT"}
            except Exception as e:
                rec[str(proto)] = {"rewritten": n, "result": "raises:" + exc_name(e)}
        out.append(rec)
    return out


MODES = {"roundtrip": mode_roundtrip, "dump_hex": mode_dump_hex, "old_layouts": mode_old_layouts}

if __name__ == "__main__":
    req = json.load(sys.stdin)
    real_stdout = sys.stdout
    sys.stdout = sys.stderr
    res = MODES[req["mode"]](req["cases"])
    json.dump(res, real_stdout, default=str)
