#!/venv/bin/python
"""harness/mkgolden.py -- freeze archives written by /repo as it is now into corpus/golden_p<protocol>.json.
Run by hand when the protocol is bumped (a NEW file for the new protocol; the old files stay and must keep loading:
that is property C08).  Never run by a check."""
import json
import random
import sys
from pathlib import Path

sys.path.insert(0, str(Path(__file__).resolve().parent))
import common as C  # noqa: E402
import gen_values as GV  # noqa: E402
from props import c12, c08  # noqa: E402

FIXED = [
    ["objarray", [2, 2], [["int", 1], ["str", "s"], ["none"], ["float", "0x1.4p+1"]]],
    ["objarray", [3, 1], [["str", "a"], ["str", "b"], ["int", 3]]],
    ["objarray", [2, 3], [["int", 1], ["int", 2], ["str", "x"], ["none"], ["bool", True], ["float", "0x1.0p+0"]]],
    ["objarray", [3], [["tuple", [["int", 0], ["int", 1]]], ["dict", [[["int", 0], ["int", 1]]]], ["str", "s"]]],
    ["list", [["slice", ["int", 1], ["none"], ["int", 2]], ["slice", ["none"], ["int", 5], ["none"]]]],
    ["dict", [[["str", "a"], ["set", [["int", 1], ["int", 2]]]], [["int", 2], ["tuple", [["str", "x"], ["float", "0x1.8p+1"]]]]]],
    ["sparse", "csr", [3, 4], 1], ["sparse", "csc", [2, 3], 2], ["sparse", "coo", [3, 3], 3],
    ["masked", ["ndarray", "<f8", [4], "C", 1, False], 2], ["dtype", "<i4"], ["randomstate", 3, 1], ["generator", "PCG64", 3, 2],
    ["partial", "np.add", [["int", 1]], []], ["ufunc", "np.sqrt"], ["ufunc", "scipy.special.expit"], ["type", "builtins.int"],
    ["bytes", "00ff10"], ["bytearray", "0102"], ["defaultdict", "list", [[["str", "k"], ["list", [["int", 1]]]]]],
    ["odict", [[["str", "b"], ["int", 1]], [["str", "a"], ["int", 2]]]],
]


def main():
    rnd = random.Random(20260930)
    specs = list(FIXED) + list(c12.WITNESSES)
    tries = 0
    while len(specs) < 140 and tries < 4000:
        tries += 1
        specs.append(GV.gen_value(rnd, supported=True, max_depth=3))
    p = C.run_impl("impl_codec.py", input_obj={"mode": "golden_make", "cases": specs}, timeout=900)
    if p.returncode != 0:
        sys.exit(p.stderr.decode()[-2000:])
    out = [g for g in json.loads(p.stdout) if g and len(json.dumps(g)) < 60000]
    protos = {json.loads(g["schema"])["protocol"] for g in out}
    assert len(protos) == 1, protos
    dst = C.VERIF / "corpus" / f"golden_p{protos.pop()}.json"
    dst.parent.mkdir(exist_ok=True)
    dst.write_text(json.dumps(out, indent=0))
    print(len(out), "archives ->", dst, dst.stat().st_size, "bytes")


if __name__ == "__main__":
    main()
