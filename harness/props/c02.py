"""C02 -- inspecting an archive is inert."""
import json
import random
import shutil

import common as C
import gen_archives as G
import io_common as IO


def make_canaries(d, n):
    d.mkdir(parents=True, exist_ok=True)
    body = ("import builtins\n_L = getattr(builtins, '_verif_ledger', None)\n"
            "if _L is None:\n    _L = builtins._verif_ledger = []\n_L.append(('import', __name__))\n"
            "class C:\n    def __new__(cls, *a, **k):\n        _L.append(('new', __name__ + '.C'))\n        return super().__new__(cls)\n"
            "def f(*a, **k):\n    _L.append(('call', __name__ + '.f'))\n")
    for k in range(n):
        (d / f"verif_cm_{k}.py").write_text(body)


def judge(rec):
    """anything imported / resolved / opened / executed during an inspection step is a violation"""
    bad = []
    for name, st in rec["steps"].items():
        loading = name.startswith("load")
        # load(...) may legitimately construct when the audit passes; canary names are never default-trusted,
        # so with trusted in {[], None} an archive naming them must be refused before anything runs
        if st["ledger"] or st["new_modules"] or st["hook"]:
            bad.append((name, {k: st[k] for k in ("ledger", "new_modules", "hook")}))
        if not loading and (st["resolved"] or st["import_module"]):
            bad.append((name, {"resolved": st["resolved"], "import_module": st["import_module"]}))
        if loading and any("verif_cm_" in x or "verif_canary" in x for x in st["resolved"] + st["import_module"]):
            bad.append((name, {"resolved": st["resolved"], "import_module": st["import_module"]}))
    return bad


def callgraph(R):
    """translate the source of skops/io into Gen/CallGraphGen.v (fail-closed) and compile it"""
    p = C.run_impl("callgraph.py", [R.gen / "CallGraphGen.v", R.gen / "callgraph.json"], timeout=300)
    if p.returncode != 0:
        R.obligation_broken("source translator harness/callgraph.py (fail-closed)", p.stderr.decode(errors="replace")[-1500:])
        # the props file needs the module: give it an empty graph so that the static theorem is reported, not a build error
        (R.gen / "CallGraphGen.v").write_text('From Coq Require Import String List.\nImport ListNotations.\n'
                                               'Definition callgraph : list (string * (list string * list string)) := [].\n'
                                               'Definition entries : list string := [].\nDefinition reach_hint : list string := [].\n'
                                               'Definition post_witness_path : list string := [].\n')
        C.coqc(R.gen / "CallGraphGen.v", R.gen)
        return None
    info = json.loads((R.gen / "callgraph.json").read_text())
    C.coqc(R.gen / "CallGraphGen.v", R.gen)
    R.checker_cmds.append("harness/callgraph.py -> CallGraphGen.v (call graph + effect table translated from skops/io source)")
    R.trusted_base.append("harness/callgraph.py: AST translator skops/io -> call graph (over-approximation rules in its docstring); its edge relation is "
                          "validated against the calls observed under sys.setprofile on every run; its tables of effectful primitives are trusted")
    R.notes["callgraph"] = {k: info[k] for k in ("functions", "edges", "entries", "reachable_before_verdict", "reflect_reachable")}
    for bad in info["effectful_reachable"]:
        # the static theorem will fail; say where (this is the detail of the broken obligation, the search oracle below looks for an input)
        R.notes.setdefault("callgraph_paths_to_effects", []).append(bad)
    return info


def check_dynamic_edges(R, cg, dyn):
    """every call between skops.io functions observed at run time must be an edge of the translated graph"""
    if cg is None:
        return
    E = cg["edges_list"]

    def static_calls(f):
        # functions split at the audit / at the serialisation appear as f@pre and f@post (callers point at those halves as well)
        out = set(E.get(f + "@pre", [])) | set(E.get(f + "@post", [])) | set(E.get(f, []))
        return out | {x.rsplit("@", 1)[0] for x in out if x.endswith(("@pre", "@post"))}
    missing = []
    for a, b in sorted(dyn):
        sc = static_calls(a)
        if b in sc or a == b:
            continue
        # through the singledispatch function: get_state -> _get_state -> registered function
        if "_utils._get_state" in sc and b in static_calls("_utils._get_state"):
            continue
        missing.append((a, b))
    R.notes["dynamic_call_edges_observed"] = len(dyn)
    R.notes["dynamic_call_edges_missing_from_static_graph"] = missing[:20]
    R.count("dyn-edges", len(dyn))
    if missing:
        R.obligation_broken("correspondence C02/call-graph: a call observed at run time is not an edge of the translated graph",
                            "; ".join(f"{a} -> {b}" for a, b in missing[:10]))


def guided_cases(snap, bad_paths, cm):
    import ast
    keys = []
    for b in bad_paths:
        for fkey in b["path"]:
            mod, _, fname = fkey.split("@")[0].rpartition(".")
            if "." in mod:       # a method: module.Class
                mod = mod.split(".")[0]
            f = C.REPO / "skops" / "io" / (mod.replace(".", "/") + ".py")
            if not f.exists():
                continue
            for node in ast.walk(ast.parse(f.read_text())):
                if isinstance(node, (ast.FunctionDef, ast.AsyncFunctionDef)) and node.name == fname:
                    for c in ast.walk(node):
                        if isinstance(c, ast.Constant) and isinstance(c.value, str) and 0 < len(c.value) <= 40 and "\n" not in c.value and " " not in c.value \
                                and c.value not in keys:
                            keys.append(c.value)
    out = []
    J = lambda v: {"__class__": "str", "__module__": "builtins", "__loader__": "JsonNode", "content": json.dumps(v), "is_json": True}   # noqa: E731
    for key in keys[:40]:
        for shape in ("dict-key", "list", "str", "dict-value"):
            k = len(cm)
            cm.append(f"verif_cm_{k}")
            name = f"verif_cm_{k}"
            val = {"dict-key": {name: "1.0"}, "list": [name], "str": name, "dict-value": {"name": name, "module": name}}[shape]
            child = {"__class__": "list", "__module__": "builtins", "__loader__": "ListNode", "__id__": 2, "content": [J(1)]}
            root = {"__class__": "list", "__module__": "builtins", "__loader__": "ListNode", "__id__": 1, "protocol": snap["protocol"],
                    "_skops_version": "0.0", "content": [child]}
            for where in ("root", "child"):
                sch = json.loads(json.dumps(root))
                tgt = sch if where == "root" else sch["content"][0]
                if key in tgt:
                    continue
                tgt[key] = val
                out.append({"schema": sch, "members": [], "tspec": "empty", "tseed": 0, "show": "all", "malformed": False, "wellformed": True,
                            "notes": [f"guided: {key!r} = {shape} at {where}"], "no_model": True})
    return out


def run(R, only_cases=None):
    R.trusted_base += ["Coq 8.16.1 kernel", "observation from outside: sys.addaudithook (import/open/os.*/subprocess/...), wrapped gettype/_import_obj/importlib.import_module, canary ledger"]
    R.assumptions += ["the theorem side is by construction (the model's inspection functions are pure and have no access to name resolution); what ties it to the code "
                      "is the differential run: every name slot of every loader kind at every protocol is filled with an importable-but-not-imported canary module",
                      "zipfile opening the archive path itself is the caller's file, not an action on the archive's behalf"]
    snap = R.snapshot()
    if snap is None:
        return
    cg = callgraph(R)
    R.prove("C02")
    scratch = C.BUILD / "scratch" / "C02"
    shutil.rmtree(scratch, ignore_errors=True)
    rnd = random.Random(R.seed)
    n = 250 if R.tier == "quick" else 2500
    cm = []
    cases = only_cases or [G.gen_case(rnd, canary_modules=cm, malformed_p=0.2) for _ in range(n)]
    if only_cases:
        cm = [f"verif_cm_{k}" for k in range(400)]
    if only_cases is None:
        # members far larger than any buffering threshold: inspection must still only read them
        for k, loader in enumerate(("NdArrayNode", "SparseMatrixNode", "BytesNode")):
            st = {"__class__": "ndarray", "__module__": "numpy", "__loader__": loader, "__id__": 1, "protocol": snap["protocol"],
                  "type": "numpy" if loader == "NdArrayNode" else "scipy", "file": "big.npy"}
            cases.append({"schema": st, "members": ["big.npy"], "big": {"big.npy": 48 * 2 ** 20}, "tspec": "empty", "tseed": 0, "show": "all",
                          "malformed": False, "wellformed": True, "notes": ["big-member probe"], "no_model": True})
    if only_cases is None and cg is not None and cg.get("effectful_reachable"):
        # the static theorem is about to fail: some function reachable before the verdict resolves names or touches files.
        # Search guided by the broken obligation: the string constants of the functions on those paths are the archive keys
        # they may read; plant fresh canary modules under each of them (at the root and in the first node below it)
        guided = guided_cases(snap, cg["effectful_reachable"], cm)
        R.notes["guided_search_cases"] = len(guided)
        cases += guided
    make_canaries(scratch / "cm", len(cm) + 1)
    # (a) the model predicts the same verdicts (ties get_tree / audit to the code on these archives too)
    for c in cases:
        c["tspec"], c["show"] = "empty", "all"
    recs, bad, _ = IO.run_batch(R, [c for c in cases if not c.get("no_model")], aspects=("gut", "audit", "rows"), tag="c02")
    IO.report_disagreements(R, cases, recs, bad, "C02")
    # (b) inertness observed on the implementation
    shards = 8
    chunks = [cases[i::shards] for i in range(shards)]
    from concurrent.futures import ThreadPoolExecutor
    tmpdir = scratch / "tmp"
    tmpdir.mkdir(parents=True, exist_ok=True)

    def one(arg):
        k, chunk = arg
        # a TMPDIR private to THIS worker: what is left behind in it can only come from the calls under observation
        # (tempfile.gettempdir() itself creates and removes a probe file on first use: with a directory shared between
        # the parallel workers one worker's probe file showed up in another worker's listing)
        mytmp = tmpdir / f"w{k}"
        mytmp.mkdir(parents=True, exist_ok=True)
        p = C.run_impl("impl_io.py", input_obj={"mode": "inert", "cases": [{"canary_dir": str(scratch / "cm"), "scratch": str(scratch)}] + chunk}, timeout=1200,
                       extra_env={"TMPDIR": str(mytmp)})
        if p.returncode != 0:
            raise RuntimeError("inert runner failed: " + p.stderr.decode(errors="replace")[-1500:])
        return json.loads(p.stdout)
    with ThreadPoolExecutor(shards) as ex:
        outs = list(ex.map(one, enumerate(chunks)))
    nsteps = 0
    dyn = set()
    for o in outs:
        if o and "dyn_edges" in o[-1]:
            dyn |= {tuple(e) for e in o.pop()["dyn_edges"]}
    check_dynamic_edges(R, cg, dyn)
    for s, o in enumerate(outs):
        for k, rec in enumerate(o):
            c = cases[s + k * shards]
            nsteps += len(rec["steps"])
            for st in rec["steps"].values():
                R.count("step-result:" + st["result"].split(":")[0])
            for name, what in judge(rec):
                root = c["schema"].get("__loader__")
                kinds = sorted(G.kinds_in(c["schema"]))
                R.violation({"kind": "not-inert", "step": name.split("(")[0], "kinds": kinds if len(kinds) <= 2 else None, "root_loader": root},
                            f"{name} on an archive with root {root} performed {json.dumps(what)[:300]}",
                            {"case": {k2: c[k2] for k2 in ("schema", "members", "show")}, "T": [], "step": name, "observed": what})
    R.notes["inspection_steps_observed"] = nsteps
    R.notes["canary_modules"] = len(cm)
    R.notes["rule"] = ("generated archives (all loaders, protocols 0..current+1, 20% malformed) in which 75% of the name slots mention a fresh importable canary module; "
                       "6 inspection entry points per archive observed under audit hook + resolution wrappers; non-trivial = inspection succeeded")
    R.notes["uncovered"] = IO.uncovered_kinds(R, snap)
    R.sample({"schema": cases[0]["schema"], "steps": outs[0][0]["steps"] if outs and outs[0] else None})
    shutil.rmtree(scratch, ignore_errors=True)


def replay(R, rep):
    c = dict(rep["replay"]["case"])
    c.update(tspec="empty", tseed=0)
    run(R, only_cases=[c])
