"""C18 -- a failed dump leaves the destination untouched.

prove: coq/props/C18.v.  correspond: generated structures (nested list / tuple / dict / object
attributes / object array / Pipeline step) with ONE unsupported or raising element substituted at
EVERY position (every node of the structure, root included) x sink {existing path, new path, open
file object on a new file, open file object appending to an existing file}: audit-hook events on
the destination, bytes / existence / tell() before and after are compared with `show_dump`,
with the serialiser alone (skops.io.dumps on the same object) as the oracle for "raises".
Unsubstituted structures give the successful sequences.  The property's oracle runs on every case."""
from __future__ import annotations

import json
import random

import cli_common as K
import common as C

BAD = ["birch", "generator", "getstate", "getstate_StopIteration", "reduce", "dok", "getstate_KeyError", "lil", "complex", "getstate_AttributeError",
       "memoryview", "module", "getstate_TypeError", "objarray"]
SINKS = ["existing", "new", "fileobj_new", "fileobj_existing"]
TARGET = "/S/d/model.skops"


def gen_leaf(rnd):
    k = rnd.choice(["int", "str", "float", "none", "array", "array"])
    if k == "int":
        return {"t": "int", "v": rnd.randrange(-5, 100)}
    if k == "str":
        return {"t": "str", "v": rnd.choice(["a", "bc", "", "x y"])}
    if k == "float":
        return {"t": "float", "v": rnd.choice([0.5, -1.25, 3.0])}
    if k == "none":
        return {"t": "none"}
    return {"t": "array", "n": rnd.randrange(1, 5), "dtype": rnd.choice(["float64", "int32"])}


def gen_spec(rnd, depth):
    if depth == 0 or rnd.random() < 0.25:
        return gen_leaf(rnd)
    t = rnd.choice(["list", "tuple", "dict", "obj", "objarr", "list", "dict", "pipeline"])
    if t == "pipeline":
        return {"t": "pipeline", "c": [{"t": "est", "C": 0.5}]}
    n = rnd.randrange(1, 4)
    if t == "objarr":
        return {"t": t, "c": [gen_leaf(rnd) if rnd.random() < 0.7 else {"t": "list", "c": [gen_leaf(rnd)]} for _ in range(n)]}
    kids = [gen_spec(rnd, depth - 1) for _ in range(n)]
    if t in ("dict", "obj"):
        return {"t": t, "c": [[f"k{i}", k] for i, k in enumerate(kids)]}
    return {"t": t, "c": kids}


def children(spec):
    if spec["t"] in ("list", "tuple", "objarr", "pipeline"):
        return spec["c"]
    if spec["t"] in ("dict", "obj"):
        return [c for _, c in spec["c"]]
    return []


def positions(spec, path=()):
    yield list(path)
    for i, c in enumerate(children(spec)):
        yield from positions(c, path + (i,))


def depth_of(spec):
    return 1 + max([depth_of(c) for c in children(spec)], default=0)


def make_cases(R):
    rnd = random.Random(R.seed)
    nstruct = 24 if R.tier == "thorough" else 7
    fixed = [{"t": "list", "c": [{"t": "int", "v": 1},
                                 {"t": "dict", "c": [["a", {"t": "tuple", "c": [{"t": "array", "n": 3, "dtype": "float64"}, {"t": "str", "v": "s"}]}],
                                                     ["b", {"t": "obj", "c": [["attr", {"t": "list", "c": [{"t": "none"}]}]]}]]},
                                 {"t": "pipeline", "c": [{"t": "est", "C": 0.5}]}]}]
    specs = fixed + [gen_spec(rnd, 3) for _ in range(nstruct - 1)]
    cases, k = [], rnd.randrange(len(BAD))
    for si, spec in enumerate(specs):
        for sink in SINKS:
            cases.append({"spec": spec, "hole": None, "bad": None, "sink": sink, "struct": si, "as_str": rnd.random() < 0.5})
        for pos in positions(spec):
            kinds = BAD if R.tier == "thorough" else [BAD[(k + j) % len(BAD)] for j in range(2)]
            k += 2
            for bad in kinds:
                for sink in SINKS:
                    cases.append({"spec": spec, "hole": pos, "bad": bad, "sink": sink, "struct": si, "as_str": rnd.random() < 0.5})
            if si == 0:
                # the fixed structure sees EVERY bad kind at every position (one rotating sink each), whatever the tier
                for j, bad in enumerate(b for b in BAD if b not in kinds):
                    cases.append({"spec": spec, "hole": pos, "bad": bad, "sink": SINKS[(k + j) % len(SINKS)], "struct": si, "as_str": j % 2 == 0})
    return cases


def implementation_text(res):
    out = "raise" if res["exc"] else "ok"
    return f"{out} ## {K.trace_text(res['timeline'], res['final']['text'])} ## {res['final']['text']} ## tell={res['tell_canon']}"


def coq_case(case, res):
    saved = "(Ok [9; 9; 9; 9])" if res["saved"] == "ok" else "(Raise EOther)"
    sink = ("SinkFile " if case["sink"].startswith("fileobj") else "SinkPath ") + K.cpath(TARGET)
    return f"(({K.cfs(res['initial'])}, {saved}, {sink}), {C.cstr(implementation_text(res))})"


PRELUDE = """From Skv Require Import PyStr Json Fs Dump Corr.
Open Scope N_scope.
Definition run (c : fs * res bytes * sink) : pstr :=
  let '(st, saved, k) := c in show_dump (mkenv None) st saved k.
"""


def oracle(case, res):
    bad = []
    sig0 = {"sink": case["sink"], "bad": case["bad"]}
    if res.get("hook_errors"):
        bad.append(({**sig0, "kind": "harness"}, "audit hook raised: " + "; ".join(res["hook_errors"][:3])))
    ini, fin = res["initial"], res["final"]
    if res["saved"] == "raise":
        if not res["exc"]:
            bad.append(({**sig0, "kind": "dump-does-not-raise"}, "dumps(obj) raises but dump(obj, destination) returned normally"))
        if res["timeline"]:
            bad.append(({**sig0, "kind": "destination-touched"},
                        f"file operations during the failed dump: {[e['ev'] for e in res['timeline']]}"))
        if fin["text"] != ini["text"]:
            bad.append(({**sig0, "kind": "destination-changed"},
                        f"destination before the failed dump: {ini['text']}; after: {fin['text']}"))
        if res["tell_before"] != res["tell_after"]:
            bad.append(({**sig0, "kind": "position-moved"}, f"file object position {res['tell_before']} -> {res['tell_after']}"))
    else:
        if case["hole"] is not None and res.get("roundtrip") != "equal":
            bad.append(({**sig0, "kind": "dumps-returned-incomplete"},
                        f"dumps returned bytes for an object holding a '{case['bad']}' element, but they do not load back to it: {res.get('roundtrip')}"))
        if res["exc"]:
            bad.append(({**sig0, "kind": "dump-raises-after-dumps-ok", "exc": res["exc"][0]}, f"dump raises {res['exc']} although dumps succeeds"))
        want = dict(ini["files"])
        old = want.get(TARGET) if case["sink"] == "fileobj_existing" else []
        want[TARGET] = (old or []) + K.NEW_TOKEN if case["sink"] == "fileobj_existing" else K.NEW_TOKEN
        if not res["exc"] and case["sink"] != "fileobj_existing" and fin["files"] != want:
            bad.append(({**sig0, "kind": "success-state"}, f"after a successful dump: {fin['text']}"))
    return bad


def run(R, only=None):
    R.trusted_base += [
        "Coq 8.16.1 kernel + vm_compute (no native_compute)",
        "harness/impl_cli.py: audit-hook observation restricted to the case's scratch root, content tokens",
        "harness/props/c18.py: structure generator, position enumeration, property oracle",
        "oracle handed to the model: whether skops.io.dumps(obj) raises (measured on a fresh copy of the same object)",
    ]
    R.assumptions += [
        "C18_position: the recursive shape of get_state on containers (children left to right, first exception propagates) with "
        "leaf serialisers as oracle; C18_position_oracle: strictness of the codec part's `dumps` is the visible premise",
        "a file-object sink is positioned at its end (opened 'wb' on a new file or 'ab' on an existing one)",
    ]
    # the translated source (harness/callgraph.py): dump() split at _save
    from props import c02 as C02
    cg = C02.callgraph(R)
    if cg is not None:
        R.notes["callgraph_dump"] = {k: cg[k] for k in ("dump_entries", "dump_reachable", "dump_effects_reachable")}
    ok = R.prove("C18")
    cases = only if only is not None else make_cases(R)
    batches = [cases[i:i + 40] for i in range(0, len(cases), 40)]
    scr = K.Scratch("C18")
    try:
        outs = K.pmap(lambda b: K.run_case(scr, "dump", None, cases=b, timeout=600), batches)
    finally:
        scr.close()
    done = []
    for b, o in zip(batches, outs):
        if o["rc"] != 0 or o["res"] is None:
            R.obligation_broken("correspondence C18/runner", f"batch of {len(b)}: rc={o['rc']} {o['stderr'][-600:]}")
            continue
        for case, res in zip(b, o["res"]):
            if "harness_error" in res:
                R.obligation_broken("correspondence C18/runner", f"{case}: {res['harness_error']}")
            else:
                done.append((case, res))
    rows = [coq_case(c, r) for c, r in done]
    try:
        bad = K.model_mismatches(R, "Cases_C18", PRELUDE, "fs * res bytes * sink", rows, shard=150)
    except C.CoqError as e:
        bad = []
        R.obligation_broken("correspondence C18/model evaluation", e.out[-1500:])
    not_raising = {}
    for case, res in done:
        R.case([case["spec"], case["hole"], case["bad"], case["sink"], implementation_text(res)], nontrivial=case["hole"] is not None)
        R.count("sink:" + case["sink"])
        R.count("outcome:" + ("raise" if res["exc"] else "ok"))
        if case["hole"] is not None:
            R.count("bad:" + case["bad"])
            R.count("hole-depth:" + str(len(case["hole"])))
            R.count("exception:" + (res["exc"][0] if res["exc"] else "none"))
            if res["saved"] == "ok":
                not_raising[case["bad"]] = not_raising.get(case["bad"], 0) + 1
    R.notes["substituted_positions_that_did_not_raise"] = not_raising
    picks = [x for x in done if x[0]["hole"] and len(x[0]["hole"]) >= 2 and x[0]["sink"] == "existing"][:1] \
        + [x for x in done if x[0]["hole"] is None and x[0]["sink"] == "fileobj_existing"][:1] \
        + [x for x in done if x[0]["hole"] == [] and x[0]["sink"] == "fileobj_new"][:1]
    for case, res in picks:
        R.sample({"structure": case["spec"], "hole": case["hole"], "bad": case["bad"], "sink": case["sink"],
                  "exception": res["exc"], "implementation": implementation_text(res), "model": "equal"})
    R.disagreements = len(bad)
    for idx, model in bad[:40]:
        case, res = done[idx]
        R.obligation_broken("correspondence C18/dump_ops",
                            f"hole={case['hole']} bad={case['bad']} sink={case['sink']}: " + K.diff_detail(implementation_text(res), model))
    for case, res in done:
        for sig, what in oracle(case, res):
            R.violation(sig, f"dump(<structure {case['struct']} with '{case['bad']}' at {case['hole']}>, {case['sink']}): {what}",
                        {"mode": "dump", "case": case})
    R.notes["rule"] = ("generated structures (depth <= 4; list/tuple/dict/object attributes/object array/Pipeline) x EVERY node position "
                       "x rotating unsupported-element kinds x 4 sinks, plus the unsubstituted structure x 4 sinks; "
                       "non-trivial = a substituted case")
    R.notes["structures"] = len({c["struct"] for c, _ in done})
    R.notes["max_depth"] = max([len(c["hole"]) for c, _ in done if c["hole"] is not None], default=0)
    R.notes["not_modelled"] = ["file objects positioned elsewhere than at their end", "compression options"]
    if (not ok) or bad or R.broken:
        R.notes["search"] = "property oracle on every (structure, position, element, sink): no event on the destination, bytes/existence/tell() unchanged"


def replay(R, rep):
    r = rep.get("replay") or {}
    if r.get("mode") != "dump":
        return run(R)
    scr = K.Scratch("C18")
    try:
        o = K.run_case(scr, "dump", None, cases=[r["case"]])
    finally:
        scr.close()
    if o["rc"] != 0 or not o["res"]:
        R.obligation_broken("replay", o["stderr"][-800:])
        return
    res = o["res"][0]
    print(json.dumps({"implementation": implementation_text(res), "exception": res["exc"]}, indent=1))
    for sig, what in oracle(r["case"], res):
        R.violation(sig, what, r)
