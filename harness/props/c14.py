"""C14 -- card content builders put the right content under the right heading.
Theorems: coq/props/C14.v over coq/card/{Ops,Render}.v.  Correspondence: add_table (dict and DataFrame, ragged, empty,
None/float/multi-line/unicode cells), add_plot, add_metrics sequences, add_hyperparams with a stub model on nested and
escaped target paths; plus: every multi-item call is re-run one item at a time and both cards must be identical."""
import json

import cardgen as G
import common as C

WEIGHTS = {"table": 26, "plot": 20, "metrics": 24, "hyper": 8, "add": 10, "delete": 5, "vis": 3, "fold": 4}
MODE = {"render": True, "nodes": True, "format": True, "metrics": True}

CORPUS = [
    # D16 / D17 (repaired): nested table heading, second plot's alt text
    [["table", None, False, [["X/Y", {"cols": [["a", [1, "p\nq"]], ["b", [None, 2.5]]], "df": False}]]],
     ["plot", None, None, False, [["P1", "p1.png"], ["Q/P2", "p2.png"]]],
     ["metrics", "M/E", None, [["acc", 0.5], ["f1", "x"]]], ["metrics", "M/E", "d", [["acc", 0.75], ["auc", 1]]],
     ["hyper", "H \\/ P/params", None, [["C", 1.0], ["tol", None]]]],
]


def split_batches(seq):
    """the same history with every multi-item builder call replaced by one call per item"""
    out = []
    for op in seq:
        k = op[0]
        if k == "add" and len(op[2]) > 1:
            out += [["add", op[1], [kv]] for kv in op[2]]
        elif k == "plot" and len(op[4]) > 1:
            out += [["plot", op[1], op[2], op[3], [kv]] for kv in op[4]]
        elif k == "table" and len(op[3]) > 1:
            out += [["table", op[1], op[2], [kv]] for kv in op[3]]
        elif k == "metrics" and len(op[3]) > 1:
            out += [["metrics", op[1], op[2], [kv]] for kv in op[3]]
        else:
            out.append(op)
    return out


def batch_check(R, seqs, results):
    """C14 'several items passed in one call give the same card as passing them one at a time', on the implementation.
    Only sequences whose every call succeeds are comparable (a failing item stops a batch call half way)."""
    good = [(s, r) for s, r in zip(seqs, results) if all(c in ("ok", "sel") for c in r["classes"])
            and any(len(x) != 1 for o in s for x in [o[{"add": 2, "plot": 4, "table": 3, "metrics": 3}.get(o[0], 0)]] if o[0] in ("add", "plot", "table", "metrics"))]
    good = good[:150 if R.tier == "quick" else 1500]
    if not good:
        return
    one = [split_batches(s) for s, _ in good]
    p = C.run_impl("impl_card.py", input_obj={"what": "trace", "mode": MODE, "build": str(R.gen), "cases": one}, timeout=900)
    if p.returncode != 0:
        R.obligation_broken("C14 batch check", p.stderr.decode(errors="replace")[-1500:])
        return
    n = 0
    for (s, r), s1, r1 in zip(good, one, json.loads(p.stdout)):
        a, b = G.steps(r["expected"])[-1], G.steps(r1["expected"])[-1]
        cut = lambda st: st[st.index(G.U + 1):] if (G.U + 1) in st else st        # drop the outcome, keep the state
        n += 1
        if cut(a) != cut(b):
            R.violation({"kind": "batch", "op": "multi-item"}, "one call with several items and one call per item give different cards",
                        {"ops": s, "one_by_one": s1, "batch_state": G.readable(cut(a))[:1500], "one_by_one_state": G.readable(cut(b))[:1500]})
    R.notes["batch_pairs_compared"] = n
    R.count("batch-pair", n)


def dict_vs_dataframe(R):
    """typed numpy columns: dict of arrays / dict of lists / DataFrame must give the same table (implementation only)"""
    n = 60 if R.tier == "quick" else 600
    p = C.run_impl("impl_card.py", input_obj={"what": "dfcheck", "seed": R.seed, "n": n}, timeout=600)
    if p.returncode != 0:
        R.obligation_broken("C14 dict-vs-DataFrame check", p.stderr.decode(errors="replace")[-1500:])
        return
    for rec in json.loads(p.stdout):
        R.case({"dfcheck": rec.get("cols"), "rows": rec.get("rows")}, nontrivial="error" not in rec)
        R.count("dfcheck:" + ("error" if "error" in rec else "same" if rec["same"] else "differs"))
        if "error" in rec:
            continue
        if not rec["same"]:
            for col in rec.get("bad_cols") or ["?"]:
                R.violation({"kind": "dict-vs-dataframe", "dtype": col},
                            f"a {col} column renders differently when the table is a DataFrame than when it is a dict of the same values",
                            {"dfcheck": rec})
        if not rec["cells_are_texts"]:
            R.violation({"kind": "cell-not-value-text", "cols": rec["cols"]}, "a rendered cell is not the text of its value", {"dfcheck": rec})


def run(R):
    R.assumptions += ["get_params(deep=True) is supplied by a stub model (its result is an input of the model)",
                      "DataFrame tables are abstracted to (column names, str() of the cells as iterated); pandas is used when importable",
                      "cards are built from Card(model, template=None) through the public API"]
    R.notes["rule"] = ("seeded random builder histories (tables: 0-3 columns, 0-3 rows, ragged, cells None/int/float/inf/bool/multi-line/unicode/'|', "
                       "dict or DataFrame; plots with/without alt text and description, empty path; metric updates; hyperparameters) on nested, "
                       "escaped and blank-padded paths; render(), every node incl. format() and the metrics dict compared after every operation; "
                       "plus batch-vs-one-by-one comparison on the implementation")
    R.notes["guards"] = ["C14_batch_*: stated for calls in which every item is accepted (a rejected item stops the call: C14_batch_stops)"]
    R.notes["not_modelled"] = ["PrettyTable's column layout (oracle `pretty`; its inputs are compared exactly)", "sklearn get_params (oracle)",
                               "add_model_plot (needs sklearn's HTML repr), add_permutation_importances, add_fairlearn_metric_frame"]
    G.run_property(R, "C14", WEIGHTS, MODE, 10, 400, 4000, extra_check=batch_check, corpus=CORPUS)
    dict_vs_dataframe(R)


def replay(R, rep):
    G.replay_property(R, rep, "C14")
