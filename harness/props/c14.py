"""C14 -- card content builders put the right content under the right heading.
Theorems: coq/props/C14.v over coq/card/{Ops,Render}.v.  Correspondence: add_table (dict and DataFrame, ragged, empty,
None/float/multi-line/unicode cells), add_plot, add_metrics sequences, add_hyperparams with a stub model, add_model_plot with
estimator_html_repr controlled from outside the source (generated HTML texts; real sklearn estimators with the text captured from the
implementation's single call) on nested and escaped target paths; plus: every multi-item call is re-run one item at a time and both
cards must be identical; plus: the set of code points `re` matches with \\s = the model's is_space."""
import json
import re

import cardgen as G
import common as C

WEIGHTS = {"table": 26, "plot": 20, "metrics": 24, "hyper": 8, "modelplot": 14, "add": 10, "delete": 5, "vis": 3, "fold": 4}
MODE = {"render": True, "nodes": True, "format": True, "metrics": True}
INIT = {"none": 36, "skops": 34, "custom": 24, "nosuch": 3, "clash": 3}

CORPUS = [
    # D16 / D17 (repaired): nested table heading, second plot's alt text
    [["table", None, False, [["X/Y", {"cols": [["a", [1, "p\nq"]], ["b", [None, 2.5]]], "df": False}]]],
     ["plot", None, None, False, [["P1", "p1.png"], ["Q/P2", "p2.png"]]],
     ["metrics", "M/E", None, [["acc", 0.5], ["f1", "x"]]], ["metrics", "M/E", "d", [["acc", 0.75], ["auc", 1]]],
     ["hyper", "H \\/ P/params", None, [["C", 1.0], ["tol", None]]]],
    # add_model_plot: default section of the skops template, an existing section with a subsection (kept), "" / None / text
    # descriptions, class name once / twice / never / only after the indentation is removed, LF at the very end, CR LF
    [["add", False, [["Model description/Training Procedure/Model Plot/Note", "n"]]],
     ["modelplot", "Model description/Training Procedure/Model Plot", "The model",
      '<div class="sk-top-container">\n   <p>\n\t\xa0x </p>\n\n</div>\n'],
     ["modelplot", " Model description / Training Procedure/Model Plot ", "", '.sk-top-container {}\n <div class="sk-top-container">'],
     ["modelplot", "A\\/B/ C", None, 'sk-top-\n  container\r\n\x1f\u2003x\n\u200b \n'],
     ["modelplot", "", "d", ""], ["modelplot", "A\\/B", " ", "\n"], ["select", "A\\/B/C"]],
    # Card(model) with all defaults: the builders with their default sections replace template placeholders in place
    [["init", "skops", "auto", [["C", 1.0], ["clf__alpha", None], ["é", "a\nb"]], '<div class="sk-top-container">\n  <p>\n x</p>\n</div>\n'],
     ["metrics", "Model description/Evaluation Results", None, [["acc", 0.5], ["f1", "x"]]],
     ["hyper", "Model description/Training Procedure/Hyperparameters", "params", [["C", 2.0]]],
     ["modelplot", "Model description/Training Procedure/Model Plot", "The model", "<p>"],
     ["table", None, False, [["Model description/Evaluation Results/Confusion", {"cols": [["a", [1, 2]]], "df": False}]]],
     ["metrics", "Model description/Evaluation Results", "scores", [["acc", 0.75]]]],
    # the skops template with model_diagram False / True / a section inside / outside the template / the empty section name
    [["init", "skops", False, [], "<p>"], ["select", "Model description/Training Procedure/Model Plot"]],
    [["init", "skops", True, [["tol", 100]], "sk-top-container\n sk-top-container"]],
    [["init", "skops", "Model description/Training Procedure/Hyperparameters", [["C", 1]], "<p>"]],
    [["init", "skops", " Diagrams / the\\/model ", [], "\n <p>"], ["select", "Diagrams/the\\/model"]],
    [["init", "skops", "", [], "<p>"]],
    # custom templates: empty dict, nested / escaped / colliding keys, diagram True (default path created), "auto" (none)
    [["init", {"map": []}, True, [["C", 1]], "<p>"], ["hyper", "H", None, [["C", 1]]]],
    [["init", {"map": [["A/B", "b"], [" A", "a"], ["A ", "again"], ["x\\/y/ z", ""]]}, "auto", [], "<p>"], ["select", "A"]],
    [["init", {"map": [["Model description/Training Procedure/Model Plot", "mine"]]}, True, [], "<p>"]],
    # the two exceptions
    [["init", "", False, [], ""]], [["init", "Skops", "auto", [], ""]],
    [["init", {"map": [["self", "x"]]}, True, [], "<p>"]], [["init", {"map": [["A", "a"], ["folded", "x"], ["B", "b"]]}, "B", [], "<p>"]],
]

# real estimators through the unpatched sklearn function; the HTML text fed to the model is the one the implementation received
REAL = [
    [["realplot", "Model description/Training Procedure/Model Plot", None, "logreg"]],
    [["add", False, [["A/B/C", "x"]]], ["realplot", "A/B", "The pipeline", "pipeline"], ["select", "A/B"]],
    [["realplot", "P", "", "columntransformer"], ["realplot", " P ", "again", "pipeline-ct"]],
    # Card(LogisticRegression()) / Card(Pipeline(...)) with every default: real get_params(deep=True) and real diagram
    [["init", "skops", "auto", [], "", "logreg"], ["select", "Model description/Training Procedure/Hyperparameters"]],
    [["init", "skops", True, [], "", "pipeline"]],
]
REAL = [G.norm(s) for s in REAL]
REAL_MODE = {"nodes": True, "render": True}


def split_batches(seq):
    """the same history with every multi-item builder call replaced by one call per item"""
    out = []
    for op in seq:
        k = op[0]
        if k == "add" and len(op[2]) > 1:
            out += [["add", op[1], [kv]] for kv in op[2]]
        elif k == "plot" and len(op[4]) > 1:
            out += [["plot", op[1], op[2], op[3], [kv]] for kv in op[4]]
        elif k == "table" and len(op[3]) > 1:
            out += [["table", op[1], op[2], [kv]] for kv in op[3]]
        elif k == "metrics" and len(op[3]) > 1:
            out += [["metrics", op[1], op[2], [kv]] for kv in op[3]]
        else:
            out.append(op)
    return out


def batch_check(R, seqs, results):
    """C14 'several items passed in one call give the same card as passing them one at a time', on the implementation.
    Only sequences whose every call succeeds are comparable (a failing item stops a batch call half way)."""
    good = [(s, r) for s, r in zip(seqs, results) if all(c in ("ok", "sel") for c in r["classes"])
            and any(len(x) != 1 for o in s for x in [o[{"add": 2, "plot": 4, "table": 3, "metrics": 3}.get(o[0], 0)]] if o[0] in ("add", "plot", "table", "metrics"))]
    good = good[:150 if R.tier == "quick" else 1500]
    if not good:
        return
    one = [split_batches(s) for s, _ in good]
    p = C.run_impl("impl_card.py", input_obj={"what": "trace", "mode": MODE, "build": str(R.gen), "cases": one}, timeout=900)
    if p.returncode != 0:
        R.obligation_broken("C14 batch check", p.stderr.decode(errors="replace")[-1500:])
        return
    n = 0
    for (s, r), s1, r1 in zip(good, one, json.loads(p.stdout)):
        a, b = G.steps(r["expected"])[-1], G.steps(r1["expected"])[-1]
        cut = lambda st: st[st.index(G.U + 1):] if (G.U + 1) in st else st        # drop the outcome, keep the state
        n += 1
        if cut(a) != cut(b):
            R.violation({"kind": "batch", "op": "multi-item"}, "one call with several items and one call per item give different cards",
                        {"ops": s, "one_by_one": s1, "batch_state": G.readable(cut(a))[:1500], "one_by_one_state": G.readable(cut(b))[:1500]})
    R.notes["batch_pairs_compared"] = n
    R.count("batch-pair", n)


def dict_vs_dataframe(R):
    """typed numpy columns: dict of arrays / dict of lists / DataFrame must give the same table (implementation only)"""
    n = 60 if R.tier == "quick" else 600
    p = C.run_impl("impl_card.py", input_obj={"what": "dfcheck", "seed": R.seed, "n": n}, timeout=600)
    if p.returncode != 0:
        R.obligation_broken("C14 dict-vs-DataFrame check", p.stderr.decode(errors="replace")[-1500:])
        return
    for rec in json.loads(p.stdout):
        R.case({"dfcheck": rec.get("cols"), "rows": rec.get("rows")}, nontrivial="error" not in rec)
        R.count("dfcheck:" + ("error" if "error" in rec else "same" if rec["same"] else "differs"))
        if "error" in rec:
            continue
        if not rec["same"]:
            for col in rec.get("bad_cols") or ["?"]:
                R.violation({"kind": "dict-vs-dataframe", "dtype": col},
                            f"a {col} column renders differently when the table is a DataFrame than when it is a dict of the same values",
                            {"dfcheck": rec})
        if not rec["cells_are_texts"]:
            R.violation({"kind": "cell-not-value-text", "cols": rec["cols"]}, "a rendered cell is not the text of its value", {"dfcheck": rec})


def real_model_plots(R):
    """LogisticRegression / Pipeline / ColumnTransformer diagrams produced by the real estimator_html_repr (called once, by the
    implementation; the wrapper only records what it returned)"""
    results, bad = G.correspond(R, "C14real", [list(s) for s in REAL], REAL_MODE, shards=len(REAL), clip=400)
    if results is None:
        return
    for sq, r in zip(REAL, results):
        R.case(r["classes"] + [o[:3] for o in sq], nontrivial=all(c in ("ok", "sel") for c in r["classes"]))
        for o, mo, cls in zip(sq, r["ops"], r["classes"]):
            R.count(f"{o[0]}:{cls}")
            if o[0] == "realplot" or (o[0] == "init" and o[5]):
                html = mo[3] if o[0] == "realplot" else mo[4]
                if o[0] == "init":
                    R.notes.setdefault("real_init", []).append({"estimator": o[5], "get_params": len(mo[3]), "outcome": cls})
                R.count(f"real-html sk-top-container x{html.count('sk-top-container')}")
                R.notes.setdefault("real_html", []).append(
                    {"estimator": o[3] if o[0] == "realplot" else o[5], "chars": len(html), "indentation_runs": len(re.findall(r"\n\s+", html)),
                     "class_name_occurrences": html.count("sk-top-container")})
                if not html:
                    R.obligation_broken("C14 real estimators", f"estimator_html_repr was not called for {o}")
    for i, step, a, b in bad[:4]:
        R.obligation_broken("correspondence C14/real estimators",
                            f"sequence {i}, step {step}, op {REAL[i][step][:3] if 0 <= step < len(REAL[i]) else None}\n implementation: {a[:800]}\n model         : {b[:800]}")
    if bad:
        G.oracle_search(R, [list(REAL[i]) for i in sorted({b[0] for b in bad})], "C14 real estimators")


def whitespace_set(R):
    """Python's \\s for str patterns must be the model's is_space (coq/base/PyStr.v), over ALL code points"""
    p = C.run_impl("impl_card.py", input_obj={"what": "whitespace"}, timeout=600)
    if p.returncode != 0:
        R.obligation_broken("C14 whitespace set", p.stderr.decode(errors="replace")[-1500:])
        return
    ws = json.loads(p.stdout)
    body = "\n".join(["From Skv Require Import PyStr ModelPlot.", "Open Scope N_scope.",
                      "Definition impl : list N := " + C.clist((str(c) for c in ws["re_sub"]), "N") + ".",
                      "Eval vm_compute in (if list_eq_dec N.eq_dec (spaces_below 1114112) impl then 1 else 0)."])
    try:
        out = R.model_eval("C14_whitespace", body, timeout=600)
    except C.CoqError as e:
        R.obligation_broken("C14 whitespace set", e.out[-800:])
        return
    same = bool(re.search(r"=\s*1\b", out))
    R.case({"whitespace_code_points": len(ws["re_sub"])}, nontrivial=True)
    R.notes["whitespace_set"] = {"re_sub": len(ws["re_sub"]), "re_class==re_sub": ws["re_class"] == ws["re_sub"],
                                 "isspace==re_sub": ws["isspace"] == ws["re_sub"], "model==re_sub": same}
    if not same or ws["re_class"] != ws["re_sub"]:
        R.obligation_broken("C14 whitespace set", f"the code points removed after a line feed by re.sub(r'\\n\\s+') are {ws['re_sub']}; "
                                                  "the model's is_space differs")
        G.oracle_search(R, [[["modelplot", "W", None, "a\n" + chr(c) + "b"]] for c in sorted(set(ws["re_sub"]) ^ set(ws["isspace"]))[:50]]
                        + [[["modelplot", "W", None, "".join("a\n" + chr(c) for c in ws["re_sub"])]]], "C14 whitespace set")


def run(R):
    R.assumptions += ["get_params(deep=True) is supplied by a stub model (its result is an input of the model)",
                      "DataFrame tables are abstracted to (column names, str() of the cells as iterated); pandas is used when importable",
                      "cards are built by Card(model, template=None | str | dict of str -> str, model_diagram=bool | str) with a model object "
                      "(not a path) and then the public API",
                      "str(estimator_html_repr(model)) is an input of the model (OAddModelPlot's html): generated text returned by a wrapper bound to "
                      "skops.card._model_card.estimator_html_repr in the runner process, or the text returned by the real sklearn function"]
    R.notes["rule"] = ("seeded random builder histories (tables: 0-3 columns, 0-3 rows, ragged, cells None/int/float/inf/bool/multi-line/unicode/'|', "
                       "dict or DataFrame; plots with/without alt text and description, empty path; metric updates; hyperparameters; model plots over HTML texts "
                       "with line feeds followed by all kinds of whitespace and look-alikes, CR LF, final LF, 0/1/2/split/doubled class names, non-BMP) on nested, "
                       "escaped and blank-padded paths, starting from constructed cards (no template / the skops template / custom dicts / failing "
                       "constructors; model_diagram False / True / 'auto' / section names); render(), every node incl. format() and the metrics "
                       "dict compared after the constructor and after every operation; "
                       "plus batch-vs-one-by-one comparison on the implementation; real LogisticRegression/Pipeline/ColumnTransformer diagrams; "
                       "the \\s code point set of `re` against is_space over all code points")
    R.notes["guards"] = ["C14_batch_*: stated for calls in which every item is accepted (a rejected item stops the call: C14_batch_stops)"]
    R.notes["not_modelled"] = ["PrettyTable's column layout (oracle `pretty`; its inputs are compared exactly)", "sklearn get_params (oracle)",
                               "sklearn's estimator_html_repr (oracle: add_model_plot's processing of its text is modelled)",
                               "add_permutation_importances, add_fairlearn_metric_frame"]
    G.run_property(R, "C14", WEIGHTS, MODE, 10, 400, 4000, extra_check=batch_check, corpus=CORPUS, init_weights=INIT)
    real_model_plots(R)
    whitespace_set(R)
    dict_vs_dataframe(R)


def replay(R, rep):
    G.replay_property(R, rep, "C14")
