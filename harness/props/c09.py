"""C09 -- the model card is an ordered section tree with stable addressing.
Theorems: coq/props/C09.v over coq/card/{Path,Tree,Ops}.v.  Correspondence: random operation sequences on a
real Card vs the model, compared after EVERY operation (outcome class, get_toc(), render(), every live node and
select(<its path string>)).  A sequence starts from a CONSTRUCTED card: Card(model, template=None | "skops" | unknown name |
custom dict, model_diagram=False | True | "auto" | section) -- step 0 of every case, model side coq/card/Init.v init_card."""
import cardgen as G

WEIGHTS = {"add": 30, "select": 10, "chain": 8, "delete": 12, "dellist": 6, "plot": 6, "table": 6, "metrics": 6,
           "hyper": 2, "modelplot": 3, "vis": 4, "fold": 4, "title": 5}
MODE = {"toc": True, "render": True, "nodes": True, "addr": True}
# how the card of a sequence is constructed (share of sequences)
INIT = {"none": 45, "skops": 22, "custom": 28, "nosuch": 3, "clash": 2}

# witnesses of the repaired finding C09-F1 (Card.select / Card.delete accepted an empty name in the middle of a path): replayed
# against the implementation with the reference oracle on every run (any empty name -> KeyError, nothing changes); they also run
# first in the model correspondence (CORPUS)
PROBES = [[["add", False, [["a//b", "x"]]], ["select", "a//b"]],
          [["add", False, [["a//b", "x"]]], ["chain", ["a", "/b"]], ["delete", "a//b"], ["dellist", ["a", "", "b"]],
           ["vis", ["a//b"], False], ["select", "a/ /b"], ["delete", "a"]]]

# hand-written sequences that run first: the witnesses of the repaired defect D13 and classic interactions
CORPUS = [
    [["add", False, [["a\\/", "1"], ["x/ \\/ /y", "2"], ["u\x1fv", "3"]]], ["select", "a\\/"], ["select", "x/\\//y"],
     ["select", "u\x1fv"], ["delete", "x/ \\/ "], ["select", "x"]],
    [["add", False, [["A", "1"], ["A/B", "2"], ["C", "3"]]], ["add", True, [["A", "4"]]], ["delete", "A/B"], ["add", False, [["A/B/D", "5"]]],
     ["dellist", ["A", " B"]], ["dellist", ["A", "B"]], ["chain", ["A", "B"]], ["select", ""], ["delete", "A/"], ["dellist", []]],
    # constructed cards: Card(model) with all defaults, then addressing into / overwriting / deleting template sections
    [["init", "skops", "auto", [["C", 1.0], ["clf__alpha", None]], '<div class="sk-top-container">\n  <p>x</p>\n</div>'],
     ["select", "Model description/Training Procedure/Hyperparameters"], ["chain", ["Model description", "Training Procedure/Model Plot"]],
     ["add", False, [["Model description", "about"], ["Model description/Training Procedure/Extra", "e"]]],
     ["delete", "Model description/Training Procedure"], ["select", "Model description/Training Procedure/Model Plot"],
     ["select", "Citation"], ["dellist", ["Model description", "Evaluation Results"]]],
    # a custom template with nested, escaped and blank-padded keys; the diagram in a section of the template
    [["init", {"map": [["A/B", "b"], ["x\\/y", "z"], [" A ", "a"], ["A/B/ C", ""]]}, "A/B", [], "<p>\n  </p>"],
     ["select", "A/B"], ["select", "x\\/y"], ["chain", ["A", "B", "C"]], ["delete", "A/B"], ["select", "A"]],
    # model_diagram=True without a template: the default path is created; unknown template name; a key named like a parameter
    [["init", None, True, [], "<p>"], ["select", "Model description/Training Procedure/Model Plot"], ["select", "Model description"]],
    [["init", "nosuch", True, [], "<p>"], ["add", False, [["A", "a"]]]],
    [["init", {"map": [["A", "a"], ["folded", "x"]]}, False, [], ""], ["select", "A"]],
] + PROBES


def run(R):
    R.assumptions += ["every card is built by Card(model, template=None | str | dict of str -> str, model_diagram=bool | str) with a model "
                      "object (not a path) and then the public API; Section objects are only "
                      "touched through select(...).visible/.folded assignments (no aliasing of Section objects by the caller)",
                      "keyword names that collide with parameter names (folded, description, alt_text, section, self) cannot be "
                      "section titles in **kwargs calls and are not generated"]
    R.notes["rule"] = ("seeded random operation sequences (add plain/folded/multi-key, add_plot, add_table, add_metrics, add_hyperparams, "
                       "select, chained select, delete str/list, visible/folded assignment) over titles from an alphabet with '/', '\\\\/', "
                       "'\\\\', blanks (space, tab, U+001C, U+001F, U+0085, U+00A0, U+2003, U+3000), non-BMP code points, duplicates of existing "
                       "titles; after every operation the whole observation is compared; non-trivial = at least one operation succeeded")
    R.notes["guards"] = ["C09_chain: p not ending in a backslash (path syntax: it would escape the joining slash; C09_chain_backslash_example); "
                         "no guard on the names is left (C09-F1 repaired: C09_select_empty_middle_fixed on the card {a:{'':{b}}})",
                         "add theorems: the new section has no subsections (true of every section the API constructs)"]
    R.notes["not_modelled"] = ["Section values passed to _add_single that already carry subsections (ValueError branch): not reachable through the modelled API",
                               "pathlib.Path plot paths (str paths only)", "copy_files=True file copying"]
    G.run_property(R, "C09", WEIGHTS, MODE, 12, 400, 4000, probes=PROBES, corpus=CORPUS, init_weights=INIT)


def replay(R, rep):
    G.replay_property(R, rep, "C09")
