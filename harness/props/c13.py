"""C13 -- visualize is total on dumped archives and agrees with the audit."""
import json
import random
import re

import common as C
import gen_archives as G
import gen_values as GV
import io_common as IO

ROW = re.compile(r"^(\d+)\|(.*)\|(.*)\|([01])([01])([01])$", re.S)


def parse_rows(text):
    rows = []
    for line in text.split("\n"):
        m = ROW.match(line)
        if not m:
            return None     # a key/val containing a newline or a bar: skip the row-level oracle for this case
        rows.append({"level": int(m.group(1)), "key": m.group(2), "val": m.group(3), "self": m.group(4) == "1",
                     "safe": m.group(5) == "1", "last": m.group(6) == "1"})
    return rows


def site_of(case, val):
    """the loader kind whose header name is displayed as `val` but may not be what its audit looks at (SliceNode did so until
    the D31-SliceNode repair; the signature keeps the site so that a regression is reported under its own name)"""
    proto = case["schema"].get("protocol")
    for _, v in G.all_paths(case["schema"]):
        if isinstance(v, dict) and f"{v.get('__module__')}.{v.get('__class__')}" == val:
            if v.get("__loader__") == "SliceNode":
                return "SliceNode"
            if v.get("__loader__") == "FunctionNode" and proto == 0:
                return "FunctionNode@0"
    return None


def oracle(case, rec):
    """The property's statement on the implementation's own output."""
    out = []
    if rec["rows"].startswith("ok:"):
        rows = parse_rows(rec["rows"][3:])
        if rows:
            if rows[0]["level"] != 0:
                out.append(("root-level", "first row is not at level 0"))
            for a, b in zip(rows, rows[1:]):
                if b["level"] > a["level"] + 1:
                    out.append(("level-jump", f"row {b['key']} at level {b['level']} follows level {a['level']}"))
            for i, r in enumerate(rows):
                if r["safe"] and not r["self"]:
                    out.append(("safe-but-self-unsafe", f"row {r['key']}: {r['val']} marked fully safe although its own type is untrusted", site_of(case, r["val"])))
                if r["safe"]:
                    for d in rows[i + 1:]:
                        if d["level"] <= r["level"]:
                            break
                        if not d["self"] or not d["safe"]:
                            out.append(("safe-above-unsafe", f"row {r['key']}: {r['val']} marked fully safe above untrusted {d['val']}", site_of(case, d["val"])))
                            break
            # root fully safe  <=>  load with the same trusted list is not refused
            if rec["gut"].startswith("ok:") and not rec["load"].startswith(("err:TypeError", "err:KeyError", "err:ValueError", "err:AttributeError")):
                refused = rec["load"].startswith("err:Untrusted")
                if rows[0]["safe"] == refused:
                    out.append(("root-verdict", f"root row safe={rows[0]['safe']} but load with trusted={rec['T']} gives {rec['load'][:80]}"))
    if rec["rows"].startswith("ok:"):
        rows = parse_rows(rec["rows"][3:])
        preorder = bool(rows) and all(b["level"] <= a["level"] + 1 for a, b in zip(rows, rows[1:]))
        if preorder and not rec["vis"].startswith("ok:"):
            # the row generator ran to the end and yielded a pre-order walk: the default sink must complete in every show mode
            # (coq/props/C13.v: C13_preorder_never_raises; before the repair of D24 show='trusted' raised ValueError here)
            out.append(("raises-on-preorder-stream", f"row generator completed ({len(rows)} rows, pre-order) but visualize(show={case['show']!r}) gave {rec['vis'][:60]}"))
        if preorder and rec["vis"].startswith("ok:"):
            # what must be printed, stated on the tree and not on _traverse_tree's loop: the root row, and every other row the
            # filter admits all of whose ancestors below the root the filter admits too (C13_hidden_subtrees_cut)
            kept = kept_rows(rows, case["show"])
            lines = rec["vis"][3:].split("\n")
            if len(lines) != len(kept):
                out.append(("printed-rows-vs-ancestors", f"{len(lines)} lines printed, {len(kept)} rows are visible together with all their ancestors (show={case['show']})"))
            else:
                for ln, r in zip(lines, kept):
                    if not ln.endswith(f"{r['key']}: {r['val']}" + ("" if r["self"] else " [UNSAFE]")):
                        out.append(("tag-mismatch", f"line {ln!r} vs row {r['key']}: {r['val']} is_self_safe={r['self']}"))
                        break
    return out


def row_visible(r, show):
    return True if show == "all" else (not r["safe"] if show == "untrusted" else r["self"])


def kept_rows(rows, show):
    """rows of a pre-order walk -> the rows printed: parents by a stack; a row is kept iff its parent is kept and the filter
    admits it; the root row is always kept"""
    kept, stack = [], []          # stack: (level, kept?) of the current ancestors
    for i, r in enumerate(rows):
        while stack and stack[-1][0] >= r["level"]:
            stack.pop()
        k = True if i == 0 else (row_visible(r, show) and (stack[-1][1] if stack else True))
        stack.append((r["level"], k))
        if k:
            kept.append(r)
    return kept


def hidden_parent_shown_child(rows, show):
    """the situation of D24: a row the filter hides directly above a deeper row the filter admits"""
    return any(not row_visible(a, show) and b["level"] > a["level"] and row_visible(b, show) for a, b in zip(rows[1:], rows[2:]))


def PROBE_CASES(snap=None):
    """fixed witnesses of the findings D31 (display name vs audited name): FunctionNode@0 is open; SliceNode was repaired in
    /repo (SliceNode.get_unsafe_set reports the header's type) and its witness, alone and nested in a list, must now be
    reported -- replayed on every run (coq/props/C13.v: C13_slice_name_reported)"""
    sl = {"__class__": "y", "__module__": "x", "__loader__": "SliceNode", "__id__": 1, "content": {"start": None, "stop": None, "step": None}, "protocol": 2}
    f0 = {"__class__": "y", "__module__": "x", "__loader__": "FunctionNode", "__id__": 1, "content": {"module_path": "numpy", "function": "sqrt"}, "protocol": 0}
    d = ((snap or {}).get("classes", {}).get("old._general_v0.FunctionNode", {}).get("defaults") or ["scipy.special._ufuncs.expit"])[0]
    f0["content"] = {"module_path": d.rpartition(".")[0], "function": d.rpartition(".")[2]}
    sl_in_list = {"__class__": "list", "__module__": "builtins", "__loader__": "ListNode", "__id__": 1, "protocol": sl["protocol"],
                  "content": [{k: v for k, v in sl.items() if k != "protocol"} | {"__id__": 2}]}
    out = []
    for sch in (sl, sl_in_list, f0):
        out.append({"schema": sch, "members": [], "tspec": "none", "tseed": 0, "show": "all", "malformed": False, "wellformed": True, "notes": ["probe"]})
    return out


def run(R, only_cases=None):
    snap = R.snapshot()
    R.trusted_base += ["Coq 8.16.1 kernel + vm_compute", "harness/snapshot.py (SKIPPED_TYPES, class probes)",
                       "correspondence: harness/impl_io.py (visualize with default sink, stdout captured; recording sink), harness/impl_codec.py (visualize over real dumps)"]
    R.assumptions += ["rich is not installed: the default sink is the plain-text printer, which the model reproduces line by line; colours are not exercised",
                      "a cyclic archive is unrolled twice by the model before it reports RecursionError (the implementation unrolls to the recursion limit)"]
    if snap is None:
        return
    R.prove("C13")
    rnd = random.Random(R.seed)
    n = 400 if R.tier == "quick" else 4000
    cases = only_cases or (PROBE_CASES(snap) + [G.gen_case(rnd) for _ in range(n)])
    recs, bad, _ = IO.run_batch(R, cases, aspects=("gut", "audit", "vis", "rows"), tag="c13")
    IO.report_disagreements(R, cases, recs, bad, "C13")
    for c, r in zip(cases, recs):
        R.count("show:" + c["show"])
        R.count("vis:" + r["vis"].split(":")[0] + (":" + r["vis"].split(":")[1] if r["vis"].startswith("err") else ""))
        prs = parse_rows(r["rows"][3:]) if r["rows"].startswith("ok:") else None
        if prs and hidden_parent_shown_child(prs, c["show"]):
            # non-vacuity of the D24 repair on generated archives: the subtree of the hidden row is skipped (text vs model above)
            R.count("hidden-parent-shown-child:" + c["show"] + ":" + r["vis"].split(":")[0])
        for item in oracle(c, r):
            kind, what = item[0], item[1]
            sig = {"kind": kind, "show": c["show"]}
            if len(item) > 2:
                sig = {"kind": "safe-flag-vs-displayed-name", "site": item[2]}
            R.violation(sig, what, {"case": {k: c[k] for k in ("schema", "members", "show")}, "T": r["T"], "observed": {k: r[k] for k in ("rows", "vis", "gut", "load")}})
    R.sample({"schema": cases[0]["schema"], "trusted": recs[0]["T"], "show": cases[0]["show"], "visualize": recs[0]["vis"][:400]})
    R.notes["uncovered"] = IO.uncovered_kinds(R, snap)
    if only_cases is None:
        total_on_dumps(R, rnd)
    R.notes["rule"] = ("(a) generated schemas (all loaders, valid + malformed, shared/cyclic ids) x trusted spec x show mode: default-sink text and raw rows vs model; "
                       "(b) real dumps of generated values x 3 trust settings x 3 show modes must ALL complete (every dumped archive, nine calls); "
                       "(c) on the implementation's own output: a completed pre-order row stream never makes the default sink raise, and the lines printed are the rows "
                       "admitted by the filter together with all their ancestors; non-trivial = inspection succeeded")


def has_rank0_objarray(spec):
    """an object array of shape () somewhere in the value spec"""
    if isinstance(spec, list):
        if len(spec) >= 2 and spec[0] == "objarray" and spec[1] == []:
            return True
        return any(has_rank0_objarray(x) for x in spec)
    return False


NINE = sorted(f"{show}/{t}" for show in ("all", "untrusted", "trusted") for t in ("none", "full", "half"))


def total_on_dumps(R, rnd):
    n = 150 if R.tier == "quick" else 1500
    # fixed witnesses of the findings D24 (repaired: must complete in every mode) / D15c first, then generated values
    specs = [["partial", "np.add", [["int", 1]], []], ["dict", [[["str", "key_types"], ["int", 1]]]],
             # D32 (repaired): keys of an untrusted type used to make visualize raise "invalid 'key_types' node"
             ["dict", [[["none"], ["int", 1]]]], ["dict", [[["mystr", "a"], ["int", 1]]]], ["dict", [[["myint", 3], ["list", [["int", 1]]]]]],
             ["list", [["dict", [[["str", "a"], ["int", 1]], [["none"], ["list", [["int", 2]]]]]]]],
             # the witnesses of coq/props/C13.v: C13_trusted_witness_repaired ([partial(np.add, 1)], the former witness of D24:
             # show='trusted' now prints the root row only) and C13_total_nonvacuous (a list shared three times, a dict with a
             # slice, a partial: completes in every mode)
             ["list", [["partial", "np.add", [["int", 1]], []]]],
             ["tuple", [["list", [["int", 1], ["str", "x"]]],
                        ["dict", [[["str", "a"], ["ref", 0]], [["int", 3], ["slice", ["int", 1], ["none"], ["int", 2]]]]],
                        ["partial", "np.add", [["int", 1]], []], ["ref", 0]]],
             # C13-F1 (repaired): a rank-0 object array was dumped with the cell's state in place of a list: get_tree raised
             # AttributeError.  The former witness and the witnesses of coq/props/C13.v:C13_total_nonvacuous_objarr_ranks (rank 0
             # holding a list, shape (2,2) of lists, shape (2,0)) must be visualized in all nine combinations
             ["objarray", [], [["userobj", "Plain", [["attr", ["bytes", "00ff10"]], ["key_types", ["int", 1]]]]]],
             ["objarray", [], [["list", [["int", 1], ["int", 2]]]]], ["objarray", [], [["int", 3]]],
             ["objarray", [2, 2], [["list", [["int", 1], ["int", 2]]], ["list", [["int", 3], ["int", 4]]],
                                   ["list", [["int", 5], ["int", 6]]], ["list", [["int", 7], ["int", 8]]]]],
             ["list", [["objarray", [2, 0], []], ["objarray", [0, 2], []], ["objarray", [], [["tuple", []]]]]]]
    specs += [GV.gen_value(rnd, supported=(i % 2 == 0)) for i in range(n)]
    shards = 8
    from concurrent.futures import ThreadPoolExecutor

    def one(chunk):
        p = C.run_impl("impl_codec.py", input_obj={"mode": "roundtrip", "cases": [{"cycles": 0, "vis": True}] + chunk}, timeout=1200)
        if p.returncode != 0:
            raise RuntimeError("impl_codec failed: " + p.stderr.decode(errors="replace")[-1200:])
        return json.loads(p.stdout)
    chunks = [specs[i::shards] for i in range(shards)]
    with ThreadPoolExecutor(shards) as ex:
        outs = list(ex.map(one, chunks))
    nvis = 0
    for s, o in enumerate(outs):
        for k, rec in enumerate(o):
            spec = chunks[s][k]
            R.case({"dump-visualize": spec}, nontrivial=rec.get("dump") == "ok")
            if rec.get("dump") == "ok" and sorted(rec.get("vis") or {}) != NINE:
                # every archive dumps wrote is visualized in all nine (show x trusted) combinations, whatever load says
                R.obligation_broken("C13 total_on_dumps", f"visualize was not attempted in all nine (show x trusted) combinations for {spec!r}: {sorted(rec.get('vis') or {})}")
            for key, v in (rec.get("vis") or {}).items():
                nvis += 1
                R.count("dumpvis:" + v.split(":")[0] + (":" + v.split(":")[1] if v != "ok" else ""))
                if v != "ok":
                    show, tname = key.split("/")
                    exc = v.split(":")[1]
                    why = "level-difference" if "level difference" in v or "While constructing" in v else ("key_types" if "key_types" in v else "other")
                    sig = {"kind": "visualize-raises-on-dump", "show": show if why == "level-difference" else None, "exc": exc, "why": why}
                    if has_rank0_objarray(spec):
                        sig["site"] = "objarray-rank0"
                    R.violation(sig,
                                f"visualize(dumps(obj), show={show!r}, trusted={tname}) raised {v[7:]}", {"spec": spec, "show": show, "trusted": tname})
    R.notes["visualize_calls_on_real_dumps"] = nvis


def replay(R, rep):
    if "case" in rep["replay"]:
        c = dict(rep["replay"]["case"])
        c.update(T=rep["replay"]["T"], tspec="explicit", tseed=0)
        run(R, only_cases=[c])
    else:
        R.snapshot()
        R.prove("C13")
        p = C.run_impl("impl_codec.py", input_obj={"mode": "roundtrip", "cases": [{"cycles": 0, "vis": True}, rep["replay"]["spec"]]})
        rec = json.loads(p.stdout)[0]
        if rec.get("dump") == "ok" and sorted(rec.get("vis") or {}) != NINE:
            R.obligation_broken("C13 total_on_dumps", f"replay: not all nine combinations attempted: {sorted(rec.get('vis') or {})}")
        for key, v in (rec.get("vis") or {}).items():
            if v != "ok":
                R.violation({"kind": "visualize-raises-on-dump", "replayed": True}, f"visualize {key}: {v}", rep["replay"])
