"""C13 -- visualize is total on dumped archives and agrees with the audit."""
import json
import random
import re

import common as C
import gen_archives as G
import gen_values as GV
import io_common as IO

ROW = re.compile(r"^(\d+)\|(.*)\|(.*)\|([01])([01])([01])$", re.S)

# ---- the printer's text (C13-F2 / C13-F3).  Mirror of coq/io/IoShow.v: printable_ranges, exact_charset, linebreaks --
# compared with the Coq terms and with str.isprintable (this interpreter and the one that runs skops) on every run.
PRINTABLE_RANGES = [(32, 126), (161, 172), (174, 591), (880, 887), (890, 895), (900, 906), (908, 908), (910, 929), (931, 1023),
                    (8208, 8231), (8240, 8286), (8592, 8703), (9472, 9599), (19968, 40869), (65532, 65533), (128512, 128591)]
EXACT_CHARSET = [(0, 591), (880, 887), (890, 895), (900, 906), (908, 908), (910, 929), (931, 1023), (5760, 5760), (8192, 8292),
                 (8294, 8303), (8592, 8703), (9472, 9599), (12288, 12288), (19968, 40869), (55296, 63743), (65279, 65279),
                 (65529, 65535), (128512, 128591), (917505, 917505), (917536, 917631), (983040, 1114111)]
LINEBREAKS = [10, 11, 12, 13, 28, 29, 30, 133, 8232, 8233]          # what str.splitlines splits on
LB_RE = re.compile("[" + "".join(re.escape(chr(c)) for c in LINEBREAKS) + "]")


def in_ranges(c, rs):
    return any(a <= c <= b for a, b in rs)


def in_charset(text):
    return all(in_ranges(ord(ch), EXACT_CHARSET) for ch in text)


def model_escape(text):
    """IoShow.escape_text: what _get_node_text must show for `text` (by the model's table, not by str.isprintable)"""
    out = []
    for ch in text:
        c = ord(ch)
        if in_ranges(c, PRINTABLE_RANGES):
            out.append(ch)
        elif c in (9, 10, 13):
            out.append({9: "\\t", 10: "\\n", 13: "\\r"}[c])
        elif c < 256:
            out.append("\\x%02x" % c)
        elif c < 65536:
            out.append("\\u%04x" % c)
        else:
            out.append("\\U%08x" % c)
    return "".join(out)


def split_lines(text):
    """the lines a reader (or str.splitlines) sees: split at EVERY line-break character, not only at the printer's own \\n"""
    return LB_RE.split(text)


def strings_of(j):
    if isinstance(j, str):
        yield j
    elif isinstance(j, dict):
        for k, v in j.items():
            yield k
            yield from strings_of(v)
    elif isinstance(j, list):
        for v in j:
            yield from strings_of(v)


def check_tables(R):
    """the three copies of the isprintable table agree: Coq model, this mirror, str.isprintable on the exact charset"""
    ok = True
    out = R.model_eval("PrintTables", "From Skv Require Import IoShow.\nEval vm_compute in (printable_ranges, exact_charset, linebreaks).\n")
    groups = [[int(x) for x in re.findall(r"\d+", g)] for g in re.findall(r"\[(.*?)\]", out, flags=re.S)[:3]]
    want = [[x for ab in PRINTABLE_RANGES for x in ab], [x for ab in EXACT_CHARSET for x in ab], LINEBREAKS]
    if groups != want:
        R.obligation_broken("C13 isprintable table", f"harness/props/c13.py mirrors coq/io/IoShow.v no longer: Coq prints {groups!r}")
        ok = False
    bad = [c for a, b in EXACT_CHARSET for c in range(a, b + 1) if chr(c).isprintable() != in_ranges(c, PRINTABLE_RANGES)]
    p = C.run_impl("impl_io.py", input_obj={"mode": "charset", "cases": [{"printable": PRINTABLE_RANGES, "charset": EXACT_CHARSET}]})
    if p.returncode != 0:
        raise RuntimeError("impl_io charset failed: " + p.stderr.decode(errors="replace")[-800:])
    rep = json.loads(p.stdout)[0]
    R.notes["isprintable_table"] = {"exact_on_code_points": rep["checked"], "implementation_python": rep["python"],
                                    "implementation_unidata": rep["unidata"], "disagreements": len(rep["disagree"]) + len(bad)}
    if bad or rep["disagree"] or rep["printable_outside_charset"]:
        R.obligation_broken("C13 isprintable table", f"the model's isprintable is not str.isprintable on its exact charset: code points {(bad or rep['disagree'])[:20]} "
                                                      f"(unicodedata {rep['unidata']}); printable ranges outside the charset: {rep['printable_outside_charset']}")
        ok = False
    if any(in_ranges(c, PRINTABLE_RANGES) or not in_ranges(c, EXACT_CHARSET) for c in LINEBREAKS + [0xD800, 0xDBFF, 0xDC00, 0xDFFF]):
        R.obligation_broken("C13 isprintable table", "a line break or a surrogate is printable / outside the exact charset")
        ok = False
    return ok


def rows_of(rec):
    """the row stream of a record: field by field when the runner gave it so (keys may hold line breaks and bars)"""
    if not rec["rows"].startswith("ok:"):
        return None
    if rec.get("rowlist") is not None:
        return [{"level": r[0], "key": r[1], "val": r[2], "self": r[3], "safe": r[4], "last": r[5]} for r in rec["rowlist"]]
    return parse_rows(rec["rows"][3:])


def row_text(r):
    return f"{r['key']}: {r['val']}" + ("" if r["self"] else " [UNSAFE]")


def text_oracle(lines, kept, show):
    """one line per row kept, each line the (escaped) text of its row, nothing unprintable, encodable as UTF-8"""
    out = []
    if len(lines) != len(kept):
        out.append(("printed-rows-vs-ancestors", f"{len(lines)} lines printed, {len(kept)} rows are visible together with all their ancestors (show={show})"))
        return out
    for ln, r in zip(lines, kept):
        txt = row_text(r)
        if in_charset(txt) and not ln.endswith(model_escape(txt)):
            out.append(("tag-mismatch", f"line {ln!r} vs row {r['key']!r}: {r['val']!r} is_self_safe={r['self']}"))
            break
    for ln in lines:
        try:
            ln.encode("utf-8")
        except UnicodeEncodeError:
            out.append(("line-not-encodable", f"line {ln!r} cannot be encoded as UTF-8"))
            break
        hit = [ch for ch in ln if in_ranges(ord(ch), EXACT_CHARSET) and not in_ranges(ord(ch), PRINTABLE_RANGES)]
        if hit:
            out.append(("unprintable-character-printed", f"line {ln!r} holds the unprintable character U+{ord(hit[0]):04X}"))
            break
    return out


def parse_rows(text):
    rows = []
    for line in text.split("\n"):
        m = ROW.match(line)
        if not m:
            return None     # a key/val containing a newline or a bar: skip the row-level oracle for this case
        rows.append({"level": int(m.group(1)), "key": m.group(2), "val": m.group(3), "self": m.group(4) == "1",
                     "safe": m.group(5) == "1", "last": m.group(6) == "1"})
    return rows


def site_of(case, val):
    """the loader kind whose header name is displayed as `val` but may not be what its audit looks at (SliceNode did so until
    the D31-SliceNode repair; the signature keeps the site so that a regression is reported under its own name)"""
    proto = case["schema"].get("protocol")
    for _, v in G.all_paths(case["schema"]):
        if isinstance(v, dict) and f"{v.get('__module__')}.{v.get('__class__')}" == val:
            if v.get("__loader__") == "SliceNode":
                return "SliceNode"
            if v.get("__loader__") == "FunctionNode" and proto == 0:
                return "FunctionNode@0"
        if isinstance(v, dict) and v.get("__loader__") == "FunctionNode" and proto == 0 and isinstance(v.get("content"), dict):
            # since the D31-FunctionNode@0 repair the row of a protocol-0 FunctionNode displays the name its content holds
            if f"{v['content'].get('module_path')}.{v['content'].get('function')}" == val:
                return "FunctionNode@0"
    return None


def oracle(case, rec):
    """The property's statement on the implementation's own output."""
    out = []
    if rec["rows"].startswith("ok:"):
        rows = rows_of(rec)
        if rows:
            if rows[0]["level"] != 0:
                out.append(("root-level", "first row is not at level 0"))
            for a, b in zip(rows, rows[1:]):
                if b["level"] > a["level"] + 1:
                    out.append(("level-jump", f"row {b['key']} at level {b['level']} follows level {a['level']}"))
            for i, r in enumerate(rows):
                if r["safe"] and not r["self"]:
                    out.append(("safe-but-self-unsafe", f"row {r['key']}: {r['val']} marked fully safe although its own type is untrusted", site_of(case, r["val"])))
                if r["safe"]:
                    for d in rows[i + 1:]:
                        if d["level"] <= r["level"]:
                            break
                        if not d["self"] or not d["safe"]:
                            out.append(("safe-above-unsafe", f"row {r['key']}: {r['val']} marked fully safe above untrusted {d['val']}", site_of(case, d["val"])))
                            break
            # root fully safe  <=>  load with the same trusted list is not refused
            if rec["gut"].startswith("ok:") and not rec["load"].startswith(("err:TypeError", "err:KeyError", "err:ValueError", "err:AttributeError")):
                refused = rec["load"].startswith("err:Untrusted")
                if rows[0]["safe"] == refused:
                    out.append(("root-verdict", f"root row safe={rows[0]['safe']} but load with trusted={rec['T']} gives {rec['load'][:80]}"))
    if rec["rows"].startswith("ok:"):
        rows = rows_of(rec)
        preorder = bool(rows) and all(b["level"] <= a["level"] + 1 for a, b in zip(rows, rows[1:]))
        if preorder and not rec["vis"].startswith("ok:"):
            # the row generator ran to the end and yielded a pre-order walk: the default sink must complete in every show mode
            # (coq/props/C13.v: C13_preorder_never_raises; before the repair of D24 show='trusted' raised ValueError here;
            # before the repair of C13-F2 a lone surrogate in a key made print raise UnicodeEncodeError)
            out.append(("raises-on-preorder-stream", f"row generator completed ({len(rows)} rows, pre-order) but visualize(show={case['show']!r}) gave {rec['vis'][:60]}"))
        if preorder and rec["vis"].startswith("ok:"):
            # what must be printed, stated on the tree and not on _traverse_tree's loop: the root row, and every other row the
            # filter admits all of whose ancestors below the root the filter admits too (C13_hidden_subtrees_cut) -- ONE line
            # each (C13_one_line_per_row), whatever characters the key and the type name hold
            kept = kept_rows(rows, case["show"])
            out.extend(text_oracle(split_lines(rec["vis"][3:]), kept, case["show"]))
    return out


def row_visible(r, show):
    return True if show == "all" else (not r["safe"] if show == "untrusted" else r["self"])


def kept_rows(rows, show):
    """rows of a pre-order walk -> the rows printed: parents by a stack; a row is kept iff its parent is kept and the filter
    admits it; the root row is always kept"""
    kept, stack = [], []          # stack: (level, kept?) of the current ancestors
    for i, r in enumerate(rows):
        while stack and stack[-1][0] >= r["level"]:
            stack.pop()
        k = True if i == 0 else (row_visible(r, show) and (stack[-1][1] if stack else True))
        stack.append((r["level"], k))
        if k:
            kept.append(r)
    return kept


def hidden_parent_shown_child(rows, show):
    """the situation of D24: a row the filter hides directly above a deeper row the filter admits"""
    return any(not row_visible(a, show) and b["level"] > a["level"] and row_visible(b, show) for a, b in zip(rows[1:], rows[2:]))


def fn0_default(snap=None):
    """a name the protocol-0 FunctionNode trusts by default in the environment under test (coq/props/C13.v: fn0_default)"""
    return ((snap or {}).get("classes", {}).get("old._general_v0.FunctionNode", {}).get("defaults") or ["scipy.special._ufuncs.expit"])[0]


def PROBE_CASES(snap=None):
    """fixed witnesses of the findings D31 (display name vs audited name), both repaired in the code under test and replayed on
    every run.  SliceNode (SliceNode.get_unsafe_set reports the header's type): its witness, alone and nested in a list, must be
    reported (coq/props/C13.v: C13_slice_name_reported).  FunctionNode@0 (the protocol-0 FunctionNode displays and self-checks the
    name it audits, content.module_path.function; C13_function_v0_name_shown): the first witness (header x.y, content a
    default-trusted ufunc, at the root), a GENUINE old file (header = module of the ufunc + its type "ufunc") and a TAMPERED one
    (header = the trusted ufunc, content = os.getcwd), both inside a list -- see fn0_witnesses for what they must show"""
    sl = {"__class__": "y", "__module__": "x", "__loader__": "SliceNode", "__id__": 1, "content": {"start": None, "stop": None, "step": None}, "protocol": 2}
    f0 = {"__class__": "y", "__module__": "x", "__loader__": "FunctionNode", "__id__": 1, "content": {"module_path": "numpy", "function": "sqrt"}, "protocol": 0}
    d = fn0_default(snap)
    dm, df = d.rpartition(".")[0], d.rpartition(".")[2]
    f0["content"] = {"module_path": dm, "function": df}
    sl_in_list = {"__class__": "list", "__module__": "builtins", "__loader__": "ListNode", "__id__": 1, "protocol": sl["protocol"],
                  "content": [{k: v for k, v in sl.items() if k != "protocol"} | {"__id__": 2}]}

    def fn_in_list(hm, hc, cm, cf):
        return {"__class__": "list", "__module__": "builtins", "__loader__": "ListNode", "__id__": 1, "protocol": 0,
                "content": [{"__class__": hc, "__module__": hm, "__loader__": "FunctionNode", "__id__": 2, "content": {"module_path": cm, "function": cf}}]}
    out = []
    for sch, note in ((sl, "probe"), (sl_in_list, "probe"), (f0, "fn0-root"), (fn_in_list(dm, "ufunc", dm, df), "fn0-genuine"),
                      (fn_in_list(dm, df, "os", "getcwd"), "fn0-tampered")):
        for show in (("all",) if note == "probe" else ("all", "untrusted", "trusted")):
            out.append({"schema": sch, "members": [], "tspec": "none", "tseed": 0, "show": show, "malformed": False, "wellformed": True, "notes": ["probe", note]})
    # malformed contents of a protocol-0 FunctionNode: format() is the first of walk_tree's three calls, so visualize raises
    # what _get_function_name() raises (KeyError for a missing key, TypeError for a non-dict content or a non-str part --
    # a non-str module_path before a missing function is looked up); compared with the model like every other case
    for cont in ({"module_path": dm}, {"function": df}, {"module_path": 1}, {"module_path": None, "function": df}, {"module_path": dm, "function": 2},
                 {"module_path": [dm], "function": df}, {}, "text", [dm, df], None, 3):
        sch = fn_in_list(dm, "ufunc", dm, df)
        sch["content"][0]["content"] = cont
        out.append({"schema": sch, "members": [], "tspec": "none", "tseed": 0, "show": "all", "malformed": True, "wellformed": False, "notes": ["probe", "fn0-malformed"]})
    return out


def fn0_witnesses(R, snap, cases, recs):
    """the former witnesses of D31-FunctionNode@0 against the implementation, stated on its own output (no model involved):
    a protocol-0 FunctionNode's row displays the name the audit looks at and is tagged exactly when the audit reports it.
    fn0-root / fn0-genuine: nothing reported, no row tagged [UNSAFE], every row fully safe, the function's row shows the trusted
    ufunc's name and nothing shows the header's module.class; fn0-tampered: os.getcwd reported, and the function's row shows
    os.getcwd, tagged and not fully safe, while the trusted name of the header is shown nowhere"""
    d = fn0_default(snap)
    sig = {"kind": "safe-flag-vs-displayed-name", "site": "FunctionNode@0"}
    seen = 0
    for c, r in zip(cases, recs):
        note = [x for x in c.get("notes", []) if x in ("fn0-root", "fn0-genuine", "fn0-tampered")]
        if not note or c.get("tspec") != "none":
            continue
        seen += 1
        rows = rows_of(r)
        fails = []
        fn = c["schema"] if note[0] == "fn0-root" else c["schema"]["content"][0]
        header = f"{fn['__module__']}.{fn['__class__']}"
        if rows is None or not r["gut"].startswith("ok:"):
            fails.append(f"rows / get_untrusted_types did not complete: {r['rows'][:80]} / {r['gut'][:80]}")
        elif note[0] in ("fn0-root", "fn0-genuine"):
            if r["gut"] != "ok:":
                fails.append(f"get_untrusted_types reports {r['gut'][3:]!r} for a default-trusted ufunc")
            if any(not x["self"] for x in rows):
                fails.append("a row is tagged [UNSAFE] although nothing is reported: " + "; ".join(row_text(x) for x in rows if not x["self"]))
            if any(not x["safe"] for x in rows):
                fails.append("a row is not fully safe although nothing is reported")
            if not any(x["val"] == d for x in rows):
                fails.append(f"no row displays the function's name {d}: rows show {[x['val'] for x in rows]}")
            if header != d and any(x["val"] == header for x in rows):
                fails.append(f"a row displays the header's {header} (the type of the function), which the audit does not look at")
        else:
            if r["gut"] != "ok:os.getcwd":
                fails.append(f"get_untrusted_types gives {r['gut']!r}, expected os.getcwd")
            hit = [x for x in rows if x["val"] == "os.getcwd"]
            if not hit:
                fails.append(f"os.getcwd is audited and would be imported but no row displays it: rows show {[x['val'] for x in rows]}")
            if any(x["self"] or x["safe"] for x in hit):
                fails.append("the row of os.getcwd is not tagged [UNSAFE] / is marked fully safe")
            if any(x["val"] == header for x in rows):
                fails.append(f"a row displays the trusted name {header} of the header, which the audit does not look at")
            if rows and rows[0]["safe"]:
                fails.append("the root row is fully safe above an untrusted function")
        if fails and c["show"] == "all":
            R.violation(sig, f"{note[0]} (former witness of D31-FunctionNode@0): " + " | ".join(fails),
                        {"case": {k: c[k] for k in ("schema", "members", "show")}, "T": r["T"], "observed": {k: r[k] for k in ("rows", "vis", "gut", "load")}})
        R.count("fn0-witness:" + note[0] + (":fails" if fails else ":ok"))
    R.notes["fn0_witnesses_replayed"] = seen


def PRINT_CASES():
    """hand-made archives for the printer (replayed on every run): the former witnesses of C13-F2 (lone surrogate in a key) and
    C13-F3 (line break in a key forging a row) as schemas, a type name holding a line break and one holding ESC / NBSP / a
    surrogate, every escape form in one key, an untrusted row (the tag follows the escaped name)"""
    def js(v):
        return {"__class__": "int", "__module__": "builtins", "__loader__": "JsonNode", "content": json.dumps(v), "is_json": True}

    def dct(pairs, nid, **kw):
        kt = {"__class__": "list", "__module__": "builtins", "__loader__": "ListNode", "__id__": nid + 1,
              "content": [{"__class__": "str", "__module__": "builtins", "__loader__": "TypeNode", "__id__": 7} for _ in pairs]}
        d = {"__class__": "dict", "__module__": "builtins", "__loader__": "DictNode", "__id__": nid, "content": dict(pairs), "key_types": kt}
        d.update(kw)
        return d
    every = "\t\n\r\x0b\x1b\x7f\x85\xa0\xad\u2028\ud800\ufeff\U000e0001 \\ \u00e9\u03bb\u65e5\u2502\U0001f600"
    schemas = [dct([("\ud800", js(1))], 1), dct([("a\nroot: builtins.dict", js(1)), ("b", js(1))], 1),
               dct([("k", {"__class__": "C\nroot: builtins.dict", "__module__": "m", "__loader__": "TypeNode", "__id__": 5})], 1),
               dct([("k", {"__class__": "y\ud800", "__module__": "x\x1b[2J\xa0", "__loader__": "ObjectNode", "__id__": 5, "content": dct([("at\u2028tr", js(2))], 10)})], 1),
               dct([(every, js(1)), ("plain", js(2))], 1)]
    out = []
    for sch in schemas:
        sch["protocol"] = 2
        sch["_skops_version"] = "0.0"
        for show in ("all", "untrusted", "trusted"):
            out.append({"schema": sch, "members": [], "tspec": "none", "tseed": 0, "show": show, "malformed": False, "wellformed": True, "notes": ["print-probe"]})
    return out


def run(R, only_cases=None):
    snap = R.snapshot()
    R.trusted_base += ["Coq 8.16.1 kernel + vm_compute", "harness/snapshot.py (SKIPPED_TYPES, class probes)",
                       "correspondence: harness/impl_io.py (visualize with default sink, stdout captured; recording sink), harness/impl_codec.py (visualize over real dumps)"]
    R.assumptions += ["rich is not installed: the default sink is the plain-text printer, which the model reproduces line by line; colours are not exercised",
                      "a cyclic archive is unrolled twice by the model before it reports RecursionError (the implementation unrolls to the recursion limit)"]
    if snap is None:
        return
    R.prove("C13")
    check_tables(R)
    rnd = random.Random(R.seed)
    n = 400 if R.tier == "quick" else 4000
    # mostly-valid and malformed archives; a third of them with unprintable characters (line breaks, controls, invisible
    # spaces, lone surrogates, ...) in dict keys, attribute names and type names
    cases = only_cases or (PROBE_CASES(snap) + PRINT_CASES() + [G.gen_case(rnd, nasty=(0.5 if i % 3 == 0 else 0.0)) for i in range(n)])
    # a text outside the charset on which the model's isprintable is exact is not compared (the generators stay inside)
    inside = [c for c in cases if all(in_charset(x) for x in strings_of(c["schema"]))]
    if len(inside) != len(cases):
        R.count("dropped:outside-exact-charset", len(cases) - len(inside))
        cases = inside
    recs, bad, _ = IO.run_batch(R, cases, aspects=("gut", "audit", "vis", "rows"), tag="c13")
    IO.report_disagreements(R, cases, recs, bad, "C13")
    for c, r in zip(cases, recs):
        R.count("show:" + c["show"])
        R.count("vis:" + r["vis"].split(":")[0] + (":" + r["vis"].split(":")[1] if r["vis"].startswith("err") else ""))
        prs = rows_of(r)
        if prs and any(not in_ranges(ord(ch), PRINTABLE_RANGES) for x in prs for ch in x["key"] + x["val"]):
            # non-vacuity of the C13-F2 / C13-F3 repair on generated archives: a row whose text needs the escape
            R.count("row-text-needs-escape:" + r["vis"].split(":")[0])
            if any(LB_RE.search(x["key"] + x["val"]) for x in prs):
                R.count("row-text-holds-line-break:" + r["vis"].split(":")[0])
            if any("\ud800" <= ch <= "\udfff" for x in prs for ch in x["key"] + x["val"]):
                R.count("row-text-holds-surrogate:" + r["vis"].split(":")[0])
        if prs and hidden_parent_shown_child(prs, c["show"]):
            # non-vacuity of the D24 repair on generated archives: the subtree of the hidden row is skipped (text vs model above)
            R.count("hidden-parent-shown-child:" + c["show"] + ":" + r["vis"].split(":")[0])
        for item in oracle(c, r):
            kind, what = item[0], item[1]
            sig = {"kind": kind, "show": c["show"]}
            if len(item) > 2:
                sig = {"kind": "safe-flag-vs-displayed-name", "site": item[2]}
            R.violation(sig, what, {"case": {k: c[k] for k in ("schema", "members", "show")}, "T": r["T"], "observed": {k: r[k] for k in ("rows", "vis", "gut", "load")}})
    fn0_witnesses(R, snap, cases, recs)
    R.sample({"schema": cases[0]["schema"], "trusted": recs[0]["T"], "show": cases[0]["show"], "visualize": recs[0]["vis"][:400]})
    R.notes["uncovered"] = IO.uncovered_kinds(R, snap)
    if only_cases is None:
        total_on_dumps(R, rnd)
        print_on_dumps(R, rnd)
        file_history(R)
    R.notes["rule"] = ("(a) generated schemas (all loaders, valid + malformed, shared/cyclic ids; a third with line breaks, controls, invisible spaces, lone "
                       "surrogates in keys / attribute names / type names) x trusted spec x show mode: default-sink text (UTF-8 stream over bytes) and raw rows vs model; "
                       "(b) real dumps of generated values x 3 trust settings x 3 show modes must ALL complete (every dumped archive, nine calls); "
                       "(c) on the implementation's own output: a completed pre-order row stream never makes the default sink raise, and the lines printed -- split "
                       "at every character str.splitlines splits on -- are the rows admitted by the filter together with all their ancestors, one line each, "
                       "each ending with the escaped text of its row, no unprintable character, encodable as UTF-8; "
                       "(d) real dumps of values with such keys / attribute names (the former witnesses of C13-F2 and C13-F3 first): nine calls each, same oracle, "
                       "and the printed text = the model's printer run on the implementation's own kept rows; non-trivial = inspection succeeded")


def has_rank0_objarray(spec):
    """an object array of shape () somewhere in the value spec"""
    if isinstance(spec, list):
        if len(spec) >= 2 and spec[0] == "objarray" and spec[1] == []:
            return True
        return any(has_rank0_objarray(x) for x in spec)
    return False


NINE = sorted(f"{show}/{t}" for show in ("all", "untrusted", "trusted") for t in ("none", "full", "half"))


def total_on_dumps(R, rnd):
    n = 150 if R.tier == "quick" else 1500
    # fixed witnesses of the findings D24 (repaired: must complete in every mode) / D15c first, then generated values
    specs = [["partial", "np.add", [["int", 1]], []], ["dict", [[["str", "key_types"], ["int", 1]]]],
             # D32 (repaired): keys of an untrusted type used to make visualize raise "invalid 'key_types' node"
             ["dict", [[["none"], ["int", 1]]]], ["dict", [[["mystr", "a"], ["int", 1]]]], ["dict", [[["myint", 3], ["list", [["int", 1]]]]]],
             ["list", [["dict", [[["str", "a"], ["int", 1]], [["none"], ["list", [["int", 2]]]]]]]],
             # the witnesses of coq/props/C13.v: C13_trusted_witness_repaired ([partial(np.add, 1)], the former witness of D24:
             # show='trusted' now prints the root row only) and C13_total_nonvacuous (a list shared three times, a dict with a
             # slice, a partial: completes in every mode)
             ["list", [["partial", "np.add", [["int", 1]], []]]],
             ["tuple", [["list", [["int", 1], ["str", "x"]]],
                        ["dict", [[["str", "a"], ["ref", 0]], [["int", 3], ["slice", ["int", 1], ["none"], ["int", 2]]]]],
                        ["partial", "np.add", [["int", 1]], []], ["ref", 0]]],
             # C13-F1 (repaired): a rank-0 object array was dumped with the cell's state in place of a list: get_tree raised
             # AttributeError.  The former witness and the witnesses of coq/props/C13.v:C13_total_nonvacuous_objarr_ranks (rank 0
             # holding a list, shape (2,2) of lists, shape (2,0)) must be visualized in all nine combinations
             ["objarray", [], [["userobj", "Plain", [["attr", ["bytes", "00ff10"]], ["key_types", ["int", 1]]]]]],
             ["objarray", [], [["list", [["int", 1], ["int", 2]]]]], ["objarray", [], [["int", 3]]],
             ["objarray", [2, 2], [["list", [["int", 1], ["int", 2]]], ["list", [["int", 3], ["int", 4]]],
                                   ["list", [["int", 5], ["int", 6]]], ["list", [["int", 7], ["int", 8]]]]],
             ["list", [["objarray", [2, 0], []], ["objarray", [0, 2], []], ["objarray", [], [["tuple", []]]]]]]
    specs += [GV.gen_value(rnd, supported=(i % 2 == 0)) for i in range(n)]
    shards = 8
    from concurrent.futures import ThreadPoolExecutor

    def one(chunk):
        p = C.run_impl("impl_codec.py", input_obj={"mode": "roundtrip", "cases": [{"cycles": 0, "vis": True}] + chunk}, timeout=1200)
        if p.returncode != 0:
            raise RuntimeError("impl_codec failed: " + p.stderr.decode(errors="replace")[-1200:])
        return json.loads(p.stdout)
    chunks = [specs[i::shards] for i in range(shards)]
    with ThreadPoolExecutor(shards) as ex:
        outs = list(ex.map(one, chunks))
    nvis = 0
    for s, o in enumerate(outs):
        for k, rec in enumerate(o):
            spec = chunks[s][k]
            R.case({"dump-visualize": spec}, nontrivial=rec.get("dump") == "ok")
            if rec.get("dump") == "ok" and sorted(rec.get("vis") or {}) != NINE:
                # every archive dumps wrote is visualized in all nine (show x trusted) combinations, whatever load says
                R.obligation_broken("C13 total_on_dumps", f"visualize was not attempted in all nine (show x trusted) combinations for {spec!r}: {sorted(rec.get('vis') or {})}")
            for key, v in (rec.get("vis") or {}).items():
                nvis += 1
                R.count("dumpvis:" + v.split(":")[0] + (":" + v.split(":")[1] if v != "ok" else ""))
                if v != "ok":
                    show, tname = key.split("/")
                    exc = v.split(":")[1]
                    why = "level-difference" if "level difference" in v or "While constructing" in v else ("key_types" if "key_types" in v else "other")
                    sig = {"kind": "visualize-raises-on-dump", "show": show if why == "level-difference" else None, "exc": exc, "why": why}
                    if has_rank0_objarray(spec):
                        sig["site"] = "objarray-rank0"
                    R.violation(sig,
                                f"visualize(dumps(obj), show={show!r}, trusted={tname}) raised {v[7:]}", {"spec": spec, "show": show, "trusted": tname})
    R.notes["visualize_calls_on_real_dumps"] = nvis


# the former witnesses of C13-F2 / C13-F3 (repaired: replayed on every run) and a few fixed values around them
W_F2 = ["dict", [[["str", "\ud800"], ["int", 1]]]]
W_F3 = ["dict", [[["str", "a\nroot: builtins.dict"], ["int", 1]], [["str", "b"], ["int", 1]]]]
PRINT_SPECS = [W_F2, W_F3,
               ["dict", [[["str", "x\r\ny"], ["list", [["int", 1]]]], [["str", "\u2028"], ["int", 2]], [["str", "\x1b[31m"], ["int", 3]], [["str", "no\xa0break"], ["none"]]]],
               ["list", [["userobj", "Plain", [["at\ntr", ["int", 1]], ["\udfff", ["dict", [[["str", "\x85\x0b\x0c\x1c\x1d\x1e\u2029"], ["int", 1]]]]]]]]],
               ["odict", [[["str", "\\n"], ["int", 1]], [["str", "\n"], ["int", 2]], [["str", "caf\u00e9 \u65e5\u672c \U0001f600"], ["int", 3]], [["str", "\U000e0001\ufeff\uffff"], ["int", 4]]]]]


def printer_vs_model(R, items):
    """items: (kept rows, printed text).  The model's printer (IoShow.print_tree) on the implementation's own kept rows must
    give the implementation's text.  Returns the indices that differ (with the model's text)."""
    def crow(r):
        return (f"{{| r_level := {r['level']}; r_key := {C.cstr(r['key'])}; r_val := {C.cstr(r['val'])}; r_self_safe := {C.cbool(r['self'])}; "
                f"r_safe := {C.cbool(r['safe'])}; r_last := {C.cbool(r['last'])} |}}")
    bad, files, index = [], [], []
    for s0 in range(0, len(items), 400):
        chunk = items[s0:s0 + 400]
        body = ["From Skv Require Import Walk IoShow.",
                "Eval vm_compute in mismatches (fun rs : list row => print_tree (s \"[UNSAFE]\") rs) "
                + C.clist((f"({C.clist((crow(r) for r in rows), 'row')}, {C.cstr(text)})" for rows, text in chunk), "(list row * pstr)") + "."]
        f = R.gen / f"Cases_c13print_{s0}.v"
        f.write_text("\n".join(body) + "\n")
        files.append(f)
        index.append(s0)
    outs = C.coqc_many(files, R.gen, timeout=900)
    for f, s0 in zip(files, index):
        res = IO.parse_all_mismatches(outs[f])
        if len(res) != 1:
            raise RuntimeError(f"{f.name}: expected one result list: {outs[f][-300:]}")
        bad += [(s0 + k, model) for k, model in res[0]]
    return bad


# successive versions of one model FILE (safe, untrusted user object, safe again, another untrusted class, a bigger safe one):
# what visualize(path) shows must follow the file, not an earlier reading of it
FILE_HISTORY = [["list", [["int", 1], ["ndarray", "<f8", [3], "C", 1, False]]],
                ["list", [["int", 1], ["userobj", "Plain", [["a", ["int", 2]]]]]],
                ["list", [["int", 1], ["ndarray", "<f8", [3], "C", 1, False]]],
                ["dict", [[["str", "m"], ["userobj", "WithState", [["payload", ["int", 3]]]]], [["str", "w"], ["ndarray", "<i8", [2], "C", 2, False]]]],
                ["list", [["int", 1], ["userobj", "Plain", [["a", ["int", 2]]]]]],
                ["tuple", [["str", "only"], ["str", "safe"], ["dict", [[["str", "k"], ["list", [["int", 0]]]]]]]]]


def file_history(R):
    p = C.run_impl("impl_io.py", input_obj={"mode": "visfile", "cases": FILE_HISTORY}, timeout=600)
    if p.returncode != 0:
        R.obligation_broken("C13 file history (runner)", p.stderr.decode(errors="replace")[-800:])
        return
    for k, rec in enumerate(json.loads(p.stdout)):
        R.count("file-history:" + ("untrusted" if rec["gut"] else "safe"))
        R.case(["file-history", k, rec["gut"], rec["views"]], nontrivial=True)
        for view, v in rec["views"].items():
            want_safe = (not rec["gut"]) or view.endswith("/reported")
            if "raises" in v:
                R.violation({"kind": "visualize-raises-on-dump", "site": "file-history"}, f"visualize(path) of version {k} of the file raised {v['raises']}",
                            {"file_history": FILE_HISTORY[:k + 1], "view": view})
            elif v["root_safe"] != want_safe or (view.endswith("/none") and set(v["unsafe_vals"]) != set(rec["gut"])):
                R.violation({"kind": "stale-or-wrong-file-view", "site": "file-history"},
                            f"after version {k} was written to the same path, visualize({view}) shows root_safe={v['root_safe']} and unsafe rows {v['unsafe_vals']} "
                            f"while get_untrusted_types(file=path) = {rec['gut']}", {"file_history": FILE_HISTORY[:k + 1], "view": view})


def print_on_dumps(R, rnd, only=None):
    """(d) the text on real dumps of values whose dict keys / attribute names hold unprintable characters"""
    n = 60 if R.tier == "quick" else 600
    specs = only or (PRINT_SPECS + [GV.gen_value(rnd, supported=(i % 2 == 0), nasty=0.4) for i in range(n)])
    shards = 8
    from concurrent.futures import ThreadPoolExecutor

    def one(chunk):
        if not chunk:
            return []
        p = C.run_impl("impl_io.py", input_obj={"mode": "dumpvis", "cases": chunk}, timeout=1200)
        if p.returncode != 0:
            raise RuntimeError("impl_io dumpvis failed: " + p.stderr.decode(errors="replace")[-1200:])
        return json.loads(p.stdout)
    chunks = [specs[i::shards] for i in range(shards)]
    with ThreadPoolExecutor(shards) as ex:
        outs = list(ex.map(one, chunks))
    items, where, ncalls = [], [], 0
    for sh, o in enumerate(outs):
        for k, rec in enumerate(o):
            spec = chunks[sh][k]
            witness = "C13-F2" if spec == W_F2 else ("C13-F3" if spec == W_F3 else None)
            R.case({"dump-print": spec}, nontrivial=rec.get("dump") == "ok")
            if rec.get("dump") != "ok":
                R.count("dumpprint:not-dumped:" + str(rec.get("dump") or rec.get("build")))
                if witness:
                    R.obligation_broken("C13 print probes", f"the former witness of {witness} {spec!r} is no longer dumped: {rec}")
                continue
            if sorted(rec["combos"]) != NINE:
                R.obligation_broken("C13 print_on_dumps", f"not all nine (show x trusted) combinations attempted for {spec!r}")
            for key in NINE:
                show, tname = key.split("/")
                cb, rows = rec["combos"].get(key, {"vis": "missing"}), rec["rows"].get(tname)
                ncalls += 1
                rep = {"print": True, "spec": spec, "show": show, "trusted": tname}
                if cb["vis"] != "ok":
                    exc = cb["vis"].split(":")[1] if ":" in cb["vis"] else cb["vis"]
                    R.count("dumpprint:raises:" + exc)
                    R.violation({"kind": "visualize-raises-on-dump", "exc": exc, "why": "text-not-encodable" if exc == "UnicodeEncodeError" else "other", "witness": witness},
                                f"visualize(dumps(obj), show={show!r}, trusted={tname}) raised {cb['vis'][7:]} in the default sink (stdout = UTF-8 stream) for {spec!r}", rep)
                    continue
                R.count("dumpprint:ok")
                if not isinstance(rows, list):
                    R.violation({"kind": "row-generator-raises-on-dump", "witness": witness}, f"custom sink: {rows} for {spec!r}", rep)
                    continue
                rws = [{"level": r[0], "key": r[1], "val": r[2], "self": r[3], "safe": r[4], "last": r[5]} for r in rows]
                kept = kept_rows(rws, show)
                if any(not in_ranges(ord(ch), PRINTABLE_RANGES) for x in kept for ch in x["key"] + x["val"]):
                    R.count("dumpprint:row-text-needs-escape")
                for kind, what in text_oracle(split_lines(cb["text"]), kept, show):
                    R.violation({"kind": kind, "on": "dump", "witness": witness}, f"visualize(dumps(obj), show={show!r}, trusted={tname}) for {spec!r}: {what}", rep)
                if all(in_charset(row_text(x)) for x in kept):
                    items.append((kept, cb["text"]))
                    where.append(rep)
                else:
                    R.count("dumpprint:outside-exact-charset")
    # the same text from the model's printer (deduplicated: the nine calls often print the same tree)
    uniq, first = [], {}
    for it, w in zip(items, where):
        h = C.sha([it[0], it[1]])
        if h not in first:
            first[h] = w
            uniq.append(it)
    R.notes["print_calls_on_real_dumps"] = ncalls
    R.notes["printed_texts_compared_with_model"] = len(uniq)
    for i, model in printer_vs_model(R, uniq):
        R.disagreements += 1
        R.obligation_broken("correspondence C13/printer-on-dumps",
                            json.dumps({"rows": uniq[i][0], "implementation": uniq[i][1], "model": model})[:2500])


def replay(R, rep):
    if rep["replay"].get("print"):
        R.snapshot()
        R.prove("C13")
        check_tables(R)
        print_on_dumps(R, random.Random(R.seed), only=[rep["replay"]["spec"]])
        return
    if "case" in rep["replay"]:
        c = dict(rep["replay"]["case"])
        c.update(T=rep["replay"]["T"], tspec="explicit", tseed=0)
        run(R, only_cases=[c])
    else:
        R.snapshot()
        R.prove("C13")
        p = C.run_impl("impl_codec.py", input_obj={"mode": "roundtrip", "cases": [{"cycles": 0, "vis": True}, rep["replay"]["spec"]]})
        rec = json.loads(p.stdout)[0]
        if rec.get("dump") == "ok" and sorted(rec.get("vis") or {}) != NINE:
            R.obligation_broken("C13 total_on_dumps", f"replay: not all nine combinations attempted: {sorted(rec.get('vis') or {})}")
        for key, v in (rec.get("vis") or {}).items():
            if v != "ok":
                R.violation({"kind": "visualize-raises-on-dump", "replayed": True}, f"visualize {key}: {v}", rep["replay"])
