"""C07 -- a reloaded scikit-learn estimator is the same model (theorem = reduction; fidelity = correspondence)."""
import json
import random
from concurrent.futures import ThreadPoolExecutor

import common as C

COMPOSITIONS = ["grid_search_structured", "sparse_svm", "grid_search_structured", "sparse_svm",
                "scipy_ufunc_transformer", "random_state_instance", "scipy_ufunc_transformer", "random_state_instance",
                "pipeline", "column_transformer", "feature_union", "grid_search", "voting", "stacking", "bagging", "function_transformer",
                "class_weight_dict"]
# always part of the quick subset: one estimator per reassembly mechanism / payload kind
ANCHORS = ["DecisionTreeClassifier", "RandomForestRegressor", "KNeighborsClassifier", "SGDClassifier", "HistGradientBoostingClassifier",
           "TfidfTransformer", "SparseRandomProjection", "SimpleImputer", "LogisticRegression", "GaussianProcessRegressor", "OneHotEncoder",
           "GradientBoostingClassifier"]
# fixed witnesses of recorded findings (C07-F2: PCA fitted on sparse input keeps components_ as a negatively strided view)
PROBE_JOBS = [{"name": "PCA", "draw": 0, "data": "sparse", "fitted": True, "seed": 445}]
DOCUMENTED_FAMILIES = {"np_ufunc", "scipy_special_ufunc", "np_scalar_type", "builtin_primitive", "builtin_container", "np_array", "np_masked",
                       "np_rng", "scipy_sparse", "sk_tree", "sk_loss", "sklearn_estimator_class"}


def impl(mode, payload, timeout=1500):
    p = C.run_impl("impl_estimators.py", input_obj={"mode": mode, **payload}, timeout=timeout)
    if p.returncode != 0:
        raise RuntimeError(f"impl_estimators {mode} failed: " + p.stderr.decode(errors="replace")[-1500:])
    return json.loads(p.stdout)


def make_jobs(R, names):
    rnd = random.Random(R.seed)
    jobs = []
    if R.tier == "quick":
        rest = [n for n in names if n not in ANCHORS]
        subset = [n for n in ANCHORS if n in names] + rnd.sample(rest, min(50, len(rest)))
        for n in subset:
            jobs.append({"name": n, "draw": 0, "data": "dense", "fitted": True, "seed": rnd.randint(0, 999)})
        for n in rnd.sample(subset, 26):
            jobs.append({"name": n, "draw": rnd.randint(1, 9), "data": rnd.choice(["dense", "sparse", "multi", "nonneg"]), "fitted": True, "seed": rnd.randint(0, 999)})
        for n in rnd.sample(subset, 12):
            jobs.append({"name": n, "draw": rnd.randint(0, 3), "data": "dense", "fitted": False, "seed": rnd.randint(0, 999)})
        comps = COMPOSITIONS + [rnd.choice(COMPOSITIONS) for _ in range(24 - len(COMPOSITIONS))]
        for k in comps:
            jobs.append({"comp": k, "data": "dense", "fitted": True, "seed": rnd.randint(0, 999)})
    else:
        for n in names:
            for draw in (0, 1, 2, 3):
                jobs.append({"name": n, "draw": draw, "data": "dense" if draw < 2 else rnd.choice(["sparse", "multi", "nonneg"]), "fitted": True,
                             "seed": rnd.randint(0, 999)})
            jobs.append({"name": n, "draw": 0, "data": "sparse", "fitted": True, "seed": rnd.randint(0, 999)})
            jobs.append({"name": n, "draw": rnd.randint(0, 3), "data": "dense", "fitted": False, "seed": rnd.randint(0, 999)})
        for k in COMPOSITIONS:
            for _ in range(8):
                jobs.append({"comp": k, "data": "dense", "fitted": rnd.random() < 0.9, "seed": rnd.randint(0, 9999)})
    return jobs


def run_chunk(chunk):
    """a worker that dies (segfault in compiled code fed a wrongly restored state, timeout) is an observation:
    its jobs are re-run one per process and the one that dies is reported"""
    if not chunk:
        return []
    try:
        return impl("estimators", {"jobs": chunk})
    except Exception:
        out = []
        for job in chunk:
            try:
                out += impl("estimators", {"jobs": [job]}, timeout=600)
            except Exception as e:  # noqa
                out.append({"job": job, "crash": str(e)[-400:]})
        return out


def run_jobs(jobs, nworkers):
    # cheap round-robin: heavy estimators are spread over the workers
    chunks = [jobs[i::nworkers] for i in range(nworkers)]
    with ThreadPoolExecutor(nworkers) as ex:
        res = list(ex.map(run_chunk, chunks))
    out = [None] * len(jobs)
    for w, rs in enumerate(res):
        for j, r in enumerate(rs):
            out[w + j * nworkers] = r
    return out


def label(job):
    return job.get("name") or ("comp:" + job["comp"])


def oracle(rec):
    """C07's statement on the implementation alone -> [(sig, what)]"""
    out = []
    job = rec["job"]
    who = label(job)
    if "crash" in rec:
        return [({"kind": "crash", "estimator": who}, f"the worker process died while round-tripping / using {who}: {rec['crash'][-200:]}")]
    if "skipped" in rec or "harness_error" in rec:
        return out
    if rec.get("dump") != "ok":
        return [({"kind": "dump-fails", "estimator": who}, f"dumps({who}) raises although the class is not in skops' UNSUPPORTED_TYPES: {rec.get('dump')}")]
    if rec.get("load") != "ok":
        return [({"kind": "load-fails", "estimator": who}, f"loads(dumps({who}), trusted=get_untrusted_types) fails: {rec.get('load')}")]
    if not rec["class_same"]:
        out.append(({"kind": "class-differs", "estimator": who}, "loaded object has another class"))
    if rec["params_same"] is not True:
        out.append(({"kind": "params-differ", "estimator": who}, f"get_params(deep=True) differs: {rec.get('params_diff') or rec['params_same']}"))
    if rec["state_diffs"] or not rec["whole_same"]:
        out.append(({"kind": "state-differs", "estimator": who}, f"fitted attributes differ under abs: {rec['state_diffs'][:3]}"))
    for m, v in rec.get("methods", {}).items():
        if v.startswith("DIFF"):
            if m in (rec.get("layout_only") or {}):
                out.append(({"kind": "output-differs", "cause": "non-contiguous-array-attribute"},
                            f"{who}.{m} on held-out input differs in the last bits; {rec['layout_only'][m]} is a strided view that np.save stores contiguous "
                            f"(a copy.deepcopy of the original gives the loaded estimator's output bit for bit): {v[:160]}"))
            else:
                out.append(({"kind": "output-differs", "estimator": who, "method": m}, f"{m} on held-out input is not bit-identical: {v[:200]}"))
    for name, tag in (rec.get("gut_tags") or {}).items():
        if tag == "scipy_sparse":
            out.append(({"kind": "untrusted-by-default", "family": "scipy.sparse", "sort": "array" if name.endswith("_array") else "matrix"},
                        f"{who}: get_untrusted_types reports {name} although sparse matrices are a default-trusted family"))
        elif tag in DOCUMENTED_FAMILIES:
            out.append(({"kind": "untrusted-by-default", "family": tag, "name": name},
                        f"{who}: get_untrusted_types reports {name}, a member of the default-trusted family {tag}"))
    if not rec.get("gut") and rec.get("load_without_trusted") != "ok":
        out.append(({"kind": "load-fails", "estimator": who, "without_trusted": True},
                    f"get_untrusted_types is empty but loads(data) without a trusted list gives {rec.get('load_without_trusted')}"))
    return out


def model_fragment(R, snap, jobs, recs):
    """The codec model on the swept estimators: each estimator the sweep loaded is rebuilt exactly as the sweep built it
    (values.build_estjob), abstracted to a `pval` term (pval_emit: PObj class-name OKState __getstate__() ...; Unmodelled for what
    skops dispatches to TreeNode / LossNode / unsupported), and the model is evaluated by vm_compute: normalised schema and
    loaded value vs the implementation (a disagreement is an obligation broken, as in C04 / C05), `supported`, c05_guard (= inside
    C07_estimator_roundtrip / C07_state_fidelity_partial), and whether the model's round trip is exact / the same value."""
    from props import c05 as K
    todo = [job for job, r in zip(jobs, recs) if r and not any(k in r for k in ("skipped", "crash", "harness_error")) and r.get("load") == "ok"]
    cap = 400       # thorough tier: the sweep has several thousand jobs; the model is evaluated on an evenly spaced subset of them
    if len(todo) > cap:
        step = -(-len(todo) // cap)
        todo = todo[::step]
    specs = [["estjob", job] for job in todo]
    if not specs:
        return
    crecs = K.run_impl_codec(specs, {"protocol": snap["protocol"], "cycles": 0})
    bad, flags, idx = K.model_compare(R, crecs, "c07", flags=["c05_case_supported", K.PROVED, K.EXACT, K.SAME], shard=8)
    pos = {i: j for j, i in enumerate(idx)}
    inside, outside, unmodelled, not_built = [], {}, {}, []
    nsup = nexact = nsame = 0
    for i, (job, cr) in enumerate(zip(todo, crecs)):
        who = label(job)
        if cr is None or cr.get("build") != "ok":
            not_built.append(who)
            continue
        if not cr.get("term"):
            unmodelled.setdefault(cr.get("skip") or "?", []).append(who)
            R.count("model:unmodelled")
            continue
        j = pos[i]

        def fl(name):
            return bool(flags[name][j]) if j < len(flags[name]) else False
        sup, pr, ex, same = fl("c05_case_supported"), fl(K.PROVED), fl(K.EXACT), fl(K.SAME)
        nsup += sup
        nexact += ex
        nsame += same
        if pr:
            inside.append(who)
            R.count("model:inside-theorem")
            if not ex:
                R.obligation_broken("C07 guard vs model", f"c05_guard holds of the abstraction of {who} ({json.dumps(job)}) but the model's loads(dumps(v)) is not v")
        else:
            why = "not-supported" if not sup else "supported-but-outside-guard (an object met twice whose __getstate__() dicts differ per visit, or labels)"
            outside.setdefault(why, []).append(who)
            R.count("model:outside-theorem")
        if sup and not same:
            R.obligation_broken("C07 model round trip", f"the model's loads(dumps(v)) differs from v for the supported abstraction of {who} ({json.dumps(job)})")
        if not (cr.get("dump", "").startswith("ok:") and cr.get("load", "").startswith("ok:") and cr.get("same")):
            # the sweep already reports it through its own oracle; here it is an observation about the abstraction
            R.count("model:impl-abstraction-differs")
    nmod = len(idx)
    R.notes["model_fragment"] = (f"{len(inside)}/{len(todo)} swept estimators (jobs that loaded) lie inside C07_estimator_roundtrip / C07_state_fidelity_partial "
                                 f"(abstraction modelled AND c05_guard, evaluated by vm_compute); modelled {nmod} (supported {nsup}, model round trip exact for {nexact}, "
                                 f"same value for {nsame}); not modelled {sum(len(v) for v in unmodelled.values())}; rebuilt differently / not built {len(not_built)}")
    R.notes["model_inside"] = sorted(set(inside))
    R.notes["model_outside"] = {k: sorted(set(v)) for k, v in sorted(outside.items())}
    R.notes["model_unmodelled"] = {k: sorted(set(v)) for k, v in sorted(unmodelled.items())}
    if not_built:
        R.notes["model_not_built"] = sorted(set(not_built))
    K.report_mismatches(R, "C07", specs, crecs, bad)


def run(R, only=None):
    snap = R.snapshot()
    R.trusted_base += ["Coq 8.16.1 kernel + vm_compute (no native_compute)",
                       "harness/snapshot.py (default-trusted lists of the node classes, registry)",
                       "scikit-learn 1.9.1 / numpy / scipy as installed: estimator code is an oracle (method_pure is a premise, exercised by the bitwise tests)",
                       "harness/impl_estimators.py (data, parameter draws from _parameter_constraints, fit fallbacks), harness/absval.py (abs), harness/families.py",
                       "harness/pval_emit.py + harness/values.py:build_estjob + harness/impl_codec.py (estimator -> pval term; schema / loaded value vs the codec model)"]
    R.assumptions += ["C07_reduction premises: method_pure (outputs depend on class and state only, up to value-isomorphism), resolve_name (class importable "
                      "under its saved name), codec (C05 round trip of states: a THEOREM on the fragment, C07_codec_premise_on_fragment), the classes' own "
                      "__getstate__/__setstate__/__reduce__ contract",
                      "an estimator is abstracted to its class name and the state __getstate__() hands out (harness/pval_emit.py); Tree / loss objects (TreeNode, "
                      "LossNode: constructor arguments AND state) are outside the value model: estimators holding them are covered by C07_reduction_reduce's "
                      "hypotheses and the sweep only",
                      "bit-identical outputs are TESTED on the installed BLAS/Cython build on tiny data, not proved",
                      "a method whose two loaded copies disagree with each other (RNG consumed at predict time) is reported as impure and not compared",
                      "'made only of default-trusted parts' = every reported name belongs to a documented default family (families.py); estimators with private "
                      "helper classes outside those families (KDTree, kernels, Bunch, ...) need a trusted list and are listed under needs_trusted"]
    if snap is not None:
        R.prove("C07")
    if only:
        jobs = only
    else:
        names = impl("names", {})
        jobs = make_jobs(R, names) + [dict(j) for j in PROBE_JOBS]
    recs = run_jobs(jobs, 14 if len(jobs) > 14 else max(1, len(jobs)))
    skipped, needs, impure, hist = [], {}, [], {}
    nmeth = 0
    for job, r in zip(jobs, recs):
        who = label(job)
        if r is None or "harness_error" in r:
            R.obligation_broken("harness exception in impl_estimators", json.dumps(r)[:800])
            continue
        if "crash" in r:
            R.case({"job": job}, nontrivial=True)
            for sig, what in oracle(r):
                R.violation(sig, what, {"job": job, "observed": r})
            continue
        if "skipped" in r:
            skipped.append({"estimator": who, "draw": job.get("draw"), "data": job.get("data"), "reason": r["skipped"]})
            R.count("skipped")
            R.case({"job": job}, nontrivial=False)
            continue
        R.case({"job": job, "class": r.get("class"), "params": r.get("params")}, nontrivial=r.get("load") == "ok")
        R.count("fitted" if job.get("fitted", True) else "unfitted")
        R.count("data:" + job.get("data", "dense"))
        R.count("fit-how:" + str(r.get("fit")))
        R.count("kind:" + ("composition" if job.get("comp") else "estimator"))
        for m, v in r.get("methods", {}).items():
            nmeth += 1
            R.count("method:" + m + ":" + v.split(":")[0])
            if v == "not-a-function-of-state":
                impure.append(f"{who}.{m}")
        for name, tag in (r.get("gut_tags") or {}).items():
            if tag not in DOCUMENTED_FAMILIES:
                needs.setdefault(who, set()).add(name)
        if r.get("f_ordered_attrs"):
            R.count("has-fortran-ordered-attribute")
        for sig, what in oracle(r):
            R.violation(sig, what, {"job": job, "observed": {k: v for k, v in r.items() if k != "job"}})
    for job, r in list(zip(jobs, recs))[:3]:
        if r and "skipped" not in r:
            R.sample({"job": job, "class": r.get("class"), "untrusted": r.get("gut"), "methods": r.get("methods"), "attributes": r.get("attrs"),
                      "state_diffs": r.get("state_diffs")})
    R.notes["rule"] = ("all_estimators() subset (rotating with the seed; anchors always) x parameter draws from _parameter_constraints x "
                       "dense/sparse/multi-output/non-negative data, fitted and unfitted, + generated compositions; dumps -> get_untrusted_types -> "
                       "loads(trusted=that): class, get_params(deep) and every attribute via abs, method outputs bitwise on held-out input; "
                       "non-trivial = loaded; distinct = distinct (job, class, drawn parameters)")
    R.notes["skipped"] = skipped
    R.notes["needs_trusted"] = {k: sorted(v) for k, v in sorted(needs.items())}
    R.notes["impure_methods"] = sorted(set(impure))
    R.notes["method_outputs_compared"] = nmeth
    R.notes["guards"] = ["C07_reduction: premises method_pure, resolve_name, codec (C05), getset_contract / reduce_contract",
                         "C07_estimator_roundtrip / C07_codec_premise_on_fragment / C07_state_fidelity_partial: the codec premise is discharged for every state "
                         "with c05_guard (class name resolvable, no hidden payload; state in the C05 fragment; one label = one object; depth below the fuel); "
                         "premises left: resolve_name, the class's pickle contract, method_pure",
                         "C07_sparse_default_trusted: per-run, the concrete sparse matrix classes are defaults of SparseMatrixNode (D12 repaired)"]
    R.notes["not_modelled"] = ["numerical code of scikit-learn/BLAS (oracle)", "state outside __getstate__/__dict__/__reduce__", "other scikit-learn versions"]
    if snap is not None:
        model_fragment(R, snap, jobs, recs)
    if not only:
        pr = impl("probe", {})
        R.notes["probe_D12"] = pr
        for k, names_ in pr.items():
            for n in names_:
                if n.startswith("scipy.sparse"):
                    R.violation({"kind": "untrusted-by-default", "family": "scipy.sparse", "sort": "array" if n.endswith("_array") else "matrix"},
                                f"{k}: get_untrusted_types reports {n} although sparse matrices are a default-trusted family", {"probe": k})


def replay(R, rep):
    rp = rep["replay"]
    if "job" in rp:
        run(R, only=[rp["job"]])
    else:
        run(R)
