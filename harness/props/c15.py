"""C15 -- parsing a pandoc document yields a card with the same outline and content.

prove      coq/props/C15.v  (theorems over the model in coq/card/Markup.v, Parser.v, ParserCard.v)
correspond generated pandoc JSON trees -> PandocParser(json).generate() vs Parser.generate, and
           sequences of Markdown()(item) calls on ONE instance vs Markup.md_seq
probes     the fixed witness of every open finding (D20) is replayed against the implementation
search     the property's own oracle (independent of the model) on the implementation
"""
from __future__ import annotations

import json
import os
import random
import sys

import common as C
from props.c08 import parse_mismatches

# ----------------------------------------------------------------------------------------------
# pandoc JSON constructors
ATTR0 = ["", [], []]


def Str(t): return {"t": "Str", "c": t}
def Space(): return {"t": "Space"}
def Para(xs): return {"t": "Para", "c": xs}
def Plain(xs): return {"t": "Plain", "c": xs}
def Header(l, xs, attr=None): return {"t": "Header", "c": [l, attr or ["", [], []], xs]}


INLINE_TYPES = ["Str", "Space", "SoftBreak", "LineBreak", "Emph", "Strong", "Strikeout", "Code", "RawInline",
                "Link", "Image", "Quoted"]
BLOCK_TYPES = ["Plain", "Para", "Header", "CodeBlock", "RawBlock", "BlockQuote", "BulletList", "OrderedList",
               "Div", "Table", "Figure"]
SUPPORTED = sorted(set(INLINE_TYPES + BLOCK_TYPES))          # == keys of Markdown().mapping (checked in run)
UNSUP_INLINE = ["Underline", "SmallCaps", "Superscript", "Subscript"]
UNSUP_BLOCK = ["HorizontalRule", "Null"]

WORDS_FREE = ["a", "b", "word", "two words", "In/Out", "x/y/z", "/", "back\\", "mid\\dle", "\\/", "a\\/b", " pad ",
              "\x1fus", "tr\x1f", "", "☒", "- ☒ done", "- ☐ todo", "nb\xa0sp", "\xe9t\xe9", "λx",
              "tab\there", "line\nbreak", "#", "> q", "- item", "1.", "None", "`", "*", "_", "[", "](", "中", "\U0001f600"]
# table cells: single-width characters only, no tab / line separators (see Markup.v, pretty_md)
WORDS_CELL = ["a", "b", "word", "two words", "In/Out", "back\\", " pad ", "", "\xe9t\xe9", "λx", "Ж", "None", "|",
              "-", ":-:", "x" * 7, "<br />", "#", "- ☒"]
TITLES = ["A", "B", "C", "In/Out", "a/b/c", "/", "x\\", "\\/", "a\\/b", " pad", "pad ", " ", "\x1f", "u\x1fs", "", "A B", "\xdcn\xef",
          "- ☒", "nb\xa0sp", "#"]


class Gen:
    """Seeded generator of pandoc JSON trees; counts every element type it emits."""

    def __init__(self, rnd: random.Random, err_rate=0.012):
        self.r = rnd
        self.err = err_rate
        self.clean = False          # a clean document/element contains no deliberately failing part
        self.counts = {}

    def hit(self, k):
        self.counts[k] = self.counts.get(k, 0) + 1

    def attr(self, rich=0.3):
        r = self.r
        if r.random() > rich:
            return ["", [], []]
        return [r.choice(["", "id1", "x y"]), r.sample(["c1", "c2", "python", "language-r"], r.randint(0, 3)),
                [[k, r.choice(["", "v", "1 2"])] for k in r.sample(["hidden", "k", "data-x"], r.randint(0, 2))]]

    def word(self, ctx):
        return self.r.choice(WORDS_FREE if ctx == "free" else
                             [w for w in WORDS_CELL] if ctx == "cell" else [w for w in WORDS_CELL if "\n" not in w])

    # ------------------------------------------------------------------ inlines
    def inlines(self, depth, ctx, lo=0, hi=4):
        return [self.inline(depth, ctx) for _ in range(self.r.randint(lo, hi))]

    def inline(self, depth, ctx):
        r = self.r
        if not self.clean and r.random() < self.err:
            t = r.choice(UNSUP_INLINE)
            self.hit("unsupported-inline:" + t)
            return {"t": t, "c": self.inlines(depth - 1, ctx, 0, 3) if depth > 0 else []}
        simple = ["Str"] * 5 + ["Space"] * 3 + ["Code", "RawInline"] + ([] if ctx == "hcell" else ["SoftBreak", "LineBreak"])
        nested = ["Emph", "Strong", "Strikeout", "Link", "Image", "Quoted"]
        t = r.choice(simple + (nested if depth > 0 else []))
        self.hit(t)
        if t == "Str":
            return Str(self.word(ctx))
        if t in ("Space", "SoftBreak", "LineBreak"):
            return {"t": t}
        if t == "Code":
            return {"t": t, "c": [self.attr(0.1), self.word(ctx)]}
        if t == "RawInline":
            return {"t": t, "c": [r.choice(["html", "tex"]), r.choice(["<br>", "<b>x</b>", ""]) if ctx != "free" else
                                  r.choice(["<br>", "<b>x</b>", "", "<!-- c\n-->"])]}
        if t in ("Emph", "Strong", "Strikeout"):
            return {"t": t, "c": self.inlines(depth - 1, ctx, 0, 3)}
        if t == "Link":
            return {"t": t, "c": [self.attr(0.1), self.inlines(depth - 1, ctx, 0, 3), [r.choice(["http://x.y/z", "", "a b"]), r.choice(["", "title"])]]}
        if t == "Image":
            bad = not self.clean and r.random() < 0.08
            cap = [] if (bad and r.random() < 0.5) else self.inlines(depth - 1, ctx, 1, 3)
            title = r.choice(["", "a title", "fig"]) if (bad and cap) else r.choice(["fig:", "fig:cap"])
            return {"t": t, "c": [self.attr(0.1), cap, [r.choice(["fig.png", "p/q.png"]), title]]}
        if t == "Quoted":
            q = "NoQuote" if (not self.clean and r.random() < 0.03) else r.choice(["SingleQuote", "DoubleQuote"])
            return {"t": t, "c": [{"t": q}, self.inlines(depth - 1, ctx, 0, 3)]}
        raise AssertionError(t)

    # ------------------------------------------------------------------- blocks
    def blocks(self, depth, ctx, lo=0, hi=3):
        return [self.block(depth, ctx) for _ in range(self.r.randint(lo, hi))]

    def block(self, depth, ctx, top=False):
        r = self.r
        if not self.clean and r.random() < self.err:
            t = r.choice(UNSUP_BLOCK)
            self.hit("unsupported-block:" + t)
            return {"t": t}
        simple = ["Para"] * 4 + ["Plain"] * 2 + ["RawBlock"] + ([] if top else ["Header"])
        multi = [] if ctx == "hcell" else ["CodeBlock"]
        nested = ["Div"] + ([] if ctx == "hcell" else ["BlockQuote", "BulletList", "BulletList", "OrderedList", "OrderedList", "Table", "Table", "Figure"])
        t = r.choice(simple + multi + (nested if depth > 0 else []))
        self.hit(t)
        if t in ("Para", "Plain"):
            return {"t": t, "c": self.inlines(2, ctx, 0, 5)}
        if t == "Header":
            return Header(r.randint(1, 6), self.inlines(1, ctx, 0, 3), self.attr())
        if t == "RawBlock":
            return {"t": t, "c": ["html", r.choice(["<hr>", "<p>x</p>", ""]) if ctx == "hcell" else r.choice(["<hr>", "<p>\nx\n</p>", ""])]}
        if t == "CodeBlock":
            return {"t": t, "c": [self.attr(0.6), r.choice(["x = 1", "a\n  b\n", "", "```"])]}
        if t == "BlockQuote":
            return {"t": t, "c": self.blocks(depth - 1, ctx, 0, 3)}
        if t == "BulletList":
            return {"t": t, "c": [self.blocks(depth - 1, ctx, 0, 3) for _ in range(r.randint(0, 3))]}
        if t == "OrderedList":
            start = r.choice([1, 1, 1, 0, 3, 9, 10, 99, -2])
            return {"t": t, "c": [[start, {"t": r.choice(["Decimal", "DefaultStyle", "LowerAlpha"])}, {"t": r.choice(["Period", "OneParen"])}],
                                  [self.blocks(depth - 1, ctx, 0, 3) for _ in range(r.randint(0, 3))]]}
        if t == "Div":
            return {"t": t, "c": [self.attr(0.7), self.blocks(depth - 1, ctx, 0, 3)]}
        if t == "Figure":
            return self.figure(depth, ctx)
        if t == "Table":
            return self.table(depth, ctx)
        raise AssertionError(t)

    def figure(self, depth, ctx):
        r = self.r
        k = 0 if self.clean else r.random()
        if k < 0.55:
            self.hit("Figure:image")
            img = {"t": "Image", "c": [self.attr(0.1), self.inlines(1, ctx, 1, 3), ["f.png", r.choice(["", "fig:", "t"])]]}
            body = [Plain([img] + self.inlines(1, ctx, 0, 2))]
        elif k < 0.8:
            self.hit("Figure:other-first-inline")
            body = [Plain(self.inlines(2, ctx, 0, 3))]
        elif k < 0.9:
            self.hit("Figure:not-plain")
            body = [self.block(depth - 1, ctx)]
        else:
            self.hit("Figure:arity")
            body = self.blocks(depth - 1, ctx, 0, 2) if r.random() < 0.5 else self.blocks(depth - 1, ctx, 2, 2)
        return {"t": "Figure", "c": [self.attr(0.2), [None, [Plain(self.inlines(1, ctx, 0, 2))]], body]}

    def cell_blocks(self, depth, ctx, n):
        sub = "hcell" if ctx == "hcell" else "cell"
        return [self.block(depth - 1, sub) for _ in range(n)]

    def table(self, depth, ctx):
        r = self.r
        ncols = r.choice([1, 1, 2, 2, 3] + ([] if self.clean else [0]))
        nrows = r.choice([0, 1, 2, 2, 3])
        ragged = (not self.clean or ncols > 1) and r.random() < 0.2
        align = {"t": "AlignDefault"}
        if r.random() < 0.5:
            self.hit("Table:old")
            heads = [self.cell_blocks(depth, "hcell", 1 if (self.clean or r.random() < 0.93) else r.choice([0, 2])) for _ in range(ncols)]
            if ncols > 1 and r.random() < 0.15:
                heads[-1] = json.loads(json.dumps(heads[0]))          # duplicate column name
            rows = [[self.cell_blocks(depth, ctx, r.choice([1, 1, 1, 0, 2])) for _ in range(ncols + (r.randint(-1, 1) if ragged else 0))]
                    for _ in range(nrows)]
            return {"t": "Table", "c": [self.inlines(1, ctx, 0, 2), [align] * ncols, [0] * ncols, heads, rows]}
        self.hit("Table:new")

        def cell(sub, n):
            return [self.attr(0.05), align, 1, 1, self.cell_blocks(depth, sub, n)]

        def row(sub, n):
            return [self.attr(0.05), [cell(sub, r.choice([1, 1, 1, 0, 2])) for _ in range(max(0, n))]]
        nh = 1 if (self.clean or r.random() < 0.9) else r.choice([0, 2])
        hrows = [row("hcell", ncols) for _ in range(nh)]
        if nh and ncols > 1 and r.random() < 0.15:
            hrows[0][1][-1] = json.loads(json.dumps(hrows[0][1][0]))
        nb = 1 if (self.clean or r.random() < 0.9) else r.choice([0, 2])
        bodies = [[self.attr(0.05), 0, [row("hcell", ncols)] if r.random() < 0.1 else [],
                   [row(ctx, ncols + (r.randint(-1, 1) if ragged else 0)) for _ in range(nrows)]] for _ in range(nb)]
        return {"t": "Table", "c": [self.attr(0.1), [None, []], [[align, {"t": "ColWidthDefault"}]] * ncols,
                                    [self.attr(0.05), hrows], bodies, [self.attr(0.05), []]]}

    # ---------------------------------------------------------------- documents
    def title_inlines(self):
        r = self.r
        t = r.choice(TITLES)
        k = r.random()
        if k < 0.7:
            return [Str(t)]
        if k < 0.8:
            return [Str(t), Space(), {"t": "Emph", "c": [Str("e")]}]
        if k < 0.9:
            return [{"t": "Code", "c": [ATTR0, t]}]
        return self.inlines(1, "free", 0, 3)

    def levels(self, n):
        r = self.r
        style = r.choice(["regular", "regular", "jumpy", "deep-first", "weird"])
        self.hit("levels:" + style)
        out, cur = [], 0
        for i in range(n):
            if style == "regular":
                cur = r.randint(1, min(cur + 1, 6))
            elif style == "jumpy":
                cur = r.randint(1, 6)
            elif style == "deep-first":
                cur = r.randint(2, 4) if i == 0 else r.randint(1, 5)
            else:
                cur = r.choice([0, -1, 1, 2, 3, 7, 100])
            out.append(cur)
        return out

    def document(self):
        r = self.r
        self.clean = r.random() < 0.6
        self.hit("doc:clean" if self.clean else "doc:with-failing-parts-allowed")
        nh = r.choice([0, 1, 2, 3, 4, 5, 6, 8]) if not self.clean else r.choice([1, 2, 3, 4, 5, 6, 8])
        blocks = []
        if not self.clean and (r.random() < 0.1 or nh == 0):
            blocks += [self.block(2, "free", top=True) for _ in range(r.randint(0 if nh else 0, 2))]
            self.hit("doc:content-before-first-header")
        for lvl in self.levels(nh):
            self.hit("Header")
            blocks.append(Header(lvl, self.title_inlines(), self.attr()))
            blocks += [self.block(3, "free", top=True) for _ in range(r.choice([0, 1, 1, 2, 3]))]
        return blocks

    def element(self):
        """one argument for Markdown.__call__: a block or an inline"""
        self.clean = self.r.random() < 0.6
        if self.r.random() < 0.3:
            return self.inline(2, "free")
        return self.block(3, "free")


def count_types(j, acc):
    if isinstance(j, dict) and "t" in j:
        acc[j["t"]] = acc.get(j["t"], 0) + 1
        count_types(j.get("c"), acc)
    elif isinstance(j, list):
        for x in j:
            count_types(x, acc)


# ----------------------------------------------------------------------------------------------
# pandoc JSON -> Coq term (Markup.v)
def cstr(t: str) -> str:
    """pstr literal; printable-ASCII runs as (s "..."), the rest as code point lists"""
    if not t:
        return "(@nil N)"
    runs, cur, kind = [], "", None
    for ch in t:
        k = 32 <= ord(ch) < 127 and ch != '"'
        if k != kind and cur:
            runs.append((kind, cur))
            cur = ""
        kind, cur = k, cur + ch
    runs.append((kind, cur))
    parts = [f'(s "{x}")' if k else "[" + ";".join(str(ord(c)) for c in x) + "]" for k, x in runs]
    return parts[0] if len(parts) == 1 else "(" + " ++ ".join(parts) + ")"


def c_attr(a):
    ident, classes, kvs = a
    return (f"({cstr(ident)}, {C.clist(map(cstr, classes), 'pstr')}, "
            f"{C.clist((f'({cstr(k)}, {cstr(v)})' for k, v in kvs), '(pstr * pstr)')})")


def c_inlines(xs):
    return C.clist(map(c_inline, xs), "inline")


def c_inline(j):
    t, c = j["t"], j.get("c")
    if t == "Str":
        return f"(Str {cstr(c)})"
    if t in ("Space", "SoftBreak", "LineBreak"):
        return t
    if t in ("Emph", "Strong", "Strikeout"):
        return f"({t} {c_inlines(c)})"
    if t == "Code":
        return f"(Code {c_attr(c[0])} {cstr(c[1])})"
    if t == "RawInline":
        return f"(RawInline {cstr(c[0])} {cstr(c[1])})"
    if t in ("Link", "Image"):
        return f"({t} {c_attr(c[0])} {c_inlines(c[1])} {cstr(c[2][0])} {cstr(c[2][1])})"
    if t == "Quoted":
        q = {"SingleQuote": "QSingle", "DoubleQuote": "QDouble"}.get(c[0]["t"], f"(QOther {cstr(c[0]['t'])})")
        return f"(Quoted {q} {c_inlines(c[1])})"
    if t in UNSUP_INLINE:
        return f"(IUnsup {cstr(t)} {c_inlines(c)})"
    raise ValueError("no model constructor for inline " + t)


def c_blocks(bs):
    return C.clist(map(c_block, bs), "block")


def c_cells(cells):
    return C.clist(map(c_blocks, cells), "(list block)")


def c_rows(rows):
    return C.clist(map(c_cells, rows), "(list (list block))")


def c_block(j):
    t, c = j["t"], j.get("c")
    if t in ("Plain", "Para"):
        return f"({t} {c_inlines(c)})"
    if t == "Header":
        return f"(Header {C.cz(c[0])} {c_attr(c[1])} {c_inlines(c[2])})"
    if t == "CodeBlock":
        return f"(CodeBlock {c_attr(c[0])} {cstr(c[1])})"
    if t == "RawBlock":
        return f"(RawBlock {cstr(c[0])} {cstr(c[1])})"
    if t == "BlockQuote":
        return f"(BlockQuote {c_blocks(c)})"
    if t == "BulletList":
        return f"(BulletList {c_cells(c)})"
    if t == "OrderedList":
        return f"(OrderedList {C.cz(c[0][0])} {c_cells(c[1])})"
    if t == "Div":
        return f"(Div {c_attr(c[0])} {c_blocks(c[1])})"
    if t == "Figure":
        return f"(Figure {c_attr(c[0])} {c_blocks(c[2])})"
    if t == "Table":
        if len(c) == 6:
            hrows = [[cell[4] for cell in row[1]] for row in c[3][1]]
            bodies = [[[cell[4] for cell in row[1]] for row in body[3]] for body in c[4]]
            return f"(TableNew {c_rows(hrows)} {C.clist(map(c_rows, bodies), '(list (list (list block)))')})"
        return f"(TableOld {c_cells(c[3])} {c_rows(c[4])})"
    if t in UNSUP_BLOCK:
        return f"(BUnsup {cstr(t)})"
    raise ValueError("no model constructor for block " + t)


def c_elem(j):
    if j["t"] in INLINE_TYPES or j["t"] in UNSUP_INLINE:
        return f"(EI {c_inline(j)})"
    return f"(EB {c_block(j)})"


HEADER = "From Skv Require Import PyStr Json Corr Markup ParserCard Parser.\nOpen Scope N_scope.\n"


def model_mismatches(R, name, ty, show, terms_and_obs, shard=40, trunc=400):
    """Write Cases_<name>_<i>.v shards, compile them in parallel, return [(index, model text)]."""
    files, offs = [], []
    for i in range(0, len(terms_and_obs), shard):
        chunk = terms_and_obs[i:i + shard]
        body = (HEADER + f"Definition cases : list ({ty} * pstr) := " +
                C.clist((f"({t}, {cstr(o)})" for t, o in chunk), f"({ty} * pstr)") + ".\n" +
                f"Eval vm_compute in mismatches_trunc {trunc} {show} cases.\n")
        f = R.gen / f"Cases_{name}_{i // shard}.v"
        f.write_text(body)
        files.append(f)
        offs.append(i)
    outs = C.coqc_many(files, R.gen, timeout=900)
    bad = []
    for f, off in zip(files, offs):
        bad += [(off + idx, txt) for idx, txt in parse_mismatches(outs[f])]
    R.checker_cmds.append(f"coqc Cases_{name}_*.v ({len(files)} shards): Eval vm_compute in mismatches_trunc {trunc} {show} cases")
    return bad


# ----------------------------------------------------------------------------------------------
# the property's own oracle (no model): DESIGN C15 statement on the implementation's observations
def spec_paths(headers):
    """headers: [(level, title)] -> for each header the titles from its outermost ancestor down to itself,
    the parent being the nearest preceding header of lower level"""
    out = []
    for i, (lvl, t) in enumerate(headers):
        path, cur = [t], lvl
        for j in range(i - 1, -1, -1):
            if headers[j][0] < cur:
                path.append(headers[j][1])
                cur = headers[j][0]
        out.append(path[::-1])
    return out


def oracle_check(blocks, obs):
    """Return a list of (sig, what) the implementation's observations violate."""
    bad = []
    texts = obs["texts"]
    if obs["used_trace"]:
        bad.append(({"kind": "history", "detail": "indent-trace-leak"}, f"_indent_trace is {obs['used_trace']} after a conversion that raised"))
    for b, t in zip(blocks, texts):
        if t["fresh"] != t["used"]:
            bad.append(({"kind": "history", "type": b["t"]},
                        f"Markdown()(item) depends on what was converted before: fresh={t['fresh']!r} used={t['used']!r}"))
            break
    failing = [t for t in texts if isinstance(t["fresh"], dict)]
    # supported elements, of a shape pandoc does emit, that the converter rejects (D27, D28)
    for c in obs.get("culprits", []):
        n = c["node"]
        if c["t"] == "Image":
            bad.append(({"kind": "rejects-supported-element", "element": "Image", "error": c["error"]},
                        f"an Image with title {n['c'][2][1]!r} and {len(n['c'][1])} caption inlines is rejected ({c['error']})"))
        elif c["t"] == "Table" and c["error"] in ("EOther", "EValue"):
            cc = n["c"]
            headerless = (len(cc) == 6 and cc[3][1] == [] and cc[4]) or (len(cc) == 5 and cc[3] and all(h == [] for h in cc[3]))
            if headerless:
                bad.append(({"kind": "rejects-supported-element", "element": "Table-without-header", "error": c["error"]},
                            f"a table without header row is rejected ({c['error']})"))
    heads = [(b["c"][0], t["fresh"]) for b, t in zip(blocks, texts) if b["t"] == "Header" and not isinstance(t["fresh"], dict)]
    leading = bool(blocks) and blocks[0]["t"] != "Header"
    if failing or leading:
        return bad                      # the statement is about documents of supported elements that start with a header
    if "error" in obs:
        bad.append(({"kind": "total", "error": obs["error"]}, "generate raised on a document of convertible elements"))
        return bad
    want = spec_paths(heads)
    dup = len({tuple(p) for p in want}) != len(want)
    kind = "duplicate-sibling-heading" if dup else None
    got = [p for p, _ in obs["sections"]]
    if got != want:
        bad.append(({"kind": kind or "outline"}, f"outline {got} but the headers ask for {want}"))
    # contents
    per, i = [], -1
    for b, t in zip(blocks, texts):
        if b["t"] == "Header":
            per.append([])
        else:
            per[-1].append(t["fresh"])
    contents = dict()
    for p, ts in zip(want, per):
        acc = ""
        for t in ts:
            acc = t if not acc else acc + "\n\n" + t
        contents.setdefault(tuple(p), []).append(acc)
    have = {tuple(p): c for p, c in obs["sections"]}
    for p, accs in contents.items():
        if len(accs) > 1 or have.get(p) != accs[0]:
            lost = [a for a in accs if a and a not in (have.get(p) or "")]
            bad.append(({"kind": kind or "content", "lost": bool(lost)},
                        f"section {list(p)} has content {have.get(p)!r}; the blocks following its header(s) give {accs}"))
            break
    # rendering reproduces the outline
    if not dup:
        y = obs["yielded"]
        heads_r = y[0::2]
        exp = ["#" * len(p) + " " + p[-1] for p in want]
        if heads_r != exp:
            bad.append(({"kind": "render-outline"}, f"rendered headings {heads_r} but expected {exp}"))
        exp_toc = "\n".join("  " * (len(p) - 1) + "- " + p[-1] for p in want)
        if obs["toc"] != exp_toc:
            bad.append(({"kind": "toc"}, f"toc {obs['toc']!r} expected {exp_toc!r}"))
    return bad


D27_WITNESS = [Header(1, [Str("T")]), Para([Str("build"), Space(), {"t": "Image", "c": [["", [], []], [Str("badge")], ["https://x/y.svg", ""]]}])]
_CELL = lambda t: [["", [], []], {"t": "AlignDefault"}, 1, 1, [Plain([Str(t)])]]          # noqa: E731
D28_WITNESS = [Header(1, [Str("T")]),
               {"t": "Table", "c": [["", [], []], [None, []], [[{"t": "AlignDefault"}, {"t": "ColWidthDefault"}]] * 2, [["", [], []], []],
                                    [[["", [], []], 0, [], [[["", [], []], [_CELL("a"), _CELL("b")]]]]], [["", [], []], []]]}]
D20_WITNESS = [Header(1, [Str("A")]), Para([Str("a1")]), Header(1, [Str("B")]), Header(1, [Str("A")]), Para([Str("a2")])]
# witnesses of the defects that are fixed in the tree under test (they must stay fixed)
FIXED_WITNESSES = {
    "D18": [Header(1, [Str("In/Out")]), Para([Str("x")]), Header(2, [Str(" pad ")]), Header(2, [Str("bs\\")]), Header(3, [Str("child")])],
    "D19": [Header(2, [Str("A")]), Header(3, [Str("B")]), Header(3, [Str("C")]), Header(1, [Str("D")]), Header(3, [Str("E")]), Header(3, [Str("F")])],
    "D21": [Header(1, [Str("A")]), {"t": "BulletList", "c": [[Para([Str("x")])]]}],
    "D27": D27_WITNESS,
}


def run_oracle(R, docs, label):
    p = C.run_impl("impl_parser.py", input_obj={"mode": "oracle", "cases": docs})
    if p.returncode != 0:
        R.obligation_broken("oracle runner", p.stderr.decode(errors="replace")[-1500:])
        return 0
    n = 0
    for blocks, obs in zip(docs, json.loads(p.stdout)):
        for sig, what in oracle_check(blocks, obs):
            n += 1
            R.violation(sig, what, {"mode": "oracle", "label": label, "blocks": blocks})
    return n


# ----------------------------------------------------------------------------------------------
def run(R, only=None):
    R.trusted_base += [
        "Coq 8.16.1 kernel + vm_compute (no native_compute)",
        "harness/props/c15.py: generator of pandoc JSON, JSON -> Coq term translation (c_block/c_inline), canonical texts",
        "harness/impl_parser.py: canonical text of a Card (toc, render, sections by dict walk, select cross-check), exception -> enum map",
        "PrettyTable 3.18 (TableStyle.MARKDOWN) + wcwidth are modelled (Markup.pretty_md) for single-width characters without tabs/line separators only; "
        "the theorems do not depend on that function",
    ]
    R.assumptions += [
        "a pandoc document is the typed tree of coq/card/Markup.v (what pandoc emits for the supported element types); JSON that is not of that shape is outside C15",
        "json.loads/json.dumps round trip of the source text is not modelled",
        "titles are compared as dict keys along the path; Card.select is cross-checked on the implementation side for every selectable path",
    ]
    R.notes["guards"] = [
        "C15_outline/C15_content/C15_render_outline: generate bs = Ok card /\\ NoDup (spec_paths bs)  (no two headers with the same title under the same parent: D20)",
        "C15_dup_refuted witness: # A, a1, # B, # A, a2  -- a1 is lost",
        "C15_generate_total_partial: Forall convertible bs /\\ starts_with_header bs; C15_generate_total_refuted witness: a new-layout table without header row (D28)",
        "D18, D19, D21, D27 are fixed in the tree under test (fix: commits); their former witnesses are theorems C15_slash_title_kept, C15_deep_first_siblings, "
        "C15_md_state_all, C15_inline_image_converts",
    ]
    R.notes["not_modelled"] = ["inline/block types outside Markup.v's constructors (Span, Math, Note, Cite, LineBlock, DefinitionList)",
                               "wcwidth display width of wide/zero-width/control characters inside table cells",
                               "str.expandtabs in table cells", "JSON documents that are not well-typed pandoc trees"]
    ok = R.prove("C15")
    big = R.tier == "thorough"
    rnd = random.Random(R.seed)
    g = Gen(rnd)

    # ---- (1) documents
    ndocs = 6000 if big else 420
    docs = [FIXED_WITNESSES["D18"], FIXED_WITNESSES["D19"], FIXED_WITNESSES["D21"], D20_WITNESS, D27_WITNESS, D28_WITNESS] + [g.document() for _ in range(ndocs)]
    # ---- (2) call sequences on one Markdown instance
    nseq = 1800 if big else 110
    failing_list = {"t": "BulletList", "c": [[Para([Str("x")]), {"t": "HorizontalRule"}]]}
    seqs = [[failing_list, {"t": "BulletList", "c": [[Para([Str("y")])]]}, {"t": "SoftBreak"}]]
    for _ in range(nseq):
        items = [g.element() for _ in range(rnd.randint(2, 8))]
        if rnd.random() < 0.5:
            items.insert(rnd.randrange(len(items)), json.loads(json.dumps(failing_list)))
        if rnd.random() < 0.5:       # the same element again later: must give the same text
            items.append(json.loads(json.dumps(rnd.choice(items))))
        seqs.append(items)

    bad_docs = bad_seqs = ()
    p = C.run_impl("impl_parser.py", input_obj={"mode": "docs", "cases": docs}, timeout=900)
    q = C.run_impl("impl_parser.py", input_obj={"mode": "seqs", "cases": seqs}, timeout=900)
    if p.returncode != 0 or q.returncode != 0:
        R.obligation_broken("correspondence C15", "implementation runner failed: " + (p.stderr + q.stderr).decode(errors="replace")[-1500:])
        return search(R, docs[:60], "runner-failed")
    obs_docs, obs_seqs = json.loads(p.stdout), json.loads(q.stdout)

    try:
        bad_docs = model_mismatches(R, "C15_docs", "list block", "show_generate", [(c_blocks(d), o) for d, o in zip(docs, obs_docs)])
        bad_seqs = model_mismatches(R, "C15_seqs", "list elem", "show_seq",
                                    [(C.clist(map(c_elem, sq), "elem"), o) for sq, o in zip(seqs, obs_seqs)])
    except C.CoqError as e:
        R.obligation_broken("correspondence C15 (model evaluation failed)", e.out[-1500:])
        return search(R, docs[:150], "model-evaluation-failed")

    # ---- evidence numbers (measured)
    types = {}
    for d, o in zip(docs, obs_docs):
        R.case(["doc", d, o], nontrivial=o.startswith("OK"))
        R.count("doc:" + (o.split("\x00")[0] if o.startswith("OK") else o))
        count_types(d, types)
    nconv = 0
    for sq, o in zip(seqs, obs_seqs):
        rs = o.split("\x00")[:-1]
        nconv += len(rs)
        for it, r1 in zip(sq, rs):
            R.case(["conv", it, r1], nontrivial=r1.startswith("OK"))
            R.count("conv:" + (r1[:2] if r1.startswith("OK") else r1))
        count_types(sq, types)
    for k, v in sorted(types.items()):
        R.count("type:" + k, v)
    for k, v in sorted(g.counts.items()):
        if ":" in k:
            R.count("gen:" + k, v)
    R.notes["documents"] = len(docs)
    R.notes["single_element_conversions"] = nconv
    R.notes["sequences_on_one_instance"] = len(seqs)
    R.notes["uncovered"] = [t for t in SUPPORTED if not types.get(t)] + \
                           [k for k in ("Table:old", "Table:new") if not g.counts.get(k)]
    R.notes["rule"] = ("seeded generator (random.Random(VERIF_SEED)) of pandoc JSON documents: 0-8 headers with level styles regular/jumpy/deep-first/weird, "
                       "titles from a pool with '/', '\\\\', edge blanks, U+001F, empty and repeated titles, 0-3 content blocks per header drawn from all 23 mapped "
                       "element types (nested lists, both table layouts, figures) plus ~1% unsupported/ill-formed elements; and sequences of 2-9 "
                       "Markdown()(item) calls on one instance, half of them containing a list conversion that raises; non-trivial = the "
                       "implementation returned a card / a text")
    dsmp = next((i for i, o in enumerate(obs_docs) if o.startswith("OK") and i > 5), 0)
    R.sample({"document": docs[dsmp], "implementation": obs_docs[dsmp], "model": "equal" if dsmp not in dict(bad_docs) else dict(bad_docs)[dsmp]})
    R.sample({"document": docs[3], "implementation": obs_docs[3], "model": "equal" if 3 not in dict(bad_docs) else dict(bad_docs)[3]})
    R.sample({"calls_on_one_instance": seqs[0], "implementation": obs_seqs[0], "model": "equal" if 0 not in dict(bad_seqs) else dict(bad_seqs)[0]})
    R.disagreements = len(bad_docs) + len(bad_seqs)
    if os.environ.get("VERIF_DEBUG"):
        for idx, model in bad_docs[:10]:
            print("DOC", idx, json.dumps(docs[idx]), "\nIMPL ", repr(obs_docs[idx]), "\nMODEL", repr(model), file=sys.stderr)
        for idx, model in bad_seqs[:10]:
            print("SEQ", idx, json.dumps(seqs[idx]), "\nIMPL ", repr(obs_seqs[idx]), "\nMODEL", repr(model), file=sys.stderr)
    bad_docs = sorted(bad_docs, key=lambda im: len(json.dumps(docs[im[0]])))      # smallest disagreeing inputs first
    bad_seqs = sorted(bad_seqs, key=lambda im: len(json.dumps(seqs[im[0]])))
    for idx, model in bad_docs[:20]:
        R.obligation_broken("correspondence C15/generate", f"document #{idx} {json.dumps(docs[idx])[:600]}: implementation {obs_docs[idx][:300]!r}, model {model[:300]!r}")
    for idx, model in bad_seqs[:20]:
        R.obligation_broken("correspondence C15/markdown-calls", f"sequence #{idx} {json.dumps(seqs[idx])[:600]}: implementation {obs_seqs[idx][:300]!r}, model {model[:300]!r}")

    # the mapping keys of the implementation must be exactly the types the model knows as supported
    mp = C.run_impl("impl_parser.py", input_obj={"mode": "mapping", "cases": []})
    if mp.returncode != 0 or sorted(json.loads(mp.stdout)) != SUPPORTED:
        R.obligation_broken("correspondence C15/mapping-keys", f"Markdown().mapping keys are {mp.stdout.decode()[:400]} expected {SUPPORTED}")

    # ---- (3) finding probes: every open finding's witness, and the witnesses of the fixed defects
    run_oracle(R, [D20_WITNESS], "probe-D20")
    run_oracle(R, [D27_WITNESS], "probe-D27")
    run_oracle(R, [D28_WITNESS], "probe-D28")
    run_oracle(R, list(FIXED_WITNESSES.values()), "probe-fixed-defects")

    # ---- (4) search with the property's own oracle when a proof or the correspondence broke
    if not ok or R.broken:
        cand = [docs[i] for i, _ in bad_docs[:40]] + [[x for x in seqs[i] if x["t"] in BLOCK_TYPES + UNSUP_BLOCK] for i, _ in bad_seqs[:40]]
        search(R, cand + docs[:150], "search")


def search(R, docs, label):
    n = run_oracle(R, [[Header(1, [Str("T")])] + d if d and d[0]["t"] != "Header" else d for d in docs], label)
    R.notes["search"] = (f"property oracle (outline = nearest-lower-level nesting, contents in order, rendered headings, toc, "
                         f"fresh-vs-used Markdown instance) run on {len(docs)} documents: {n} failures")


def replay(R, rep):
    r = rep.get("replay", {})
    if r.get("mode") == "oracle" and "blocks" in r:
        R.prove("C15")
        n = run_oracle(R, [r["blocks"]], "replay")
        p = C.run_impl("impl_parser.py", input_obj={"mode": "docs", "cases": [r["blocks"]]})
        if p.returncode == 0:
            o = json.loads(p.stdout)[0]
            try:
                bad = model_mismatches(R, "C15_replay", "list block", "show_generate", [(c_blocks(r["blocks"]), o)], trunc=100000)
            except ValueError as e:
                bad = []
                R.notes["replay_model"] = str(e)
            for _, model in bad:
                R.obligation_broken("correspondence C15/generate (replay)", f"implementation {o[:300]!r}, model {model[:300]!r}")
        R.notes["replay"] = f"{n} oracle failures on the replayed document"
        return
    run(R)
