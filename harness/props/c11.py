"""C11 -- nothing outside the documented families is trusted by default."""
import copy
import json
import random

import common as C
import io_common as IO
from snapshot import PROBES

# family admissible per loader (mirrors coq/io/Families.v family_ok; used by the implementation-side oracle)
FAMILY_OK = {
    "FunctionNode": {"np_ufunc", "scipy_special_ufunc"},
    "TypeNode": {"builtin_primitive", "builtin_container", "np_scalar_type"},
    "ObjectNode": {"sklearn_estimator_class"},
    "NdArrayNode": {"np_array", "np_scalar_type"},
    "MaskedArrayNode": {"np_masked"},
    "RandomStateNode": {"np_rng"}, "RandomGeneratorNode": {"np_rng"},
    "SparseMatrixNode": {"scipy_sparse"}, "TreeNode": {"sk_tree"}, "LossNode": {"sk_loss"},
    "DictNode": {"builtin_container"}, "DefaultDictNode": {"builtin_container"}, "ListNode": {"builtin_container"},
    "SetNode": {"builtin_container"}, "TupleNode": {"builtin_container"}, "BytesNode": {"builtin_container"},
    "BytearrayNode": {"builtin_container"}, "SliceNode": {"builtin_container"}, "JsonNode": {"builtin_primitive"},
}
# kinds whose (module, class) slot is neither audited nor resolved: the name is dead text.  SliceNode used to be one of
# them (finding D31-SliceNode, repaired in /repo: SliceNode.get_unsafe_set now reports the type the header names)
NAME_IGNORED = {"JsonNode"}


def one_node(loader, proto, mod, cls, slot="name"):
    st = PROBES[loader]()
    st["__id__"] = 1
    if slot == "name":
        st["__module__"], st["__class__"] = mod, cls
    elif slot == "v0content":
        st["content"] = {"module_path": mod, "function": cls}
    st["protocol"] = proto
    return st


def run(R, only_cases=None):
    snap = R.snapshot()
    R.trusted_base += ["Coq 8.16.1 kernel + vm_compute", "harness/snapshot.py (defaults per class, probed behaviourally) and harness/families.py (tagging oracle: isinstance/issubclass on the resolved object)",
                       "correspondence: harness/impl_io.py (modes universe, inspect)"]
    R.assumptions += ["family tags of names are computed by resolving them with importlib/getattr (never calling them)",
                      "JsonNode ignores its (module, class) text entirely (never audited, never resolved): not counted as a name-bearing slot; "
                      "SliceNode audits its (module, class) text (since the D31-SliceNode repair) and never resolves it"]
    if snap is None:
        return
    R.prove("C11")
    rnd = random.Random(R.seed)
    if only_cases is None:
        p = C.run_impl("impl_io.py", input_obj={"mode": "universe", "cases": []}, timeout=600)
        if p.returncode != 0:
            R.obligation_broken("correspondence C11/universe", p.stderr.decode()[-1200:])
            return
        universe = json.loads(p.stdout)
        R.notes["universe_size"] = len(universe)
        defaults = sorted({n for r in snap["classes"].values() for n in r["defaults"] + r["down_extra"]})
        pairs = sorted({(l, pr) for l, pr, _ in snap["registry"]})
        pairs = [(l, pr) for l, pr in pairs if l not in ("CachedNode", "QuantileForestNode")]
        n_uni = 500 if R.tier == "quick" else len(universe)
        sample = universe if n_uni >= len(universe) else rnd.sample(universe, n_uni)
        cases = []
        for m, a, tag in sample:
            for l, pr in (pairs if R.tier == "thorough" and tag.startswith("other") is False else rnd.sample(pairs, 2)):
                cases.append({"schema": one_node(l, pr, m, a), "loader": l, "name": f"{m}.{a}", "tag": tag})
        for n in (defaults if R.tier == "thorough" else rnd.sample(defaults, 150)):
            m, _, a = n.rpartition(".")
            for l, pr in rnd.sample(pairs, 3):
                cases.append({"schema": one_node(l, pr, m, a), "loader": l, "name": n, "tag": snap["family_tags"].get(n, "?")})
            cases.append({"schema": one_node("FunctionNode", 0, "m", "f", slot="name") | {"content": {"module_path": m, "function": a}},
                          "loader": "FunctionNode", "name": n, "tag": snap["family_tags"].get(n, "?"), "slot": "v0content"})
        class_tags = {"sk_loss", "sklearn_estimator_class", "np_scalar_type", "builtin_primitive", "builtin_container", "other:class",
                      "np_array", "np_masked", "np_rng", "scipy_sparse", "sk_tree"}
        # LossNode resolves its name while the tree is built; only classes have a process-independent qualified name
        cases = [c for c in cases if c["loader"] != "LossNode" or c["tag"] in class_tags]
        for c in cases:
            c.update(members=["probe.bin", "probe.npy", "probe.npz"], tspec="none", tseed=0, show="all", T=None)
    else:
        cases = only_cases
    recs, bad, _ = IO.run_batch(R, cases, aspects=("gut", "audit"), tag="c11")
    R.notes["rule"] = ("one-node archives: every registered (loader, protocol) x names from the enumerated universe (public attributes of the modules "
                       "the property lists, installed versions) and from the default lists, in the (module,class) slot and FunctionNode@0's content slot; "
                       "trusted=None; non-trivial = inspection succeeded")
    R.notes["exhaustive"] = R.tier == "thorough" and only_cases is None
    for c, r in list(zip(cases, recs))[:3]:
        R.sample({"loader": c.get("loader"), "name": c.get("name"), "family_tag": c.get("tag"), "get_untrusted_types": r["gut"], "load": r["load"][:80]})
    IO.report_disagreements(R, cases, recs, bad, "C11")
    # oracle on the implementation: accepted-by-default  =>  member of the kind's documented family
    for c, r in zip(cases, recs):
        if not r["gut"].startswith("ok:") or "name" not in c:
            continue
        R.count("tag:" + c["tag"].split(":")[0])
        loader, proto = c["loader"], c["schema"]["protocol"]
        if loader in NAME_IGNORED:
            continue
        if loader == "FunctionNode" and proto == 0 and c.get("slot") != "v0content":
            continue    # v0 audits, displays and self-checks content.module_path/function; the header name is not looked at
        if loader == "FunctionNode" and proto != 0 and c.get("slot") == "v0content":
            continue
        reported = c["name"] in r["gut"][3:].split(",")
        ok_family = c["tag"] in FAMILY_OK.get(loader, set())
        if not reported and not ok_family:
            R.violation({"kind": "default-accepts-outside-family", "loader": loader, "tag": c["tag"].split(":")[0]},
                        f"{loader}@{proto} accepts {c['name']} (family tag {c['tag']}) with no trusted list",
                        {"case": {k: c[k] for k in ("schema", "members", "show", "loader", "name", "tag")}, "T": None, "observed": r})
        if reported and not r["load"].startswith("err:Untrusted"):
            R.violation({"kind": "reported-but-loaded", "loader": loader}, f"{c['name']} is reported for {loader}@{proto} but load(trusted=None) gave {r['load']}",
                        {"case": {k: c[k] for k in ("schema", "members", "show", "loader", "name", "tag")}, "T": None, "observed": r})
    if only_cases is None:
        nested(R, snap, rnd)
    probes(R)


def nested(R, snap, rnd):
    """name-bearing nodes at ANY nesting position: every state of a generated (well-formed) archive whose name is not a
    default of its own kind (or handed down by a Tree/Loss ancestor) must be reported when no trusted list is given"""
    import gen_archives as G
    n = 250 if R.tier == "quick" else 2500
    cases = []
    # fixed corpus: containers all of whose items carry decorative keys of the format (is_json is written by the dumper and
    # read by no loader); every item is still the node its __loader__ says and must be audited as such
    P = snap["protocol"]

    def N(loader, m, k, i, **kw):
        return {"__class__": k, "__module__": m, "__loader__": loader, "__id__": i, "is_json": True, **kw}
    J = lambda i: {"__class__": "str", "__module__": "builtins", "__loader__": "JsonNode", "content": "1", "is_json": True, "__id__": i}   # noqa: E731
    items = [N("TypeNode", "verif_canary_pkg", "Probe", 11), N("FunctionNode", "verif_canary_pkg", "probe_fn", 12),
             N("OperatorFuncNode", "operator", "attrgetter", 13, attrs=N("TupleNode", "builtins", "tuple", 14, content=[J(15)])),
             N("ObjectNode", "verif_canary_pkg.sub", "Other", 16)]
    for loader, cls in (("ListNode", "list"), ("TupleNode", "tuple"), ("SetNode", "set")):
        for k in range(len(items)):
            content = [J(20), json.loads(json.dumps(items[k])), J(21)]
            cases.append({"schema": {**N(loader, "builtins", cls, 1, content=content), "protocol": P, "_skops_version": "0.0"}, "members": [],
                          "tspec": "none", "tseed": 0, "show": "all", "malformed": False, "wellformed": True, "notes": ["decorated items"]})
    cases.append({"schema": {**N("DictNode", "builtins", "dict", 1, content={"a": json.loads(json.dumps(items[0])), "b": J(22)},
                                 key_types=N("ListNode", "builtins", "list", 2, content=[N("TypeNode", "builtins", "str", 3), {"__id__": 3}])),
                             "protocol": P, "_skops_version": "0.0"}, "members": [],
                  "tspec": "none", "tseed": 0, "show": "all", "malformed": False, "wellformed": True, "notes": ["decorated items"]})
    n += len(cases)
    while len(cases) < n:
        # current-protocol layouts only: older loaders ignore some keys of the layout the generator writes
        c = G.gen_case(rnd, malformed_p=0.0, protocols=(snap["protocol"], snap["protocol"] + 1))
        c["tspec"], c["show"] = "none", "all"
        cases.append(c)
    recs, bad, _ = IO.run_batch(R, cases, aspects=("gut", "audit"), tag="c11n")
    IO.report_disagreements(R, cases, recs, bad, "C11/nested")
    reg = {(l, p): c for l, p, c in snap["registry"]}
    cur = snap["protocol"]
    handed_down = {x for r in snap["classes"].values() for x in r["down_extra"]}
    for c, r in zip(cases, recs):
        if not r["gut"].startswith("ok:"):
            continue
        gut = set(r["gut"][3:].split(","))
        proto = c["schema"].get("protocol")

        def idkey(sid):
            # Python's dict sees 1, 1.0 and True as one key
            if isinstance(sid, (bool, int, float)):
                return ("num", float(sid))
            return ("str", sid) if isinstance(sid, str) else ("other", json.dumps(sid))
        states = [(path, st) for path, st in G.all_paths(c["schema"]) if isinstance(st, dict) and isinstance(st.get("__loader__"), str)]
        by_id = {}
        for path, st in states:
            if st.get("__id__"):
                by_id.setdefault(idkey(st["__id__"]), []).append(st)
        # a state whose id occurs more than once may be the memoised node (its own JSON is then never read, nor is
        # anything below it): such states and everything under them are outside what this oracle can judge
        repeated = [path for path, st in states if st.get("__id__") and len(by_id[idkey(st["__id__"])]) > 1]
        # positions no loader reads (the generator plants node-shaped JSON there on purpose): the bounds of a SliceNode and
        # top-level keys that are not part of any layout
        def under_inert(path):
            node = c["schema"]
            for i, seg in enumerate(path):
                if isinstance(node, dict) and isinstance(node.get("__loader__"), str):
                    if seg in G.INERT_KEYS:
                        return True
                    if node["__loader__"] == "SliceNode" and seg == "content":
                        return True
                node = node[seg]
            return False
        for path, st in states:
            if any(path[: len(rp)] == rp and (len(path) > len(rp) or True) for rp in repeated):
                continue
            if under_inert(path):
                continue
            loader = st["__loader__"]
            tag = reg.get((loader, proto if type(proto) is int else cur)) or reg.get((loader, cur))
            if tag is None or loader in NAME_IGNORED:
                continue
            if loader == "FunctionNode" and tag.startswith("old."):
                cont = st.get("content") if isinstance(st.get("content"), dict) else {}
                m, k = cont.get("module_path"), cont.get("function")
            else:
                m, k = st.get("__module__"), st.get("__class__")
            if not (isinstance(m, str) and isinstance(k, str)):
                # a name that is not text cannot be a member of any family: the archive must not be inspected/loaded as clean
                if r["load"].startswith("returned"):
                    R.violation({"kind": "non-text-name-accepted", "loader": loader},
                                f"{loader} at {list(path)} carries the name ({m!r}, {k!r}) and the archive loads with no trusted list",
                                {"case": {k2: c[k2] for k2 in ("schema", "members", "show")}, "T": None, "observed": {"gut": r["gut"], "load": r["load"]}})
                continue
            name = f"{m}.{k}"
            if name in gut or name in snap["classes"][tag]["defaults"] or name in handed_down:
                continue
            R.violation({"kind": "nested-name-accepted-by-default", "loader": loader, "slot": str(path[-1]) if path else "root"},
                        f"{loader} at {list(path)} names {name}: neither a default of that kind nor reported by get_untrusted_types ({sorted(gut)})",
                        {"case": {k2: c[k2] for k2 in ("schema", "members", "show")}, "T": None, "observed": {"gut": r["gut"], "load": r["load"]}})


def probes(R):
    """Former finding D03 (fixed in /repo): the bit-generator name of a RandomGeneratorNode was resolved in numpy.random and
    CALLED, unaudited.  The witness is still replayed on every run; a call of a non-BitGenerator attribute is a violation again."""
    def rg(bit):
        J = lambda v: {"__class__": "str", "__module__": "builtins", "__loader__": "JsonNode", "content": json.dumps(v), "is_json": True}
        L = lambda items, i: {"__class__": "list", "__module__": "builtins", "__loader__": "ListNode", "content": items, "__id__": i}
        tn = {"__class__": "str", "__module__": "builtins", "__loader__": "TypeNode", "__id__": 9}
        D = lambda kv, i: {"__class__": "dict", "__module__": "builtins", "__loader__": "DictNode", "content": dict(kv), "key_types": L([tn for _ in kv], i + 1), "__id__": i}
        return {"__class__": "Generator", "__module__": "numpy.random._generator", "__loader__": "RandomGeneratorNode", "__id__": 1, "protocol": 2,
                "content": {"bit_generator": D([("bit_generator", J(bit))], 10), "seed_seq": D([("entropy", J(1))], 20)}}
    case = {"schema": rg("default_rng"), "members": [], "tspec": "none", "tseed": 0, "show": "all", "T": None}
    rec = IO.run_impl_cases([case], shards=1)[0]
    if rec["gut"] == "ok:" and rec.get("load_calls"):
        R.violation({"kind": "unaudited-slot", "loader": "RandomGeneratorNode", "slot": "bit_generator"},
                    "RandomGeneratorNode resolves numpy.random.<bit_generator> (here default_rng) and calls it although nothing reports or audits that name",
                    {"case": {k: case[k] for k in ("schema", "members", "show")}, "T": None, "observed": rec})


def replay(R, rep):
    c = dict(rep["replay"]["case"])
    c.update(T=rep["replay"]["T"], tspec="explicit", tseed=0)
    run(R, only_cases=[c])
