"""C03 -- the audit verdict is exact and load enforces exactly that verdict."""
import json
import random

import common as C
import gen_archives as G
import io_common as IO


def oracle(case, rec):
    """The property's statement, checked on the implementation's observable outputs alone."""
    out = []
    T = rec["T"]
    if rec["gut"].startswith("ok:"):
        gut = [n for n in rec["gut"][3:].split(",") if n]
        if gut != sorted(set(gut)):
            out.append(("unsorted-report", f"get_untrusted_types returned {gut}, not sorted/duplicate-free"))
        missing = sorted(n for n in gut if n not in (T or []))
        if missing:
            want = "err:Untrusted:" + ",".join(missing)
            if rec["load"] != want:
                out.append(("not-enforced", f"get_untrusted_types reports {gut}, trusted={T}: load must raise UntrustedTypesFoundException "
                                            f"naming {missing}, observed {rec['load']}"))
        elif rec["load"].startswith("err:Untrusted"):
            out.append(("blocked-although-trusted", f"every reported name {gut} is in trusted={T}, yet load raised {rec['load']}"))
    e = rec.get("entry")
    if e:
        base = e["loads"]
        for k in ("load_str", "load_path", "tuple", "shuffled_dups", "type_objects"):
            if k in e and e[k] != base:
                out.append(("entry-differs:" + k, f"loads(data, trusted=T) gives {base} but variant {k} gives {e[k]}"))
        if e.get("inplace_edit_same_object") != e.get("inplace_edit_fresh_object"):
            out.append(("trusted-list-object-cached", f"after the caller revoked every name IN PLACE in the list object it passed before, loads gives "
                                                     f"{e.get('inplace_edit_same_object')}; with a fresh list of the same names it gives {e.get('inplace_edit_fresh_object')}"))
        if "superset" in e and base.startswith("returned") and e["superset"] != base:
            out.append(("superset-changes-result", f"enlarging trusted changed the loaded result: {base} vs {e['superset']}"))
        for k in ("true_loads", "true_load"):
            if e[k] != "err:TrustedTrue":
                out.append(("trusted-true-accepted:" + k, f"trusted=True gave {e[k]}"))
        if e["gut_file"] != rec["gut"] or e["gut_file_str"] != rec["gut"]:
            out.append(("gut-file-differs", f"get_untrusted_types(data=) {rec['gut']} vs file= {e['gut_file']} / {e['gut_file_str']}"))
        if e.get("gut_after_caller_edit", rec["gut"]) != rec["gut"]:
            out.append(("gut-depends-on-history", f"get_untrusted_types(data=) returned {e['gut_after_caller_edit']} after the caller edited an earlier result; first answer was {rec['gut']}"))
        if not e["gut_sorted_unique"]:
            out.append(("unsorted-report", "get_untrusted_types(file=) not sorted/duplicate-free"))
    return out


def run(R, only_cases=None):
    snap = R.snapshot()
    R.trusted_base += ["Coq 8.16.1 kernel + vm_compute (no native_compute)",
                       "harness/snapshot.py: per-class trusted-list probes (uses_T, defaults, down_extra), registry",
                       "correspondence: harness/impl_io.py (mode inspect + entry variants), harness/gen_archives.py, harness/absval.py"]
    R.assumptions += ["JSON floats in hand-built archives are half-integers; repr() of containers in name slots is outside the modelled domain (counted, not compared)",
                      "the three entry points / spellings of T are compared on the implementation directly (not modelled): list/tuple, shuffled+duplicated, type objects, str/Path/bytes"]
    if snap is None:
        return
    ok = R.prove("C03")
    n = 400 if R.tier == "quick" else 4000
    rnd = random.Random(R.seed)
    cases = only_cases or [G.gen_case(rnd) for _ in range(n)]
    recs, bad, _ = IO.run_batch(R, cases, aspects=("gut", "audit"), tag="c03", entry=True)
    R.notes["rule"] = ("generated schemas (structured composition of all loaders + malformed mutation stream) x trusted spec "
                       "{none, empty, reported, subset, superset, misleading}; non-trivial = inspection succeeded or load returned; "
                       "distinct = distinct (schema, T, show)")
    R.notes["uncovered"] = IO.uncovered_kinds(R, snap)
    for c, r in list(zip(cases, recs))[:2]:
        R.sample({"schema": c["schema"], "trusted": r["T"], "get_untrusted_types": r["gut"], "load": r["load"], "entry": r.get("entry")})
    IO.report_disagreements(R, cases, recs, bad, "C03")
    # the property's oracle runs on every case (it is cheap): a failure is a concrete violation
    for c, r in zip(cases, recs):
        for kind, what in oracle(c, r):
            R.violation({"kind": kind.split(":")[0], "variant": kind, "root_loader": c["schema"].get("__loader__")}, what,
                        {"case": {k: c[k] for k in ("schema", "members", "show")}, "T": r["T"], "observed": r})


def replay(R, rep):
    c = dict(rep["replay"]["case"])
    c.update(T=rep["replay"]["T"], tspec="explicit", tseed=0)
    run(R, only_cases=[c])
