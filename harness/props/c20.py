"""C20 -- calls are independent of history and of concurrent calls."""
import json
import random
from concurrent.futures import ThreadPoolExecutor

import common as C
import gen_archives as G
import gen_values as GV


def gen_card(rnd):
    titles = ["A", "B", "A/B", "A/C", "Intro", "Metrics", "T1", " pad ", "x\\/y"]
    ops = []
    for _ in range(rnd.randint(2, 7)):
        k = rnd.random()
        if k < 0.45:
            ops.append(["add", {rnd.choice(titles): rnd.choice(["text", "", "more\ntext"])}, rnd.random() < 0.2])
        elif k < 0.6:
            ops.append(["metrics", {rnd.choice(["acc", "f1", "auc"]): rnd.choice([0.5, 1, "n/a"])}])
        elif k < 0.75:
            ops.append(["table", rnd.choice(["Tab", "A/Tab"]), {"c1": [1, 2], "c2": ["x", "y\nz"]}])
        elif k < 0.85:
            ops.append(["delete", rnd.choice(titles)])
        else:
            ops.append(["flag", rnd.choice(titles), rnd.choice(["visible", "folded"]), rnd.random() < 0.5])
    return ops


def gen_ops(rnd, n):
    ops = []
    for _ in range(n):
        k = rnd.random()
        if k < 0.2:
            ops.append(["dumps", GV.gen_value(rnd, supported=True, max_depth=2)])
        elif k < 0.4:
            ops.append(["roundtrip", GV.gen_value(rnd, supported=(rnd.random() < 0.7), max_depth=2)])
        elif k < 0.55:
            c = G.gen_case(rnd, malformed_p=0.2)
            ops.append(["gut", {"schema": c["schema"], "members": c["members"]}])
        elif k < 0.7:
            c = G.gen_case(rnd, malformed_p=0.2)
            ops.append(["vis", {"schema": c["schema"], "members": c["members"]}, c["show"], rnd.choice([None, [], ["os.getcwd", "verif_canary_pkg.Probe"]])])
        elif k < 0.8:
            c = G.gen_case(rnd, malformed_p=0.2)
            ops.append(["loads", {"schema": c["schema"], "members": c["members"]}, rnd.choice([None, ["verif_canary_pkg.Probe", "os.getcwd"]])])
        else:
            ops.append(["card", gen_card(rnd)])
    return ops


def run(R, only=None):
    snap = R.snapshot()
    R.trusted_base += ["Coq 8.16.1 kernel", "harness/snapshot.py: AST scan for call-time writes to module-level state (global statements, stores into and mutating calls on "
                       "module-level objects, lru_cache/cache decorators, mutable default arguments)", "harness/impl_history.py (fresh process / after history / 8 threads, switchinterval 1e-6; forced interleavings through gates inside user callbacks: "
                       "str() of table cells and metric values, __getstate__ during dumps, __setstate__ during loads)"]
    R.assumptions += ["true preemption inside C extensions, free-threaded builds, functools.singledispatch's internal cache and zipfile internals cannot be exhibited by the model; "
                      "the thread runs exercise CPython's GIL scheduling only",
                      "a Section object handed to Card.add is aliased, not copied (the one sharing channel between cards; stated, not a violation)"]
    if snap is None:
        return
    R.prove("C20")
    for f, q, w, l in snap.get("call_time_global_writes", []):
        # the proof obligation C20_frame_table is already broken; name the site
        R.obligation_broken("C20_frame_table", f"{f}:{l}: {q}: {w}")
    rnd = random.Random(R.seed)
    nbatch = 6 if R.tier == "quick" else 40
    per = 14
    # every history contains a dump that fails AFTER array members were written, a load that passes an explicit trusted
    # list over function nodes, and an audit whose result the caller then edits: the classic ways state leaks between calls
    fixed_history = [["dumps", ["list", [["ndarray", "<f8", [3], "C", 1, False], ["sparse", "csr", [3, 4], 1], ["generatorobj"]]]],
                     ["loads", {"schema": {"__class__": "list", "__module__": "builtins", "__loader__": "ListNode", "__id__": 1, "protocol": snap["protocol"],
                                           "content": [{"__class__": "getcwd", "__module__": "os", "__loader__": "FunctionNode", "__id__": 2},
                                                       {"__class__": "Probe", "__module__": "verif_canary_pkg", "__loader__": "TypeNode", "__id__": 3}]}, "members": []},
                      ["os.getcwd", "verif_canary_pkg.Probe"]]]
    fixed_ops = [["gut", {"schema": {"__class__": "list", "__module__": "builtins", "__loader__": "ListNode", "__id__": 1, "protocol": snap["protocol"],
                                     "content": [{"__class__": "getcwd", "__module__": "os", "__loader__": "FunctionNode", "__id__": 2},
                                                 {"__class__": "Probe", "__module__": "verif_canary_pkg", "__loader__": "TypeNode", "__id__": 3}]}, "members": []}],
                 ["roundtrip", ["list", [["ndarray", "<f8", [3], "C", 1, False], ["sparse", "csr", [3, 4], 1]]]],
                 ["after_failed_dump", ["list", [["ndarray", "<f8", [4], "C", 2, False], ["sparse", "csc", [2, 3], 2], ["masked", ["ndarray", "<i8", [3], "C", 3, False], 1]]]]]
    # cards over one model FILE holding a type that is not trusted by default: with the type trusted (the model object is then
    # edited through that card), and without (must fail exactly as in a fresh process, whatever was loaded before)
    fixed_ops += [["card_file", ["values.Plain"], "mutate"], ["card_file", None], ["card_file", ["values.Plain"]], ["card_file", []]]
    batches = only or [{"ops": fixed_ops + gen_ops(rnd, per), "history": fixed_history + gen_ops(rnd, 10), "threads": 8, "seed": rnd.randrange(1 << 30)} for _ in range(nbatch)]

    def one(b):
        p = C.run_impl("impl_history.py", input_obj=b, timeout=1200)
        if p.returncode != 0:
            return {"error": p.stderr.decode(errors="replace")[-1200:]}
        return json.loads(p.stdout)

    def fresh(args):
        b, i = args
        p = C.run_impl("impl_history.py", input_obj={"ops": b["ops"], "only": i}, timeout=600)
        if p.returncode != 0:
            return {"error": p.stderr.decode(errors="replace")[-800:]}
        return json.loads(p.stdout)
    with ThreadPoolExecutor(min(6, len(batches))) as ex:
        outs = list(ex.map(one, batches))
    fresh_jobs = [(b, rnd.randrange(len(b["ops"]))) for b in batches for _ in range(2)]
    # the cards over one model file: each of them also as the first call of a fresh process (what was loaded before must not matter)
    fresh_jobs += [(batches[0], i) for i, op in enumerate(batches[0]["ops"]) if op[0] == "card_file"]
    with ThreadPoolExecutor(8) as ex:
        fouts = list(ex.map(fresh, fresh_jobs))
    for b, o in zip(batches, outs):
        if "error" in o:
            R.obligation_broken("C20 runner", o["error"])
            continue
        for i, op in enumerate(b["ops"]):
            R.case({"op": op}, nontrivial=not (len(o["first"][i]) == 2 and str(o["first"][i][1]).startswith("exc:")))
            R.count("op:" + op[0])
            base = o["first"][i]
            if op[0] == "after_failed_dump" and base != ["after_failed_dump", "same"]:
                R.violation({"kind": "failed-call-leaks-into-next", "op": "dumps"}, f"after a dumps() that raised, dumping an object that shares arrays with the failed one gave {base}",
                            {"batch": b, "index": i})
            if o["after_history"][i] != base:
                R.violation({"kind": "history-dependent", "op": op[0]}, f"{op[0]} gave {str(o['after_history'][i])[:200]} after a history of other calls, {str(base)[:200]} when called first",
                            {"batch": b, "index": i})
            for t, res in enumerate(o["threads"]):
                if res[i] != base:
                    R.violation({"kind": "schedule-dependent", "op": op[0]}, f"{op[0]} in thread {t} gave {str(res[i])[:200]}, sequentially {str(base)[:200]}", {"batch": b, "index": i})
                    break
        for version, ok, desc, clsver in o.get("rebound", []):
            R.count("rebound:" + ("ok" if ok else "stale"))
            if not ok:
                R.violation({"kind": "history-dependent", "op": "loads-after-rebinding"},
                            f"after verif_dyn_mod.K was rebound to version {version}, loads(dumps(K({version}))) gave an instance that says {desc!r} (class version {clsver}): "
                            "a name resolved by an earlier load was remembered", {"rebound": o.get("rebound"), "batch": b})
                break
        for fr in o.get("forced", []):
            R.count("forced:" + fr["scenario"] + (":ok" if fr.get("ok") else ":differs"))
            if not fr.get("ok"):
                R.violation({"kind": "schedule-dependent", "op": "forced:" + fr["scenario"]},
                            f"with both threads held inside the same call ({fr['scenario']}), thread {fr['thread']} got {fr['interleaved'][:200]}; alone it gets {fr['sequential'][:200]}",
                            {"forced": fr, "batch": b})
        if o["module_state_changed"]:
            R.violation({"kind": "module-state-changed", "what": sorted(o["module_state_changed"])[:3]}, f"module-level state differs after the calls: {json.dumps(o['module_state_changed'])[:300]}", {"batch": b})
        if not o["cards_independent"]:
            R.violation({"kind": "cards-share-state"}, f"operations on one Card changed another: {o['card_before_after']}", {"batch": b})
    for (b, i), fo in zip(fresh_jobs, fouts):
        if "error" in fo:
            R.obligation_broken("C20 fresh runner", fo["error"])
            continue
        o = outs[batches.index(b)]
        if "error" not in o and fo["first"] != o["first"][i]:
            R.violation({"kind": "fresh-process-differs", "op": b["ops"][i][0]}, f"{b['ops'][i][0]} as the first call of a fresh process gave {str(fo['first'])[:200]}, in a warm process {str(o['first'][i])[:200]}",
                        {"batch": b, "index": i})
    R.notes["thread_runs"] = sum(len(o.get("threads", [])) * len(b["ops"]) for b, o in zip(batches, outs) if "error" not in o)
    R.notes["fresh_process_calls"] = len(fresh_jobs)
    R.notes["global_writes_found"] = snap.get("global_writes")
    R.notes["rule"] = ("batches of 14 API operations (dumps, dumps+loads, get_untrusted_types, visualize, loads on generated archives, model-card op sequences): each is computed first, again after a "
                       "history of 10 other operations, from 8 concurrent threads in shuffled order, and (sample) as the first call of a fresh process; all canonical results must agree; "
                       "module-level containers are hashed before/after; non-trivial = the operation did not raise")
    R.sample({"op": batches[0]["ops"][0], "first": outs[0].get("first", [None])[0] if "error" not in outs[0] else outs[0]})


def replay(R, rep):
    run(R, only=[rep["replay"]["batch"]])
