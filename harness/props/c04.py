"""C04 -- persistence is faithful or it refuses: never a quietly different object."""
import json
import random

import common as C
import gen_values as GV
from props import c05 as K

DICT_TAGS = ("dict", "odict", "mydict", "counter", "defaultdict", "mydefaultdict")


def subspecs(spec, out=None):
    """every value sub-spec (pre-order), the spec itself first"""
    out = out if out is not None else []
    if not (isinstance(spec, list) and spec and isinstance(spec[0], str)):
        return out
    out.append(spec)
    tag = spec[0]
    if tag in ("list", "mylist", "tuple", "mytuple", "set", "frozenset", "deque"):
        for x in spec[1]:
            subspecs(x, out)
    elif tag in ("dict", "odict", "mydict", "counter"):
        for k, v in spec[1]:
            subspecs(v, out)
    elif tag in ("defaultdict", "mydefaultdict"):
        for k, v in spec[2]:
            subspecs(v, out)
    elif tag == "objarray":
        for x in spec[2]:
            subspecs(x, out)
    elif tag == "partial":
        for x in spec[2]:
            subspecs(x, out)
        for k, v in spec[3]:
            subspecs(v, out)
    elif tag == "userobj":
        for k, v in spec[2]:
            subspecs(v, out)
    elif tag in ("method", "masked", "matrix"):
        subspecs(spec[1], out)
    elif tag == "namedtuple":
        subspecs(spec[1], out)
        subspecs(spec[2], out)
    elif tag in ("itemgetter",):
        for x in spec[1]:
            subspecs(x, out)
    elif tag == "methodcaller":
        for x in spec[2]:
            subspecs(x, out)
    return out


def json_key_text(k):
    tag = k[0]
    if tag == "str":
        return k[1]
    if tag == "bool":
        return "true" if k[1] else "false"
    if tag == "none":
        return "null"
    if tag == "int":
        return str(k[1])
    if tag == "float":
        return json.dumps(float.fromhex(k[1]))
    if tag == "npscalar":
        return str(k[2]) if "i" in k[1] or "u" in k[1] else json.dumps(float(k[2]))
    return None


def corruption_class(spec):
    """the class/site of a MINIMAL failing value (a value that comes back different while each of its parts,
    dumped on its own, comes back equal)"""
    tag = spec[0]
    if tag in ("frozenset", "deque"):
        return "object-path-payload"
    if tag in DICT_TAGS:
        items = spec[1] if tag not in ("defaultdict", "mydefaultdict") else spec[2]
        keys = [k for k, _ in items]
        # the texts json stores the KEPT keys under (dict_get_state skips property values before it looks at the key; a key
        # json refuses has no text).  Since the repair of D08 two equal texts make the dump raise: a dict of this class that
        # comes back different means the refusal is gone
        texts = [t for t in (json_key_text(k) for k, v in items if v[0] != "property") if t is not None]
        if len(set(texts)) != len(texts):
            return "dict-colliding-keys"
        if any(k[0] == "bool" for k in keys):
            return "dict-bool-key"
        if any(v[0] == "property" for _, v in items):
            return "dict-property-value"
        if tag == "mydefaultdict":
            return "defaultdict-subclass"
        return "dict-other"
    if tag == "objarray":
        # D10 (repaired): np.array(tmp, dtype="O") was used for every rank but 1: cells that are sequences (and, for rank 0, any
        # cell whose state has an iterable content: list/tuple/set, or an empty dict) became axes.  The loader fills
        # np.empty(shape) cell by cell now; an array of this class that comes back different means the repair is gone, and it
        # is reported under the old class name
        if len(spec[1]) != 1 and any(x[0] in ("list", "tuple", "mylist", "namedtuple", "mytuple", "ndarray", "objarray", "matrix", "masked") or
                                     (not spec[1] and x[0] in ("set",) + DICT_TAGS) for x in spec[2]):
            return "objarray-of-sequences"
        return "objarray-other"
    if tag == "masked" and len(spec) > 3:
        return "masked-fill-value"
    if tag in ("myint", "mystr"):
        return "scalar-subclass"
    if tag == "mytuple":
        return "tuple-subclass"
    if tag == "strcp":
        return "str-surrogate-pair"
    return "other:" + tag


def differs(rec):
    return rec.get("dump", "").startswith("ok:") and rec.get("load", "").startswith("ok:") and not rec.get("same")


# D10 / C13-F1 (repaired: object arrays of every rank keep their shape): the former witnesses and the other shapes of the defect.
# Each of them must ROUND-TRIP (dump ok, load ok, same value) -- a refusal is not enough here: before the repair the rank-0
# arrays dumped but could not be loaded (AttributeError)
OBJARR_FIXED = [
    ["objarray", [2, 2], [["list", [["int", 1], ["int", 2]]], ["list", [["int", 3], ["int", 4]]],
                          ["list", [["int", 5], ["int", 6]]], ["list", [["int", 7], ["int", 8]]]]],      # D10: came back with shape (2,2,2)
    ["objarray", [], [["int", 3]]],                                                                      # rank 0: load raised
    ["objarray", [], [["list", [["int", 1], ["int", 2]]]]],                                              # rank 0 holding a list: came back as shape (2,)
    ["objarray", [], [["tuple", []]]],                                                                   # the cell is the object that is also the shape
    ["objarray", [], [["dict", []]]], ["objarray", [], [["set", [["int", 1]]]]], ["objarray", [], [["none"]]],
    ["objarray", [1, 2, 1], [["tuple", [["int", 1], ["int", 2]]], ["list", []]]],
    ["objarray", [2, 3], [["tuple", [["int", i]]] for i in range(6)]],                                    # came back with shape (2,3,1)
    ["objarray", [2, 2], [["list", [["int", 1]]], ["list", [["int", 1], ["int", 2]]], ["tuple", []], ["str", "ab"]]],   # ragged cells
    ["objarray", [2, 0], []], ["objarray", [0, 2], []], ["objarray", [0], []], ["objarray", [1, 0, 3], []],
    ["objarray", [2, 1], [["objarray", [], [["list", [["int", 1]]]]], ["ndarray", "<f8", [2], "C", 1, False]]],   # arrays as cells
    ["list", [["list", [["int", 1], ["int", 2]]], ["objarray", [], [["ref", 0]]], ["objarray", [1, 1], [["ref", 0]]]]],   # the cell is a reference to an earlier list
    ["objarray", [3], [["tuple", [["int", 0], ["int", 1]]], ["dict", [[["int", 0], ["int", 1]]]], ["str", "s"]]],       # rank 1 (never affected)
]

# fixed witnesses of the open findings, replayed on every run
WITNESSES = OBJARR_FIXED + [
    ["masked", ["ndarray", "<f8", [4], "C", 1, False], 2, {"fill": -1.0, "hard": False}],                 # C04-F6: fill_value lost
    ["masked", ["ndarray", "<i8", [3], "C", 2, False], 1, {"fill": 7, "hard": True}],                     # C04-F6: fill_value and hard mask lost
    ["dict", [[["bool", False], ["str", "x"]], [["bool", True], ["str", "y"]]]],                         # D07
    ["dict", [[["int", 1], ["str", "a"]], [["str", "1"], ["str", "b"]]]],                                # D08 (repaired: dumps raises ValueError)
    ["frozenset", [["int", 1]]],                                                                         # D09
    ["deque", [["int", 1], ["int", 2]]],                                                                 # D09
    ["dict", [[["str", "a"], ["property"]], [["str", "b"], ["int", 2]]]],                                # D26
    ["myint", 5], ["mystr", "s"],                                                                        # scalar subclass
    ["mydefaultdict", "list", [[["str", "a"], ["int", 1]]]],                                             # defaultdict subclass
    ["mytuple", [["int", 1], ["int", 2]]],                                                               # tuple subclass
    ["list", [["mybytes", "MyBytes", "6162"], ["mybytes", "MyByteArray", "0102"], ["mybytes", "np.bytes_", "6162"]]],   # bytes / bytearray subclasses (C04-F5, repaired)
    ["strcp", [55357, 56832]],                                                                           # surrogate pair joined
    ["dict", [[["int", 1], ["property"]], [["str", "b"], ["int", 2]]]],                                  # D26 with misaligned key types: load raises
    ["dict", [[["none"], ["int", 1]]]],                                                                  # None key: load raises (a refusal)
    # D08 (repaired), the other shapes of two keys with one JSON spelling: all refused by dumps with ValueError ...
    ["dict", [[["str", "1"], ["str", "a"]], [["int", 1], ["str", "b"]]]],
    ["odict", [[["float", "0x1.8p+0"], ["str", "a"]], [["str", "1.5"], ["str", "b"]]]],
    ["dict", [[["bool", True], ["str", "a"]], [["str", "true"], ["str", "b"]]]],
    ["dict", [[["none"], ["int", 1]], [["str", "null"], ["int", 2]]]],
    ["dict", [[["npscalar", "<i8", 1], ["str", "a"]], [["str", "1"], ["str", "b"]]]],                    # np.int64(1).item() == 1
    ["dict", [[["float", "nan"], ["str", "a"]], [["float", "nan"], ["str", "b"]]]],                      # two NaN objects are two keys, one text
    ["defaultdict", "list", [[["int", 1], ["str", "a"]], [["str", "1"], ["str", "b"]]]],
    ["list", [["int", 7], ["dict", [[["str", "k"], ["bytes", "78"]], [["int", 1], ["str", "a"]], [["str", "z"], ["int", 3]], [["str", "1"], ["str", "b"]]]]]],
    # ... in the order of the code: an earlier value's own exception wins, a later value is not reached, a key json refuses
    # (TypeError only in _save) does not hide the collision, and a property value is skipped BEFORE its key is looked at
    # (one kept key: no collision; the D26 behaviour)
    ["dict", [[["int", 1], ["list", [["property"]]]], [["str", "1"], ["str", "b"]]]],                     # TypeError (cannot pickle 'property')
    ["dict", [[["int", 1], ["str", "a"]], [["str", "1"], ["list", [["property"]]]]]],                     # ValueError
    ["dict", [[["tuple", [["int", 1]]], ["int", 0]], [["int", 1], ["str", "a"]], [["str", "1"], ["str", "b"]]]],
    ["dict", [[["str", "1"], ["property"]], [["str", "b"], ["int", 2]], [["int", 1], ["int", 3]]]],
    # state that is falsy but not None must still go through __setstate__ (faithful on the unchanged tree)
    ["userobj", "FalsyState", [["flag", ["bool", False]]]], ["userobj", "FalsyState", [["flag", ["int", 0]]]],
    ["list", [["userobj", "FalsyState", [["flag", ["tuple", []]]]], ["userobj", "FalsyState", [["flag", ["dict", []]]]], ["userobj", "FalsyState", [["flag", ["int", 3]]]]]],
    ["userobj", "WithState", [["payload", ["none"]]]], ["userobj", "Plain", []], ["userobj", "Slotted", []],
    # a Generator whose seed sequence has spawned children; sparse matrices that are not in canonical form (duplicates, unsorted)
    ["generator", "PCG64", 3, 2, 2], ["list", [["generator", "Philox", 1, 0, 1], ["generator", "SFC64", 1, 1, 3]]],
    ["sparse", "csr", [3, 4], 1, "noncanonical"], ["sparse", "coo", [5, 2], 2, "noncanonical"], ["sparse", "csc", [3, 4], 3, "noncanonical"],
    # an instance and its own bound method: the method's owner must be that instance
    ["list", [["userobj", "Plain", [["a", ["int", 1]]]], ["method", ["ref", 0]]]],
    ["dict", [[["str", "m"], ["method", ["userobj", "Plain", [["a", ["ndarray", "<f8", [2], "C", 1, False]]]]]], [["str", "o"], ["ref", 1]]]],
]


def run(R, only=None):
    snap = R.snapshot()
    R.trusted_base += ["Coq 8.16.1 kernel + vm_compute (no native_compute)", "harness/snapshot.py (registry, PROTOCOL)",
                       "correspondence: harness/pval_emit.py (value -> pval term; identity labels from id(); observation calls made once), "
                       "harness/absval.py + pval_emit.canon ('same types, structure and values'), harness/impl_codec.py mode codec, harness/values.py, harness/gen_values.py",
                       "numpy/scipy codecs, json float text, zipfile: opaque in the model, observed by the correspondence"]
    R.assumptions += ["equality of user-class instances is structural on what __getstate__/__dict__/__reduce__ expose",
                      "C04_faithful_or_refuses_partial is proved on the fragment of C05_roundtrip_partial; the wider decidable guard c04_ok is checked per generated case "
                      "against the model (vm_compute) and the implementation",
                      "kinds outside the value model (sklearn estimators, generators, ...) are checked with the property's oracle on the implementation only"]
    if snap is None:
        return
    R.prove("C04")
    rnd = random.Random(R.seed)
    n = 330 if R.tier == "quick" else 3000
    specs = only or (WITNESSES + [GV.gen_value(rnd, supported=False, max_depth=3 if R.tier == "quick" else 4) for _ in range(n)])
    recs = K.run_impl_codec(specs, {"protocol": snap["protocol"], "cycles": 0})
    bad, flags, idx = K.model_compare(R, recs, "c04", flags=["c04_case_ok", "(c04_case_model_faithful Snapshot.registry Snapshot.current)"])
    ok_flags = dict(zip(idx, flags["c04_case_ok"]))
    mf_flags = dict(zip(idx, flags["(c04_case_model_faithful Snapshot.registry Snapshot.current)"]))
    nok = 0
    for i in idx:
        if ok_flags.get(i):
            nok += 1
            if not mf_flags.get(i):
                R.obligation_broken("C04 guard vs model", f"c04_ok holds of {json.dumps(specs[i])[:300]} but the model's loads(dumps(v)) is a different value")
            # attributes the pval abstraction does not carry (fill_value / hard mask of a masked array: open finding C04-F6) are
            # outside what c04_ok speaks about: such a difference is reported by the property oracle below, not as a broken guard
            only_extras = bool(recs[i].get("extras_only"))
            if differs(recs[i]) and not only_extras:
                R.obligation_broken("C04 guard vs implementation", f"c04_ok holds of {json.dumps(specs[i])[:300]} but the implementation returns a different value")
    R.notes["guard"] = (f"c04_ok (coq/io/CodecGuards.v) holds of {nok}/{len(idx)} modelled generated values; for each of them the model and the implementation "
                        "are faithful or refuse")
    # ---- the repaired object-array witnesses must round-trip, not merely "refuse" (D10 / C13-F1)
    if not only:
        for i in range(len(OBJARR_FIXED)):
            r = recs[i]
            if r.get("build") == "ok" and not (r.get("dump", "").startswith("ok:") and r.get("load", "").startswith("ok:") and r.get("same")):
                if not differs(r):        # a silently different value is reported by the oracle below, under the same class
                    R.violation({"kind": "fixed-witness-does-not-round-trip", "class": "objarray-of-sequences"},
                                f"object array {json.dumps(specs[i])[:200]} (finding D10 / C13-F1, repaired) no longer round-trips: dump {r.get('dump', '')[:60]} "
                                f"load {r.get('load', '')[:120]}", {"spec": specs[i], "observed": {"dump": r.get("dump", "")[:300], "load": r.get("load", "")[:300]}})
    # ---- the property's oracle on the implementation: every silently different value is attributed to its minimal failing parts
    failing = [i for i, r in enumerate(recs) if differs(r)]
    subs, owner = [], []
    for i in failing:
        for sspec in subspecs(specs[i])[1:]:
            subs.append(sspec)
            owner.append(i)
    sub_recs = K.run_impl_codec(subs, {"protocol": snap["protocol"], "cycles": 0}) if subs else []
    sub_fail = {}
    for sspec, o, r in zip(subs, owner, sub_recs):
        sub_fail[json.dumps(sspec)] = differs(r)
    for spec, rec in zip(specs, recs):
        for t, c in (rec.get("kinds") or {}).items():
            R.count("kind:" + t, c)
        if rec.get("skip"):
            R.count("not-modelled:" + rec["skip"][:40])
        R.count("outcome:" + ("dump-" + rec["dump"][:40] if not rec.get("dump", "").startswith("ok:") else
                              ("load-" + rec["load"][:40] if not rec["load"].startswith("ok:") else ("same" if rec.get("same") else "DIFFERENT"))))
        R.case({"spec": spec}, nontrivial=rec.get("build") == "ok")
        if rec.get("pure") is False:
            R.violation({"kind": "dump-modifies", "root": spec[0]}, "the value's observation changed during dumps", {"spec": spec})
    for i in failing:
        minimal = []
        for sspec in subspecs(specs[i]):
            fails = differs(recs[i]) if sspec is specs[i] else sub_fail.get(json.dumps(sspec), False)
            if fails and not any(sub_fail.get(json.dumps(ch), False) for ch in subspecs(sspec)[1:]):
                minimal.append(sspec)
        if not minimal:
            minimal = [specs[i]]
        seen = set()
        for m in minimal:
            cls = corruption_class(m)
            if cls.startswith("other:") and any(x[0] == "objarray" and len(x[1]) != 1 and any(c[0] == "ref" for c in x[2]) for x in subspecs(m)):
                # an object array of rank 0 / >= 2 whose cell is a REFERENCE to an earlier list/tuple/set (the array alone, with the
                # reference unresolved, does not fail, so the enclosing value is the minimal failing part): it is the D10 site when
                # the array's shape is what changed
                t0, t1 = recs[i].get("t0", ""), recs[i].get("load", "")
                import re as _re
                shapes = lambda t: _re.findall(r"s8:objarray \(([^)]*)\)", t)     # noqa: E731
                if shapes(t0) != shapes(t1):
                    cls = "objarray-of-sequences"
            if cls in seen:
                continue
            seen.add(cls)
            R.violation({"kind": "value-differs", "class": cls},
                        f"loads(dumps(v)) returns a different value without raising; minimal failing part {json.dumps(m)[:200]} (class {cls}); "
                        f"original {recs[i].get('t0', '')[:200]} loaded {recs[i]['load'][3:203]}",
                        {"spec": specs[i], "minimal": m, "observed": {"load": recs[i]["load"][:600], "original": recs[i].get("t0", "")[:600]}})
    j = len(WITNESSES) if not only else 0
    R.sample({"spec": specs[j], "implementation": {a: (recs[j].get(a) or "")[:300] for a in ("dump", "load")}, "model": "equal texts"})
    k0 = len(OBJARR_FIXED) + 2 if not only else 0       # frozenset({1}) (D09, open)
    R.sample({"spec": specs[k0], "implementation": {"original": recs[k0].get("t0"), "loaded": recs[k0].get("load")}, "model": "predicts the same corrupted value"})
    R.notes["rule"] = ("values from gen_values(supported=False) (+ fixed finding witnesses): normalised archive text and canonical text of loads(dumps(v)) -- including the "
                       "predicted corruption or exception class -- vs the Coq model; oracle: fingerprint before/after dumps, loaded value vs original, each silent difference "
                       "attributed to its minimal failing sub-value; non-trivial = value built; distinct = distinct specs")
    K.report_mismatches(R, "C04", specs, recs, bad)


def replay(R, rep):
    run(R, only=[rep["replay"]["spec"]])
