"""C10 -- rendering shows exactly the visible tree, in order, and save/TOC agree with it.
Theorems: coq/props/C10.v over coq/card/Render.v.  Correspondence: edit histories with many visible/folded
assignments; render() text, bytes written by save(), get_toc() and the flags of every node after EVERY operation."""
import cardgen as G

WEIGHTS = {"add": 30, "vis": 16, "fold": 16, "plot": 7, "table": 7, "metrics": 4, "hyper": 2, "modelplot": 3, "delete": 6, "dellist": 2,
           "select": 3, "chain": 3, "title": 9}
MODE = {"toc": True, "render": True, "save": True, "nodes": True, "format": True}
INIT = {"none": 45, "skops": 25, "custom": 27, "nosuch": 2, "clash": 1}

CORPUS = [
    # D14 (repaired): folded parent with children
    [["add", False, [["A", "a"], ["A/B", "b"], ["A/B/C", "c"], ["D", ""]]], ["fold", ["A"], True], ["vis", ["A/B"], False],
     ["fold", ["A"], False], ["vis", ["A"], False], ["vis", ["A", "B"], True], ["vis", ["A"], True], ["fold", ["A/B"], True]],
    # a heading that differs from the key its section is stored under (assignment to .title)
    [["add", False, [["Model", "m"], ["Model/Results", "r"], ["Contact", "c"]]], ["title", ["Model/Results"], "Evaluation results"],
     ["title", ["Contact"], "Authors & contact"], ["fold", ["Model"], True], ["title", ["Model"], "Model/Results"], ["fold", ["Model"], False],
     ["add", False, [["Model/Results/Deep", "d"]]], ["select", "Model/Results"], ["delete", "Contact"]],
    # the default card (skops template, diagram "auto"): hide / fold template sections, the folded hyperparameter table
    [["init", "skops", "auto", [["C", 1.0], ["tol", "a\nb"]], '<div class="sk-top-container">\n <pre>A()</pre>\n</div>'],
     ["fold", ["Model description/Training Procedure"], True], ["vis", ["Model description/Training Procedure/Hyperparameters"], False],
     ["fold", ["Model description/Training Procedure"], False], ["vis", ["Model description"], False], ["vis", ["Citation"], False],
     ["vis", ["Model description"], True], ["fold", ["Model description", "Training Procedure/Hyperparameters"], False]],
    # a custom template whose diagram section is a template section with children
    [["init", {"map": [["A", "a"], ["A/B", "b"], ["A/B/C", "c"], ["D", ""]]}, "A/B", [], "<p>\n\t</p>"],
     ["fold", ["A"], True], ["vis", ["A/B"], False], ["fold", ["A"], False], ["title", ["A/B"], "Diagram"]],
]


def run(R):
    R.assumptions += ["cards are reached from Card(model, template=None | str | dict of str -> str, model_diagram=bool | str) (model object, not a path) "
                      "through the public API and select(...).visible/.folded assignments",
                      "save is observed with copy_files=False; the file is written under the run's build directory"]
    R.notes["rule"] = ("seeded random edit histories biased towards visible/folded assignments (also through chained select) over "
                       "nested sections of all three kinds, starting from constructed cards (no template / skops template / custom dict / failing constructors); "
                       "after the constructor and after every operation get_toc(), render(), the bytes written by save(path) "
                       "and every node's format() are compared with the model; non-trivial = at least one operation succeeded")
    R.notes["guards"] = ["C10_render_spec / C10_hidden_absent: dict keys unique (wf_dict), an invariant of every reachable card (C10_reachable_wf)"]
    R.notes["not_modelled"] = ["PrettyTable layout (oracle)", "shutil.copy of plot files with copy_files=True (modelled as the list of copied paths only)",
                               "text-mode newline translation on non-POSIX platforms"]
    G.run_property(R, "C10", WEIGHTS, MODE, 14, 400, 4000, corpus=CORPUS, init_weights=INIT)


def replay(R, rep):
    G.replay_property(R, rep, "C10")
