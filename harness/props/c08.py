"""C08 -- protocol dispatch: theorems over the regenerated registry + correspondence of
get_tree's class selection with the model's `dispatch` on every (loader, protocol) pair."""
import json
import random

import common as C


def parse_mismatches(out):
    import re
    m = re.search(r"=\s*\[(.*?)\]\s*:\s*list N", out, flags=re.S)
    if not m:
        if re.search(r"=\s*\[\]\s*:", out) or "nil" in out:
            return []
        raise RuntimeError("cannot parse model output: " + out[-500:])
    nums = [int(x) for x in re.findall(r"\d+", m.group(1))]
    res, i = [], 0
    while i < len(nums):
        idx, n = nums[i], nums[i + 1]
        res.append((idx, "".join(chr(c) for c in nums[i + 2: i + 2 + n])))
        i += 2 + n
    return res


def run(R):
    snap = R.snapshot()
    R.trusted_base += ["Coq 8.16.1 kernel + vm_compute (no native_compute)", "harness/snapshot.py (registry, PROTOCOL, emitted loader names by AST scan)",
                       "correspondence harness: harness/impl_io.py mode dispatch"]
    R.assumptions += ["the registry is read from skops.io._audit.NODE_TYPE_MAPPING after import of skops.io",
                      "old-layout value fidelity (FunctionNode@0, RandomGeneratorNode@0/1) is covered by C05's correspondence, not by this check"]
    if snap is None:
        return search(R, None)
    ok = R.prove("C08")
    cur = snap["protocol"]
    loaders = sorted({l for l, _, _ in snap["registry"]}) + ["NoSuchNode", "", 7, None, ["ListNode"]]
    protos = list(range(0, cur + 2)) + [-1, 99, float(cur), 0.5, True, False, None, str(cur), [cur], {}]
    cases = [(l, p) for l in loaders for p in protos]
    rnd = random.Random(R.seed)
    rnd.shuffle(cases)
    p = C.run_impl("impl_io.py", input_obj={"mode": "dispatch", "cases": cases})
    if p.returncode != 0:
        R.obligation_broken("correspondence C08/dispatch", "implementation runner failed: " + p.stderr.decode()[-1500:])
        return search(R, snap)
    obs = json.loads(p.stdout)
    body = ["From Skv Require Import PyStr Json Registry Corr.", "From Gen Require Import Snapshot.",
            "Definition cases : list ((json * json) * pstr) := " +
            C.clist(f"(({C.cjson(l)}, {C.cjson(pr)}), {C.cstr(o)})" for (l, pr), o in zip(cases, obs)) + ".",
            "Eval vm_compute in mismatches (fun c => show_dispatch (dispatch registry current (fst c) (snd c))) cases."]
    out = R.model_eval("Cases_C08", "\n".join(body) + "\n")
    bad = parse_mismatches(out)
    for (l, pr), o in zip(cases, obs):
        R.case([l, pr, o], nontrivial=isinstance(l, str) and l in {x for x, _, _ in snap["registry"]})
        R.count(o.split(":")[0])
    R.sample({"loader": cases[0][0], "protocol": cases[0][1], "implementation": obs[0], "model": "equal"})
    R.sample({"loader": "FunctionNode", "protocol": 0, "implementation": obs[cases.index(("FunctionNode", 0))], "model": "equal"})
    R.notes["rule"] = ("exhaustive product of every registered loader name (+ unregistered/ill-typed names) x protocol values "
                       "0..current+1 and ill-typed/equal-hashing variants (2.0, True, '2', None, [2], {}); non-trivial = loader registered")
    R.notes["exhaustive"] = True
    R.disagreements = len(bad)
    for idx, model in bad:
        (l, pr), o = cases[idx], obs[idx]
        R.obligation_broken("correspondence C08/dispatch", f"loader={l!r} protocol={pr!r}: implementation {o}, model {model}")
    old_layouts(R, rnd)
    golden(R)
    deployments(R, cases, obs)
    if not ok or bad:
        search(R, snap, bad, cases, obs)


def deployments(R, cases, obs):
    """the loader chosen for (node kind, protocol) must not depend on how skops is installed: the same exhaustive dispatch
    table is recomputed with skops imported from a byte-compiled tree WITHOUT sources and from a zip bundle on sys.path"""
    import os
    import shutil
    import subprocess
    import zipfile
    base = C.BUILD / "run" / "C08" / "deploy"
    shutil.rmtree(base, ignore_errors=True)
    try:
        (base / "sourceless").mkdir(parents=True)
        (base / "zip").mkdir()
        ign = shutil.ignore_patterns("tests", "__pycache__")
        shutil.copytree(C.REPO / "skops", base / "sourceless" / "skops", ignore=ign)
        r = subprocess.run([C.PY, "-m", "compileall", "-b", "-q", str(base / "sourceless" / "skops")], capture_output=True)
        for d, _, fs in os.walk(base / "sourceless"):
            for f in fs:
                if f.endswith(".py"):
                    os.unlink(os.path.join(d, f))
        with zipfile.ZipFile(base / "zip" / "skops_bundle.zip", "w") as z:
            for d, ds, fs in os.walk(C.REPO / "skops"):
                ds[:] = sorted(x for x in ds if x not in ("tests", "__pycache__"))
                rel = os.path.relpath(d, C.REPO)
                z.write(d, rel)
                for f in sorted(fs):
                    z.write(os.path.join(d, f), os.path.join(rel, f))
        for form, path in (("sourceless", base / "sourceless"), ("zip-bundle", base / "zip" / "skops_bundle.zip")):
            p = C.run_impl("impl_io.py", input_obj={"mode": "dispatch", "cases": cases},
                           extra_env={"PYTHONPATH": f"{path}:{C.VERIF / 'harness'}"})
            if p.returncode != 0:
                R.obligation_broken("correspondence C08/deployment " + form, "skops.io does not import / dispatch from a " + form + " installation: "
                                    + p.stderr.decode(errors="replace")[-600:])
                continue
            other = json.loads(p.stdout)
            for (l, pr), a, b in zip(cases, obs, other):
                R.count(f"deployment:{form}:" + ("same" if a == b else "differs"))
                if a != b:
                    R.violation({"kind": "dispatch-depends-on-deployment", "form": form, "loader": l if isinstance(l, str) else None},
                                f"skops imported from a {form} installation selects {b} for (loader {l!r}, protocol {pr!r}); the source tree selects {a}",
                                {"deployment": form, "loader": l, "protocol": pr})
            R.case(["deployment", form, C.sha(other)], nontrivial=True)
    finally:
        shutil.rmtree(base, ignore_errors=True)
    R.notes["deployment_forms"] = ["byte-compiled tree without .py sources (compileall -b)", "zip bundle on sys.path"]


def golden(R):
    """archives frozen from earlier states of the tree (corpus/golden_p<protocol>.json, written by harness/mkgolden.py):
    every one of them must still load to the value it was written from -- whatever the dump side writes today"""
    for f in sorted((C.VERIF / "corpus").glob("golden_p*.json")):
        gold = json.loads(f.read_text())
        if R.tier == "quick":
            gold = gold[:90]
        shards = 6
        chunks = [gold[i::shards] for i in range(shards)]
        from concurrent.futures import ThreadPoolExecutor

        def one(chunk):
            p = C.run_impl("impl_codec.py", input_obj={"mode": "golden_check", "cases": chunk}, timeout=900)
            return json.loads(p.stdout) if p.returncode == 0 else ["runner:" + p.stderr.decode(errors="replace")[-300:]] * len(chunk)
        with ThreadPoolExecutor(shards) as ex:
            outs = list(ex.map(one, chunks))
        for ch, o in zip(chunks, outs):
            for g, r in zip(ch, o):
                proto = json.loads(g["schema"]).get("protocol")
                R.case({"golden": f.name, "spec": g["spec"]}, nontrivial=True)
                R.count(f"golden:p{proto}:{r.split(':')[0]}")
                if r.startswith("runner:"):
                    R.obligation_broken("C08 golden corpus runner", r)
                elif r != "same":
                    import gen_values as GV
                    tags = sorted(GV.tags_in(g["spec"]))
                    R.violation({"kind": "frozen-archive-no-longer-loads", "protocol": proto, "result": r.split(":")[0], "tags": tags if len(tags) <= 3 else None},
                                f"an archive written under protocol {proto} by an earlier state of the tree ({f.name}) now gives {r[:160]}",
                                {"golden_file": f.name, "spec": g["spec"], "schema": g["schema"][:3000]})
    R.notes["golden_corpus"] = [f.name for f in sorted((C.VERIF / "corpus").glob("golden_p*.json"))]


def old_layouts(R, rnd):
    """values holding functions / Generators at random nesting positions, rewritten into each older layout"""
    import gen_values as GV
    fixed = [["ufunc", "np.sqrt"], ["generator", "PCG64", 3, 2], ["list", [["ufunc", "scipy.special.expit"], ["generator", "MT19937", 1, 0]]],
             ["dict", [[["str", "f"], ["partial", "np.add", [["int", 1]], []]], [["str", "g"], ["tuple", [["generator", "Philox", 2, 1], ["ufunc", "np.add"]]]]]],
             ["objarray", [2], [["ufunc", "np.sqrt"], ["generator", "SFC64", 5, 0]]], ["defaultdict", "list", [[["str", "k"], ["list", [["ufunc", "np.log"]]]]]]]
    specs = list(fixed)
    n = 40 if R.tier == "quick" else 400
    tries = 0
    while len(specs) < n + len(fixed) and tries < 50 * n:
        tries += 1
        sp = GV.gen_value(rnd, supported=True, max_depth=3)
        t = GV.tags_in(sp)
        if "ufunc" in t or "generator" in t or "partial" in t:
            specs.append(sp)
    p = C.run_impl("impl_codec.py", input_obj={"mode": "old_layouts", "cases": specs}, timeout=900)
    if p.returncode != 0:
        R.obligation_broken("correspondence C08/old-layouts", p.stderr.decode(errors="replace")[-1000:])
        return
    nre = 0
    for sp, rec in zip(specs, json.loads(p.stdout)):
        if "skip" in rec:
            continue
        for proto, r in rec.items():
            R.case({"old-layout": sp, "protocol": proto}, nontrivial=sum(r["rewritten"].values()) > 0)
            R.count(f"old-layout:p{proto}:{r['result'].split(':')[0]}")
            nre += sum(r["rewritten"].values())
            # protocol 0 cannot represent a Generator in a way that passes the audit (the pinned suite expects that failure)
            if proto == "0" and r["rewritten"]["rg"] and r["result"].startswith("raises:"):
                continue
            if r["result"] != "same":
                R.violation({"kind": "old-layout-not-faithful", "protocol": int(proto), "functions": r["rewritten"]["fn"] > 0, "generators": r["rewritten"]["rg"] > 0},
                            f"value rewritten into the protocol-{proto} layout ({r['rewritten']}) loads as {r['result']}", {"spec": sp, "protocol": int(proto)})
    R.notes["old_layout_nodes_rewritten"] = nre


def search(R, snap, bad=(), cases=(), obs=()):
    """Property oracle on the implementation itself: the class get_tree selects must be the one
    registered for the smallest protocol >= p; unregistered kinds must raise the naming TypeError;
    every emitted loader must be registered at the current protocol."""
    if snap is None:
        R.notes["search"] = "snapshot could not be generated; nothing to search against"
        return
    reg = {(l, p): c for l, p, c in snap["registry"]}
    cur = snap["protocol"]
    for e in snap["emits"]:
        if (e, cur) not in reg:
            R.violation({"kind": "emit-unregistered", "loader": e}, f"dump emits __loader__={e} which has no loader at protocol {cur}",
                        {"loader": e, "protocol": cur})
    for (l, pr), o in zip(cases, obs):
        if not isinstance(l, str) or type(pr) is not int or not (0 <= pr <= cur):
            continue
        want = next((reg[(l, q)] for q in range(pr, cur + 1) if (l, q) in reg), None)
        exp = "ok:" + want if want else "noloader"
        if o != exp:
            R.violation({"kind": "dispatch", "loader": l, "protocol": pr}, f"get_tree selects {o} for ({l},{pr}); the property requires {exp}",
                        {"loader": l, "protocol": pr, "observed": o, "required": exp})


def replay(R, rep):
    run(R)
