"""C06 -- the sharing structure of the object graph is preserved."""
import json
import random
from concurrent.futures import ThreadPoolExecutor

import common as C
from props.c08 import parse_mismatches

FUEL = 24
DTYPES = ["<f8", "<f4", "<i8", "<i4", "|u1", "|b1", "<c16", "<U3"]
ESTIMATORS = ["StandardScaler", "MinMaxScaler", "LogisticRegression", "DecisionTreeClassifier", "PCA", "Ridge", "GaussianNB",
              "KMeans", "LinearSVC", "SGDClassifier"]


# --------------------------------------------------------------------------- generator of object graphs
class Gen:
    """DAG specs (values.py grammar, built by impl_share.build2): every identity-bearing value can be
    referenced again later through ["ref", k]."""

    def __init__(self, rnd, share=0.3):
        self.r, self.share, self.made = rnd, share, 0

    def scalar(self):
        return self.r.choice([["none"], ["int", self.r.randint(-3, 400)], ["str", self.r.choice(["", "a", "k1", "é"])],
                              ["float", "0x1.8p+1"], ["bool", True]])

    def array(self, small=True):
        self.made += 1
        shape = self.r.choice([[3], [2, 2], [1], [4]]) if small else [self.r.randint(50, 300)]
        return ["ndarray", self.r.choice(DTYPES), shape, self.r.choice(["C", "F"]), self.r.randint(0, 99), False]

    def leaf(self):
        c = self.r.randint(0, 11)
        if c <= 2:
            return self.array()
        if c == 3:
            self.made += 1
            return ["bytearray", self.r.choice(["", "0102", "ff"])]
        if c == 4:
            self.made += 1
            return ["set", [["int", i] for i in range(self.r.randint(0, 3))]]
        if c == 5:
            self.made += 1
            return ["sparse", self.r.choice(["csr", "csc", "coo", "csr_array"]), self.r.choice([[3, 4], [2, 2]]), self.r.randint(0, 9)]
        if c == 6:
            self.made += 2
            return ["masked", ["ndarray", "<f8", [3], "C", self.r.randint(0, 9), False], self.r.randint(0, 9)]
        if c == 7:
            self.made += 1
            return self.r.choice([["randomstate", self.r.randint(0, 9), self.r.randint(0, 2)],
                                  ["generator", self.r.choice(["PCG64", "MT19937", "Philox", "SFC64"]), self.r.randint(0, 9), self.r.randint(0, 2)]])
        if c == 8:
            self.made += 1
            return ["list", []]
        if c == 9 and self.r.random() < 0.5:
            self.made += 1
            return ["estimator", self.r.choice(["StandardScaler", "MinMaxScaler", "PCA"]), self.r.randint(0, 5), True]
        if c == 10 and self.r.random() < 0.5:
            if self.r.random() < 0.5:
                return ["dtype", self.r.choice(DTYPES)]
            self.made += 1
            return ["partial", "np.add", [["int", 1]], []]
        return self.scalar()

    def keys(self, n):
        pool = [["str", "a"], ["str", "b"], ["str", "key"], ["int", 0], ["int", 7], ["int", -2], ["str", "z w"]]
        self.r.shuffle(pool)
        return pool[:n]

    def value(self, depth):
        if self.made and self.r.random() < self.share:
            return ["ref", self.r.randrange(1 << 16)]
        if depth <= 0 or self.r.random() < 0.25:
            return self.leaf()
        c = self.r.randint(0, 9)
        n = self.r.randint(1, 4)
        if c <= 2:
            v = ["list", [self.value(depth - 1) for _ in range(n)]]
        elif c == 3:
            v = ["tuple", [self.value(depth - 1) for _ in range(n)]]
        elif c in (4, 5):
            v = [self.r.choice(["dict", "dict", "odict"]), [[k, self.value(depth - 1)] for k in self.keys(n)]]
        elif c == 6:
            v = ["defaultdict", self.r.choice(["list", "int", "none"]), [[k, self.value(depth - 1)] for k in self.keys(n)]]
        elif c == 7:
            v = ["objarray", [n], [self.value(depth - 1) for _ in range(n)]]
        elif c == 8:
            v = ["userobj", "Plain", [[a, self.value(depth - 1)] for a in ["x", "y_", "coef_"][:n]]]
        else:
            v = ["list", [self.value(depth - 1) for _ in range(n)]]
        self.made += 1
        return v


def fam_dag(rnd):
    g = Gen(rnd, share=rnd.choice([0.15, 0.3, 0.5]))
    v = ["list", [g.value(rnd.randint(1, 4)) for _ in range(rnd.randint(2, 5))]]
    return v


def fam_manyarrays(rnd):
    """many distinct small arrays, each referenced 1..3 times, inside tuples / dicts / object arrays"""
    g = Gen(rnd)
    n = rnd.randint(30, 70)
    items = []
    for i in range(n):
        items.append(g.array() if rnd.random() < 0.85 else
                     ["sparse", rnd.choice(["csr", "coo"]), [2, 3], rnd.randint(0, 9)])
        if items[-1][0] == "sparse":
            g.made += 1
        if rnd.random() < 0.4:
            items.append(["ref", rnd.randrange(g.made)])
    rnd.shuffle(items)      # refs before their target resolve to an earlier object (mod): still a DAG
    wrap = rnd.choice(["list", "tuple", "objarray", "dict"])
    if wrap == "objarray":
        return ["list", [["objarray", [len(items)], items], ["ref", 0]]]
    if wrap == "dict":
        return ["dict", [[["str", "k%d" % i], v] for i, v in enumerate(items)]]
    return [wrap, items]


def fam_tempheavy(rnd):
    """containers whose dump creates temporaries that differ in CONTENT (key_types of different types,
    shape tuples of different length, dict() copies, tolist() lists): a re-used id changes the result"""
    g = Gen(rnd, share=0.2)
    items = []
    for i in range(rnd.randint(6, 24)):
        c = rnd.randint(0, 5)
        if c == 0:
            items.append(["dict", [[["int", i], ["str", "v"]], [["int", i + 100], g.value(1)]]])
        elif c == 1:
            items.append(["dict", [[["str", "s%d" % i], g.value(1)]]])
        elif c == 2:
            n = rnd.randint(1, 5)
            items.append(["objarray", [n], [g.value(1) for _ in range(n)]])
        elif c == 3:
            items.append(["defaultdict", "list", [[["int", i], ["list", []]], [["str", "q"], g.value(1)]]])
            g.made += 1
        elif c == 4:
            items.append(["userobj", "Plain", [["a%d" % i, g.value(1)]]])
        else:
            items.append(rnd.choice([["randomstate", i % 7, 1], ["generator", "PCG64", i % 5, 1],
                                     ["masked", ["ndarray", "<f8", [rnd.randint(1, 4)], "C", i, False], i]]))
            g.made += 1
        g.made += 1
    return ["list", items]


def fam_ladder(rnd):
    n = rnd.randint(2, 6)
    kinds = [rnd.choice(["list", "tuple", "dict", "objarray"]) for _ in range(n)]
    spec = [["list", []]]
    top = 0
    items = [["list", []]]
    # object k+1 references object k twice
    for i, k in enumerate(kinds):
        a, b = ["ref", top], ["ref", top]
        if k == "list":
            items.append(["list", [a, b]])
        elif k == "tuple":
            items.append(["tuple", [a, b]])
        elif k == "dict":
            items.append(["dict", [[["str", "l"], a], [["str", "r"], b]]])
        else:
            items.append(["objarray", [2], [a, b]])
        top = i + 1
    del spec
    return ["list", items]


def fam_estimators(rnd):
    names = [rnd.choice(ESTIMATORS) for _ in range(rnd.randint(1, 3))]
    items = [["estimator", n, rnd.randint(0, 5), rnd.random() < 0.8] for n in names]
    items += [["ref", rnd.randrange(8)] for _ in range(rnd.randint(1, 3))]
    if rnd.random() < 0.5:
        items.append(["pipeline", [["estimator", "StandardScaler", 1, False], ["ref", 0]]])
    items.append(["dict", [[["str", "m"], ["ref", rnd.randrange(8)]], [["str", "a"], ["ndarray", "<f8", [3], "C", 1, False]]]])
    return ["list", items]


def fam_methods(rnd):
    """instances together with their own bound methods: a method's owner must be THE instance, whichever is written first.
    (values.build numbers objects with identity in completion order, so the k owners built first are made[0..k-1])"""
    k = rnd.randint(1, 3)
    owners = [["userobj", "Plain", [["n", ["int", i]]]] for i in range(k)]
    tail = [["method", ["ref", rnd.randrange(k)]] for _ in range(rnd.randint(1, 4))]
    tail += [["ref", rnd.randrange(k)] for _ in range(rnd.randint(0, 2))]
    rnd.shuffle(tail)
    body = owners + tail
    # method first, its owner afterwards: the fresh owner inside the method is made[k + j]
    nfresh = rnd.randint(0, 2)
    for j in range(nfresh):
        body.append(["method", ["userobj", "Plain", [["n", ["int", 10 + j]]]]])
    for j in range(nfresh):
        body.append(["ref", k + j])
    wrap = rnd.choice(["list", "tuple", "dict"])
    if wrap == "dict":
        return ["dict", [[["str", "k%d" % i], v] for i, v in enumerate(body)]]
    return [wrap, body]


FAMILIES = [("methods", fam_methods, 2), ("dag", fam_dag, 8), ("manyarrays", fam_manyarrays, 2), ("tempheavy", fam_tempheavy, 4), ("ladder", fam_ladder, 2),
            ("estimators", fam_estimators, 1)]


def gen_cases(rnd, n):
    bag = [f for f in FAMILIES for _ in range(f[2])]
    out = []
    for _ in range(n):
        name, fn, _w = rnd.choice(bag)
        out.append({"family": name, "spec": fn(rnd)})
    return out


# --------------------------------------------------------------------------- Coq emission
def coq_ref(r):
    if r[0] == "o":
        return f"RObj {r[1]}%nat"
    return f"RTmp {r[1]} " + C.clist([coq_ref(k) for k in r[2]], "ref")


def coq_heap(heap):
    return C.clist([f"mkObj {k} " + C.clist([coq_ref(x) for x in kids], "ref") for k, kids in heap], "obj")


def show_nats(l):
    return "".join(f"{x}," for x in l)


def model_cases(R, items, tag, nodes=False):
    """items: (heap, root index, expected text).  Returns list of (index, model text) disagreements."""
    bad = []
    files = []
    for s in range(0, len(items), 60):
        chunk = items[s:s + 60]
        body = ["From Skv Require Import Corr Sharing.", "From Coq Require Import List.", "Import ListNotations.",
                "Definition cases : list ((heap * nat) * pstr) := " +
                C.clist([f"(({coq_heap(h)}, {root}%nat), {C.cstr(exp)})" for h, root, exp in chunk], "((heap * nat) * pstr)") + ".",
                f"Eval vm_compute in mismatches (fun c => predict {C.cbool(nodes)} bump (fst c) (snd c)) cases."]
        f = R.gen / f"Cases_{tag}_{s // 60}.v"
        f.write_text("\n".join(body) + "\n")
        files.append((s, f))
    outs = C.coqc_many([f for _, f in files], R.gen)
    for s, f in files:
        for i, got in parse_mismatches(outs[f]):
            bad.append((s + i, got))
    R.checker_cmds.append("coqc Cases_c06_*.v (Eval vm_compute in mismatches (predict bump))")
    return bad


# --------------------------------------------------------------------------- implementation runs
def run_impl_graphs(cases, opts, nworkers=6):
    chunks = [cases[i::nworkers] for i in range(nworkers)]

    def one(chunk):
        if not chunk:
            return []
        p = C.run_impl("impl_share.py", input_obj={"mode": "graphs", "opts": opts, "cases": [c["spec"] for c in chunk]}, timeout=900)
        if p.returncode != 0:
            raise RuntimeError("impl_share failed: " + p.stderr.decode(errors="replace")[-1500:])
        return json.loads(p.stdout)
    with ThreadPoolExecutor(nworkers) as ex:
        res = list(ex.map(one, chunks))
    out = [None] * len(cases)
    for w, rs in enumerate(res):
        for j, r in enumerate(rs):
            out[w + j * nworkers] = r
    return out


def oracle(rec):
    """C06's statement on the implementation's observable behaviour alone -> [(kind, extra sig, what)]"""
    out = []
    if rec.get("build") != "ok":
        return out
    if rec.get("dump") != "ok":
        if str(rec.get("dump")).startswith("raises-under-pressure"):
            out.append(("dump-fails-under-pressure", {}, f"dumps succeeded twice, then failed with allocator pressure: {rec['dump']}"))
        else:
            out.append(("dump-fails", {}, f"dumps of a DAG of supported values raises: {rec['dump']}"))
        return out
    for kind, what in rec.get("state_problems", []):
        out.append((kind, {"phase": "recorded"}, what))
    for kind, what in rec.get("pressure_problems", []):
        out.append((kind, {"phase": "pressure"}, what))
    if rec.get("load") != "ok":
        out.append(("load-fails", {}, f"the archive of a supported DAG does not load: {rec.get('load')}"))
        return out
    if rec.get("redump"):
        out.append(("dump-fails", {"redump": True}, f"the loaded value cannot be dumped again: {rec['redump']}"))
    if not rec["same"]:
        out.append(("content-differs", {}, f"loaded value differs from the original: {rec.get('fp0', '')[:300]} vs {rec.get('fp2', '')[:300]}"))
    if not rec["part_same"]:
        out.append(("sharing-differs", {"by": "identity_partition"},
                    f"identity partition over corresponding paths differs: original {rec.get('part0')} loaded {rec.get('part2')}"))
    if "seq2" in rec and rec["seq0"] != rec["seq2"]:
        out.append(("sharing-differs", {"by": "visit-sequence"},
                    f"identity classes along the dump order differ: original {rec['seq0'][:80]} loaded {rec['seq2'][:80]}"))
    if rec["members"] != rec["arraylike_objects"] or rec["members_recorded"] != rec["arraylike_objects"]:
        out.append(("member-count", {}, f"{rec['arraylike_objects']} distinct array/sparse objects went through get_state, the archive has "
                                        f"{rec['members_recorded']} / {rec['members']} id-named members"))
    if rec["missing_member_for"]:
        out.append(("member-count", {"missing": True}, f"no member named after id() for array-like objects of type {rec['missing_member_for']}"))
    if rec.get("members_reloaded") is not None and rec["members_reloaded"] != rec["members"]:
        out.append(("member-count", {"redump": True}, f"dumping the loaded value gives {rec['members_reloaded']} id-named members instead of {rec['members']}"))
    if rec.get("masked_visits") and rec["masked_visits"][0] > 1:
        out.append(("array-stored-again", {"type": "MaskedArray"},
                    f"a MaskedArray referenced {rec['masked_visits'][0]} times has its data and mask written {rec['masked_visits'][0]} times"))
    return out


def check_cases(R, cases, opts, tag="c06"):
    recs = run_impl_graphs(cases, opts)
    items, idx = [], []
    for i, (c, r) in enumerate(zip(cases, recs)):
        R.count("family:" + c["family"])
        if r.get("build") != "ok" or r.get("dump") != "ok":
            R.count("skipped:" + str(r.get("build") if r.get("build") != "ok" else r.get("dump"))[:50])
            R.case({"spec": c["spec"]}, nontrivial=False)
            continue
        R.case({"heap": r["heap"], "seq0": r["seq0"]}, nontrivial=len(r["heap"]) > 1)
        R.count("shared_groups:" + str(min(r.get("shared_groups", 0), 8)))
        R.count("temporaries:" + str(min(r["n_tmp"] // 10 * 10, 100)) + "+")
        R.count("pressure_calls", r.get("pressure_calls", 0))
        for k, _ in r["heap"]:
            R.count("kind:" + k)
        if r["unstable"]:
            R.count("unstable-visit-structure")
        if r.get("load") == "ok" and "seq2" in r and len(r["heap"]) <= 250 and r["unfold_len"] <= 3000 and r["depth"] < FUEL - 1 and not r["unstable"]:
            exp = show_nats(r["seq0"]) + "|" + show_nats(r["seq2"]) + "|" + str(r["members"])
            items.append((r["heap"], r["root"][1], exp))
            idx.append(i)
        else:
            R.count("not-sent-to-model")
    bad = model_cases(R, items, tag) if items else []
    R.disagreements += len(bad)
    for j, got in bad[:10]:
        i = idx[j]
        R.obligation_broken("correspondence C06/partition",
                            json.dumps({"spec": cases[i]["spec"], "heap": recs[i]["heap"], "implementation": items[j][2], "model": got})[:3000])
    for c, r in zip(cases, recs):
        for kind, extra, what in oracle(r):
            R.violation({"kind": kind, **extra}, what, {"spec": c["spec"], "family": c["family"], "opts": opts,
                                                        "observed": {k: v for k, v in r.items() if k not in ("heap",)}})
    return recs, bad


def probes(R):
    """fixed witnesses of the recorded findings, replayed on every run"""
    p = C.run_impl("impl_share.py", input_obj={"mode": "ladder", "ns": list(range(4, 15))}, timeout=600)
    if p.returncode != 0:
        R.obligation_broken("probe D11", p.stderr.decode(errors="replace")[-800:])
        return
    lad = json.loads(p.stdout)
    R.notes["D11_ladder"] = lad
    ratios = [b["schema_bytes"] / a["schema_bytes"] for a, b in zip(lad, lad[1:])]
    R.notes["D11_ratios"] = [round(x, 3) for x in ratios]
    # model: the schema of the n-rung ladder has 2^(n+1)-1 nodes (C06_dump_size_exponential: >= 2^n)
    items = []
    for e in lad[:7]:
        n = e["n"]
        heap = [["PList", []]] + [["PList", [["o", i], ["o", i]]] for i in range(n)]
        seq = []

        def unfold(i):
            seq.append(i)
            if i:
                unfold(i - 1)
                unfold(i - 1)
        unfold(n)
        ren = {}
        s = show_nats([ren.setdefault(a, len(ren)) for a in seq])
        items.append((heap, n, f"{s}|{s}|0|{e['nodes']}"))
    bad = model_cases(R, items, "c06_ladder", nodes=True)
    for j, got in bad:
        R.obligation_broken("correspondence C06/ladder-size", json.dumps({"n": lad[j]["n"], "implementation_nodes": lad[j]["nodes"], "model": got[-40:]}))
    for e in lad:
        R.case({"ladder": e["n"], "nodes": e["nodes"]})
        if not e["loaded_is_ladder"]:
            R.violation({"kind": "sharing-differs", "shape": "ladder"}, f"the {e['n']}-rung ladder does not load as a ladder", {"ladder": e["n"]})
    if all(x >= 1.9 for x in ratios) and all(e["nodes"] == 2 ** (e["n"] + 1) - 1 for e in lad):
        R.violation({"kind": "exponential-dump", "shape": "ladder"},
                    f"schema bytes for n=4..14 doubly-referenced lists: {[e['schema_bytes'] for e in lad]} (ratio {min(ratios):.2f}..{max(ratios):.2f} per rung); "
                    f"audit of n=14 takes {lad[-1]['audit_s']} s", {"ladder": [4, 14]})
    p = C.run_impl("impl_share.py", input_obj={"mode": "probe"}, timeout=300)
    if p.returncode != 0:
        R.obligation_broken("probe masked", p.stderr.decode(errors="replace")[-800:])
        return
    pr = json.loads(p.stdout)
    R.notes["probe"] = pr
    for label, got in pr.get("load_time_id_collisions") or []:
        R.violation({"kind": "load-time-id-in-memo", "id": label},
                    f"a saved __id__ equal to {label} in the loading process makes the node load as {got}: the loader put an id of its own into the memo of saved ids",
                    {"probe": "load_time_id_collisions", "id": label})
    if pr["array_four_refs_members"] != 1:
        R.violation({"kind": "member-count", "probe": "array-four-refs"}, f"one ndarray referenced four times is stored {pr['array_four_refs_members']} times", {"probe": "array"})
    if not pr["masked_twice_loaded_shared"]:
        R.violation({"kind": "sharing-differs", "probe": "masked"}, "[m, m] loads as two masked arrays", {"probe": "masked"})
    if pr["masked_twice_members"] != pr["masked_once_members"]:
        R.violation({"kind": "array-stored-again", "type": "MaskedArray"},
                    f"[m, m] with one MaskedArray m stores {pr['masked_twice_members']} .npy members, [m] stores {pr['masked_once_members']}", {"probe": "masked"})


def run(R, only=None):
    R.trusted_base += ["Coq 8.16.1 kernel + vm_compute (no native_compute)",
                       "model of CPython object lifetime: objects live at the same time have distinct id(); a dead object's id may be re-used (adversarial allocator)",
                       "harness/impl_share.py: get_state/clear_memo wrappers, heap abstraction from two recorded dumps, harness/absval.py fingerprint, impl_codec.identity_partition"]
    R.assumptions += ["the caller's objects stay alive during the dump (they are reachable from the root the caller holds)",
                      "temporaries are allocated in the model when handed to get_state; CPython allocates nested temporaries earlier -- same set of admissible address assignments",
                      "the tolist() list of an object array is a schema node in the model (its id is dropped by the implementation): over-approximation",
                      "scalars, functions, types, slices, bytes are left out of the abstracted heap (they are pinned like every other value: checked by the state correspondence)",
                      "CPython's allocator cannot be driven adversarially from a test: theorems cover all allocators, runs cover the real one under injected pressure"]
    R.prove("C06")
    rnd = random.Random(R.seed)
    n = 260 if R.tier == "quick" else 2500
    cases = only or gen_cases(rnd, n)
    opts = {"churn": True}
    recs, bad = check_cases(R, cases, opts)
    R.notes["rule"] = ("generated DAGs (families dag/manyarrays/tempheavy/ladder/estimators) -> STATE: memo holds every object handed to get_state at "
                       "clear_memo (by identity), __id__ = id(value), ids injective; BEHAVIOUR: fingerprint, identity partition and visit-order identity "
                       "classes of original vs loaded, id-named member count = distinct array-like objects, under allocator pressure; MODEL: "
                       "Sharing.predict (vm_compute) on the abstracted heap vs implementation; non-trivial = more than one object; distinct = distinct (heap, classes)")
    R.notes["guards"] = ["C06_unpinned_refuted: without pinning two key_types lists get one id and load as one list (reuse allocator, 3 objects)",
                         "C06_unpinned_aliases: without pinning two lists of the caller load as one object (5 objects)",
                         "C06_array_once: heap_ok h (no array temporaries); C06_array_once_general covers temporaries"]
    R.notes["not_modelled"] = ["cyclic graphs (the dump does not terminate: RecursionError)", "CPython's real allocator", "content of payloads (C04/C05)"]
    allk = ["PList", "PTuple", "PDict", "PSet", "PDefaultDict", "PBytearray", "PArray", "PSparse", "PObjArray", "PMasked", "PObject", "PRng", "POther"]
    R.notes["uncovered"] = [k for k in allk if "kind:" + k not in R.distribution]
    for c, r in list(zip(cases, recs))[:2]:
        R.sample({"spec": c["spec"], "heap": r.get("heap"), "classes_original": r.get("seq0"), "classes_loaded": r.get("seq2"),
                  "members": r.get("members"), "temporaries": r.get("n_tmp")})
    if not only:
        probes(R)
    if R.broken and not only:
        # search oracle: more graphs, biased to the families that create many temporaries / many arrays
        extra = []
        r2 = random.Random(R.seed + 1)
        for _ in range(150):
            f = r2.choice([("tempheavy", fam_tempheavy), ("manyarrays", fam_manyarrays), ("dag", fam_dag)])
            extra.append({"family": f[0], "spec": f[1](r2)})
        recs2 = run_impl_graphs(extra, opts)
        nfound = 0
        for c, r in zip(extra, recs2):
            for kind, ex, what in oracle(r):
                nfound += 1
                R.violation({"kind": kind, **ex}, what, {"spec": c["spec"], "family": c["family"], "opts": opts,
                                                        "observed": {k: v for k, v in r.items() if k != "heap"}})
        R.notes["search"] = f"search oracle ran on {len(cases)} + {len(extra)} graphs: {nfound} failing observations"


def replay(R, rep):
    rp = rep["replay"]
    if "spec" in rp:
        run(R, only=[{"family": rp.get("family", "replay"), "spec": rp["spec"]}])
    else:
        R.prove("C06")
        probes(R)
