"""C19 -- malformed archives fail cleanly."""
import json
import random
import shutil
import time
from concurrent.futures import ThreadPoolExecutor

import common as C
import gen_archives as G
import gen_values as GV
import io_common as IO


def ladder_schema(n):
    st = {"__class__": "list", "__module__": "builtins", "__loader__": "ListNode", "__id__": 1000, "content": []}
    for i in range(n):
        st = {"__class__": "list", "__module__": "builtins", "__loader__": "ListNode", "__id__": 1001 + i, "content": [st, {"__id__": st["__id__"]}]}
    st["protocol"] = 2
    return st


def byte_mutations(rnd, data, k):
    out = []
    for _ in range(k):
        b = bytearray(data)
        r = rnd.random()
        if r < 0.4 and b:
            for _ in range(rnd.choice([1, 1, 2, 8])):
                i = rnd.randrange(len(b))
                b[i] ^= 1 << rnd.randrange(8)
        elif r < 0.7 and b:
            b = b[: rnd.randrange(len(b))]
        elif r < 0.85:
            i = rnd.randrange(len(b) + 1)
            b[i:i] = bytes(rnd.randrange(256) for _ in range(rnd.choice([1, 4, 64])))
        else:
            i = rnd.randrange(max(1, len(b)))
            del b[i: i + rnd.choice([1, 16, 256])]
        out.append(bytes(b))
    return out


def npy_header_mutations(data):
    """structured corruption of binary members: a well-formed .npy header that announces another dtype (object, a bigger
    item size) or another shape than the payload has -- the header parses, the damage is only met when the array is built"""
    import io
    import re
    import zipfile
    out = []
    try:
        z = zipfile.ZipFile(io.BytesIO(data))
        members = {n: z.read(n) for n in z.namelist()}
    except Exception:
        return out
    for name, blob in members.items():
        if not name.endswith(".npy") or not blob.startswith(b"\x93NUMPY"):
            continue
        variants = []
        m = re.search(rb"'descr': '([<>|][a-zA-Z]\d*)'", blob[:256])
        if m:
            old = m.group(0)
            for new_descr in (b"|O", b"<c16", b"<U8", b"|V16", b"<M8"):
                new = b"'descr': '" + new_descr + b"'"
                if len(new) <= len(old):
                    variants.append(blob.replace(old, new + b" " * (len(old) - len(new)), 1))
        m = re.search(rb"'shape': \(([0-9, ]*)\)", blob[:256])
        if m:
            old = m.group(0)
            for new_shape in (b"(9,)", b"(0,)", b"()"):
                new = b"'shape': " + new_shape
                if len(new) <= len(old):
                    variants.append(blob.replace(old, new + b" " * (len(old) - len(new)), 1))
        for v in variants:
            buf = io.BytesIO()
            with zipfile.ZipFile(buf, "w") as zo:
                for n2, b2 in members.items():
                    zo.writestr(n2, v if n2 == name else b2)
            out.append(buf.getvalue())
        break
    return out


EXTREME_PROTOCOLS = [float("-inf"), float("inf"), float("nan"), -10 ** 18, 10 ** 18, -1, 1e300, -1e300, 0.5, True, "2", None, [], {}]


def run_workers(R, cfg, cases, shards=8, timeout=1500):
    shards = max(1, min(shards, len(cases)))
    chunks = [cases[i::shards] for i in range(shards)]

    def one(chunk):
        p = C.run_impl("impl_io.py", input_obj={"mode": "robust", "cases": [cfg] + chunk}, timeout=timeout)
        if p.returncode != 0:
            # the worker itself died: that is an observation (crash of the interpreter), not a harness error;
            # re-run the chunk one case per process to see which input does it
            if len(chunk) == 1:
                return [{"worker_crash": p.returncode, "stderr": p.stderr.decode(errors="replace")[-400:]}]
            res = []
            for c in chunk:
                res += one([c])
            if not any("worker_crash" in r for r in res):
                res[0] = {"worker_crash": p.returncode, "stderr": "the worker died on the whole chunk but on no single case: " + p.stderr.decode(errors="replace")[-300:]}
            return res
        return json.loads(p.stdout)
    with ThreadPoolExecutor(shards) as ex:
        outs = list(ex.map(one, chunks))
    res = [None] * len(cases)
    for s, o in enumerate(outs):
        for k, r in enumerate(o):
            res[s + k * shards] = r
    return res


def judge(R, what, case_desc, rec):
    if "worker_crash" in rec:
        R.violation({"kind": "interpreter-crash", "input": what}, f"worker process died with status {rec['worker_crash']}: {rec['stderr'][-200:]}", case_desc)
        return
    for name, (r, dt) in rec["calls"].items():
        R.count(f"{what}:{name}:{r.split(':')[0]}")
        if r == "HANG":
            R.violation({"kind": "hang", "call": name.split("(")[0], "input": what}, f"{name} did not terminate within the alarm", case_desc)
        elif what != "d11-ladder" and isinstance(dt, (int, float)) and dt > PROMPT_S:
            R.violation({"kind": "not-prompt", "call": name.split("(")[0], "input": what}, f"{name} took {dt:.1f} s on an archive of a few kB (outcome {r.split(':')[0]})", case_desc)
        elif r.startswith("BASEEXC"):
            R.violation({"kind": "non-ordinary-exception", "call": name.split("(")[0], "exc": r}, f"{name} raised {r}", case_desc)
    if rec["changed"]:
        sch = (case_desc.get("case") or {}).get("schema") or {}
        via = "RandomGeneratorNode.bit_generator" if sorted(rec["changed"]) == ["np.random"] and "RandomGeneratorNode" in json.dumps(sch) else None
        R.violation({"kind": "process-state-changed", "what": sorted(rec["changed"]), "via": via}, f"process-wide state changed: {json.dumps(rec['changed'])[:300]}", case_desc)


DAMAGED_NAMES = ["sklearn.ensemble._hist_gradient_boosting.gradient_boosting!", "sklearn.linear_model._logistic ", "sklearn.neighbors._classification.\n",
                 "sklearn.ensemble._hist_gradient_boosting..gradient_boosting", "numpy.random._generator.", "scipy.sparse._csr-", "a" * 20000,
                 "a." * 60 + "!", "sklearn.feature_extraction.text" + "." + "_" * 48 + "\u00e9!"]
PROMPT_S = 15.0      # a single call on a few-kB archive takes milliseconds; the alarm (HANG) is at 30 s


def zip_directory_mutations(data):
    """central-directory records (signature PK\\x01\\x02): CRC at +16, compressed size at +20, uncompressed size at +24, local header
    offset at +42 -- each of them raised / lowered, one field of one record at a time"""
    import struct
    out = []
    pos = data.find(b"PK\x01\x02")
    while pos != -1 and len(out) < 64:
        for off in (16, 20, 24, 42):
            (v,) = struct.unpack_from("<I", data, pos + off)
            for nv in (v + 65536, v + 1, max(v - 1, 0), 0xFFFFFFF0):
                if nv != v:
                    b = bytearray(data)
                    struct.pack_into("<I", b, pos + off, nv & 0xFFFFFFFF)
                    out.append(bytes(b))
        pos = data.find(b"PK\x01\x02", pos + 4)
    return out


def probe_cases(snap):
    """fixed witness of the open finding D03/C19: a schema edit of one string makes load() call numpy.random.seed()"""
    J = lambda v: {"__class__": "str", "__module__": "builtins", "__loader__": "JsonNode", "content": json.dumps(v), "is_json": True}
    tn = {"__class__": "str", "__module__": "builtins", "__loader__": "TypeNode", "__id__": 9}
    D = {"__class__": "dict", "__module__": "builtins", "__loader__": "DictNode", "__id__": 10, "content": {"bit_generator": J("seed")},
         "key_types": {"__class__": "list", "__module__": "builtins", "__loader__": "ListNode", "content": [tn], "__id__": 11}}
    sch = {"__class__": "Generator", "__module__": "numpy.random._generator", "__loader__": "RandomGeneratorNode", "__id__": 1, "protocol": 1,
           "content": {"bit_generator": D}}
    return [{"schema": sch, "members": [], "tspec": "none", "tseed": 0, "show": "all", "malformed": True, "wellformed": False, "notes": ["probe: bit_generator='seed'"]}]


def run(R, only_cases=None):
    snap = R.snapshot()
    R.trusted_base += ["Coq 8.16.1 kernel + vm_compute", "harness/snapshot.py", "workers with SIGALRM, exit-status and process-state snapshots (harness/impl_io.py mode robust)"]
    R.assumptions += ["theorems cover schema-level malformation (arbitrary JSON after json.loads); byte-level corruption is handled by zipfile / json / numpy / scipy "
                      "and is only exercised (search support), see not_modelled"]
    R.notes["not_modelled"] = ["byte-level corruption inside zipfile, json.loads, np.load, scipy load_npz, Cython __setstate__", "interpreter recursion limit inside json.loads",
                               "interpreter recursion limit on graph paths through repeated ids (a tower of 8 blocks of 60 nested lists chained by id references is shallow as JSON but deep as a walk: "
                               "the model visualizes it, the implementation raises RecursionError -- both ordinary outcomes)",
                               "schemas nested deeper than ~250 levels (the implementation raises RecursionError before the model's fuel of 400 is reached)"]
    if snap is None:
        return
    R.prove("C19")
    scratch = C.BUILD / "scratch" / "C19"
    shutil.rmtree(scratch, ignore_errors=True)
    rnd = random.Random(R.seed)
    n = 400 if R.tier == "quick" else 4000
    # (a) schema-level mutations: model vs implementation, every aspect
    cases = only_cases or (probe_cases(snap) + [G.gen_case(rnd, malformed_p=1.0) for _ in range(n)])
    try:
        recs, bad, _ = IO.run_batch(R, cases, aspects=("gut", "audit", "vis", "rows"), tag="c19")
        IO.report_disagreements(R, cases, recs, bad, "C19")
    except Exception as e:  # noqa
        # the implementation side of the batch did not finish (a call that hangs or kills the interpreter): the correspondence
        # is broken, and the workers of (b) -- one alarm per call, crashes isolated per case -- say on which input
        R.obligation_broken("correspondence C19/runner", f"{type(e).__name__}: {str(e)[-600:]}")
    # (b) clean failure observed on the implementation: schema-level ...
    cfg = {"scratch": str(scratch), "alarm": 30}
    rob = run_workers(R, cfg, [{"schema": c["schema"], "members": c["members"]} for c in cases])
    for c, r in zip(cases, rob):
        judge(R, "schema-mutation", {"case": {k: c[k] for k in ("schema", "members", "show")}, "T": None}, r)
    if only_cases is None:
        # ... the protocol field pushed to the extremes of what JSON can say (implementation only: the model's floats
        # are half-integers) ...
        rnd_x = random.Random(R.seed + 19)
        base = [G.gen_case(rnd_x, malformed_p=0.0) for _ in range(6)]
        xcases = []
        for c in base:
            for pv in EXTREME_PROTOCOLS:
                sch = dict(c["schema"])
                sch["protocol"] = pv
                xcases.append({"schema": sch, "members": c["members"]})
        xrob = run_workers(R, cfg, xcases)
        for c, r in zip(xcases, xrob):
            R.case({"extreme-protocol": repr(c["schema"]["protocol"]), "root": c["schema"].get("__loader__")}, nontrivial=True)
            judge(R, "extreme-protocol", {"case": {"schema": json.loads(json.dumps(c["schema"], default=str)) if not isinstance(c["schema"]["protocol"], float) else
                                                   {**{k: v for k, v in c["schema"].items() if k != "protocol"}, "protocol": repr(c["schema"]["protocol"])},
                                                   "members": c["members"], "show": "all"}, "protocol_repr": repr(c["schema"]["protocol"]), "T": None}, r)
        R.notes["extreme_protocol_cases"] = len(xcases)
        # ... long names damaged near their end (a stray character, a trailing blank or dot, a doubled dot, a line break) and
        # very long names in the type-name slots of every node of a few well-formed archives (implementation only: what is
        # required here is a prompt, ordinary outcome -- validation of such names must not cost more than reading them)
        dcases = []
        for c in base[:3]:
            nodes = [st for _p, st in G.all_paths(c["schema"]) if isinstance(st, dict) and "__loader__" in st][:4]
            for k, _st in enumerate(nodes):
                for slot in ("__module__", "__class__"):
                    for nm in DAMAGED_NAMES:
                        sch = json.loads(json.dumps(c["schema"]))
                        tgt = [st for _p, st in G.all_paths(sch) if isinstance(st, dict) and "__loader__" in st][k]
                        tgt[slot] = nm
                        dcases.append({"schema": sch, "members": c["members"]})
        drob = run_workers(R, cfg, dcases)
        for c, r in zip(dcases, drob):
            R.case({"damaged-name": C.sha(c["schema"])}, nontrivial=True)
            judge(R, "damaged-name", {"case": {"schema": c["schema"], "members": c["members"], "show": "all"}, "T": None}, r)
        R.notes["damaged_name_cases"] = len(dcases)
        # ... and byte-level mutations of real dumps (search support only)
        nb = 60 if R.tier == "quick" else 600
        specs = [GV.gen_value(rnd, supported=True, max_depth=2) for _ in range(nb)]
        p = C.run_impl("impl_codec.py", input_obj={"mode": "dump_hex", "cases": specs}, timeout=600)
        if p.returncode == 0:
            dumps = [d for d in json.loads(p.stdout) if d]
            bcases = []
            nhdr = 0
            for d in dumps:
                for m in byte_mutations(rnd, bytes.fromhex(d), 4):
                    bcases.append({"hex": m.hex()})
                if nhdr < (40 if R.tier == "quick" else 400):
                    for m in npy_header_mutations(bytes.fromhex(d)):
                        bcases.append({"hex": m.hex()})
                        nhdr += 1
            # arrays are rare in random values: make sure some member-bearing dumps are there
            p2 = C.run_impl("impl_codec.py", input_obj={"mode": "dump_hex", "cases": [["ndarray", "<f8", [3], "C", 1], ["list", [["ndarray", "<i8", [2, 2], "C", 2], ["ndarray", "<f4", [4], "C", 3]]]]}, timeout=300)
            if p2.returncode == 0:
                for d in json.loads(p2.stdout):
                    if d:
                        for m in npy_header_mutations(bytes.fromhex(d)):
                            bcases.append({"hex": m.hex()})
                            nhdr += 1
                        # the zip directory lies about a member: each size / offset / CRC field of each central-directory record
                        # moved up or down (the member data stays valid)
                        for m in zip_directory_mutations(bytes.fromhex(d)):
                            bcases.append({"hex": m.hex()})
                            nhdr += 1
            R.notes["npy_header_mutations"] = nhdr
            brob = run_workers(R, cfg, bcases)
            for c, r in zip(bcases, brob):
                R.case({"bytes": C.sha(c["hex"])}, nontrivial=True)
                judge(R, "byte-mutation", {"hex": c["hex"][:4000], "truncated": len(c["hex"]) > 4000}, r)
            R.notes["byte_level_cases"] = len(bcases)
        else:
            R.obligation_broken("C19 byte-level sweep", p.stderr.decode()[-600:])
        # (c) known finding D11: the audit of a ladder doubles with every rung
        times = []
        for nr in (14, 16, 18):
            sch = ladder_schema(nr)
            t0 = time.time()
            r = run_workers(R, {"scratch": str(scratch), "alarm": 120, "only_audit": True}, [{"schema": sch, "members": []}], shards=1)[0]
            times.append((nr, len(json.dumps(sch)), r["calls"]["get_untrusted_types"][1] if "calls" in r else None))
        R.notes["ladder_audit_seconds"] = times
        if all(t[2] is not None for t in times) and times[2][2] > 0.2 and times[2][2] > 2.5 * max(times[1][2], 1e-3) and times[1][2] > 2.5 * max(times[0][2], 1e-3):
            R.violation({"kind": "not-prompt", "shape": "ladder-of-shared-lists"},
                        f"get_untrusted_types time grows x4 per two rungs on a few-kB schema: {times} (rungs, schema bytes, seconds)",
                        {"schema_builder": "ladder_schema(n)", "measured": times})
    R.notes["rule"] = ("(a) generated archives with 1-3 stacked schema-level mutations (type confusion of any slot, dropped keys, repeated/cross-wired ids, cycles, wrong members, protocol games) "
                       "compared with the model on every aspect; (b) the same archives plus byte-level mutations of real dumps run in workers under an alarm with process-state snapshots; "
                       "non-trivial = inspection succeeded or load returned")
    R.notes["uncovered"] = IO.uncovered_kinds(R, snap)
    R.sample({"schema": cases[0]["schema"], "notes": cases[0].get("notes"), "implementation": {k: recs[0][k] for k in ("gut", "load", "vis")}, "robust": rob[0]})
    shutil.rmtree(scratch, ignore_errors=True)


def replay(R, rep):
    if "case" in rep["replay"]:
        c = dict(rep["replay"]["case"])
        c.update(T=rep["replay"].get("T"), tspec="explicit", tseed=0)
        run(R, only_cases=[c])
