"""C01 -- loading never uses code or objects the caller did not vouch for."""
import json
import random

import common as C
import gen_archives as G
import io_common as IO

FIXED_CTOR = {"PartialNode", "MaskedArrayNode", "DefaultDictNode", "SliceNode", "BytesNode", "BytearrayNode", "NdArrayNode",
              "SparseMatrixNode", "DTypeNode", "JsonNode", "TupleNode"}
HARMLESS_TYPES = {"builtins.NoneType", "builtins.int", "builtins.float", "builtins.str", "builtins.bool", "builtins.list", "builtins.dict",
                  "builtins.tuple", "builtins.set", "builtins.bytes", "builtins.bytearray", "builtins.slice"}


def J(v):
    return {"__class__": "str", "__module__": "builtins", "__loader__": "JsonNode", "content": json.dumps(v), "is_json": True}


def L(items, i):
    return {"__class__": "list", "__module__": "builtins", "__loader__": "ListNode", "content": items, "__id__": i}


def D(kv, i):
    tn = {"__class__": "str", "__module__": "builtins", "__loader__": "TypeNode", "__id__": 9}
    return {"__class__": "dict", "__module__": "builtins", "__loader__": "DictNode", "content": dict(kv), "key_types": L([tn for _ in kv], i + 1), "__id__": i}


def probe_cases():
    """fixed witnesses of the open findings D01 / D03 / D04 (they are the `..._refuted` theorems of coq/props/C01.v)"""
    method = {"__class__": "x", "__module__": "y", "__loader__": "MethodNode", "__id__": 1, "protocol": 2,
              "content": {"func": "__class__", "obj": J(1)}}
    bitgen = {"__class__": "Generator", "__module__": "numpy.random._generator", "__loader__": "RandomGeneratorNode", "__id__": 1, "protocol": 2,
              "content": {"bit_generator": D([("bit_generator", J("default_rng"))], 10), "seed_seq": D([("entropy", J(1))], 20)}}
    partial = {"__class__": "bar", "__module__": "foo", "__loader__": "PartialNode", "__id__": 1, "protocol": 2,
               "content": {"func": {"__class__": "sqrt", "__module__": "numpy", "__loader__": "FunctionNode", "__id__": 2},
                           "args": {"__class__": "tuple", "__module__": "builtins", "__loader__": "TupleNode", "content": [], "__id__": 3},
                           "kwds": D([], 4), "namespace": D([], 6)}}
    bound = {"__class__": "x", "__module__": "y", "__loader__": "MethodNode", "__id__": 1, "protocol": 2,
             "content": {"func": "fit", "obj": {"__class__": "Probe", "__module__": "verif_canary_pkg", "__loader__": "ObjectNode", "__id__": 2}}}
    out = []
    for sch, T in ((method, ["y.x"]), (bitgen, None), (partial, ["foo.bar"]), (bound, ["y.x", "verif_canary_pkg.Probe"])):
        out.append({"schema": sch, "members": [], "tspec": "explicit", "T": T, "tseed": 0, "show": "all", "malformed": False, "wellformed": True, "notes": ["probe"]})
    return out


def oracle(case, rec, all_defaults):
    """The property on the implementation's own observations: everything imported / instantiated / called / handed back
    because the archive named it must be in T under that name, or in a default-trusted family."""
    out = []
    T = set(rec["T"] or [])
    ok_names = T | all_defaults
    root = case["schema"].get("__loader__")
    for ev in rec["load_events"]:
        kind, _, rest = ev.partition(":")
        if kind == "R":
            m, _, c = rest.partition("|")
            if f"{m}.{c}" not in ok_names and (m, c) != ("numpy.random.bit_generator", "SeedSequence"):
                out.append(({"kind": "resolved-unvouched", "root_loader": root}, f"load resolved {m}.{c}, which is neither in trusted={sorted(T)} nor default-trusted"))
        elif kind == "A":
            out.append(({"kind": "unaudited-slot", "loader": "MethodNode", "slot": "content.func"},
                        f"MethodNode fetched attribute {rest!r} (a name chosen by the archive) from the constructed object; no audited name covers it"))
        elif kind == "M" and "numpy.random" not in rest:
            out.append(({"kind": "unaudited-slot", "loader": "OperatorFuncNode", "slot": "__class__"},
                        f"load resolved {rest.replace('|', '.')} through a module fixed by the code with an attribute chosen by the archive, unaudited"))
    # numpy.random.<name from the archive> may be looked up, but only bit generator classes may be called
    for c in rec.get("load_calls") or []:
        out.append(({"kind": "unaudited-slot", "loader": "RandomGeneratorNode", "slot": "bit_generator"},
                    f"load CALLED {c}, a name taken from the archive that is not a numpy bit generator class and was never audited"))
    for what, name in rec["load_ledger"]:
        cls = name.rsplit(".", 1)[0] if what == "call" and name.count(".") >= 2 else name
        vouched = (name in T or cls in T) if what != "import" else any(t.startswith(name + ".") for t in T)
        if not vouched:
            out.append(({"kind": "canary-" + what, "root_loader": root}, f"load performed {what} of {name} although trusted={sorted(T)}"))
    if rec["load"] == "returned":
        tn = rec.get("load_type")
        if tn not in ok_names and tn not in HARMLESS_TYPES and not rec.get("load_named_object"):
            site = "fixed-constructor" if root in FIXED_CTOR else ("MethodNode" if root == "MethodNode" else root)
            out.append(({"kind": "returned-unlisted-type", "site": site}, f"load returned an object of type {tn}; root node {root} named "
                        f"{case['schema'].get('__module__')}.{case['schema'].get('__class__')}, trusted={sorted(T)}"))
    return out


def run(R, only_cases=None):
    snap = R.snapshot()
    R.trusted_base += ["Coq 8.16.1 kernel + vm_compute", "harness/snapshot.py (class tables)",
                       "correspondence: harness/impl_io.py -- gettype/_import_obj/import_module/getattr wrapped from outside, canary package ledger, sys.addaudithook"]
    R.assumptions += ["what a vouched class does inside its own __new__/__setstate__/__init__ is the caller's responsibility (outside the model)",
                      "np.load(allow_pickle=False) and scipy.sparse.load_npz are trusted not to execute archive content",
                      "construct() success/failure is not modelled, only the order and arguments of name resolutions (observed trace must equal the model's when load returns, be a subset when it raises)"]
    if snap is None:
        return
    R.prove("C01")
    all_defaults = {n for r in snap["classes"].values() for n in r["defaults"] + r["down_extra"]}
    rnd = random.Random(R.seed)
    n = 500 if R.tier == "quick" else 6000
    if only_cases is None:
        cases = probe_cases()
        for _ in range(n):
            c = G.gen_case(rnd, malformed_p=0.25)
            c["tspec"] = rnd.choice(["reported", "reported", "superset", "subset", "none", "misleading"])
            cases.append(c)
    else:
        cases = only_cases
    recs, bad, _ = IO.run_batch(R, cases, aspects=("gut", "audit"), tag="c01")
    IO.report_disagreements(R, cases, recs, bad, "C01")
    nres = 0
    for c, r in zip(cases, recs):
        nres += len(r["load_events"])
        R.count("construct:" + ("ran" if r["load"] == "returned" or r["load_events"] else "not-reached"))
        for sig, what in oracle(c, r, all_defaults):
            R.violation(sig, what, {"case": {k: c[k] for k in ("schema", "members", "show")}, "T": r["T"],
                                    "observed": {k: r.get(k) for k in ("load", "load_type", "load_named_object", "load_events", "load_calls", "load_ledger", "gut")}})
    R.notes["resolution_events_observed"] = nres
    R.notes["rule"] = ("generated archives (every loader in every child slot, default / trusted / canary / near-miss names, shared and cyclic ids, protocols 0..current+1, "
                       "25% malformed) x trusted in {reported, superset, subset, none, misleading}; loads() runs under resolution wrappers and the canary ledger; "
                       "non-trivial = inspection succeeded or load returned")
    R.notes["uncovered"] = IO.uncovered_kinds(R, snap)
    R.notes["guards"] = ["C01_resolve_vouched covers gettype/_import_obj calls whose names come from the archive; excluded sites, each with a refuted theorem and an open finding: "
                         "MethodNode content.func (D01), fixed constructors under a foreign audited name (D04); the bit-generator name of a RandomGeneratorNode is resolved unaudited but, since the D03 fix, only numpy BitGenerator classes are called (observed: wrapped non-BitGenerator attributes log any call)"]
    for c, r in list(zip(cases, recs))[:3]:
        R.sample({"schema": c["schema"], "trusted": r["T"], "load": r["load"], "resolved": r["load_events"]})


def replay(R, rep):
    c = dict(rep["replay"]["case"])
    c.update(T=rep["replay"]["T"], tspec="explicit", tseed=0)
    run(R, only_cases=[c])
