"""C05 -- supported data round-trips exactly, and stably.  Also the shared plumbing of the codec
correspondences (C04, C05, C12): run the implementation on generated values (harness/impl_codec.py
mode codec), evaluate the Coq model (coq/io/Codec*.v) on the same values translated to `pval` terms
(harness/pval_emit.py), and compare the canonical texts."""
import json
import random
from concurrent.futures import ThreadPoolExecutor

import common as C
import gen_values as GV
from props.c08 import parse_mismatches

SHARDS = 8
EXACT = "(c05_case_exact Snapshot.registry Snapshot.current)"
SAME = "(c05_case_same Snapshot.registry Snapshot.current)"
PROVED = "(fun c => c05_guard (cc_facts c) (cc_denv c) (cc_base c) (cc_val c))"
COQ_SHARD = 40


def run_impl_codec(specs, opts, timeout=1500):
    """-> one record per spec (sharded over fresh interpreters)"""
    chunks = [specs[i::SHARDS] for i in range(SHARDS)]

    def one(chunk):
        if not chunk:
            return []
        p = C.run_impl("impl_codec.py", input_obj={"mode": "codec", "cases": [opts] + chunk}, timeout=timeout)
        if p.returncode != 0:
            raise RuntimeError("impl_codec failed: " + p.stderr.decode(errors="replace")[-1500:])
        return json.loads(p.stdout)
    with ThreadPoolExecutor(SHARDS) as ex:
        outs = list(ex.map(one, chunks))
    recs = [None] * len(specs)
    for s, o in enumerate(outs):
        for k, r in enumerate(o):
            recs[s + k * SHARDS] = r
    return recs


def qcstr(t):
    """a printable-ASCII text as one Coq string literal (a double quote is written twice), anything else as C.cstr does"""
    if t and all(32 <= ord(c) < 127 for c in t):
        return '(s "' + t.replace('"', '""') + '")'
    return C.cstr(t)


def big_cstr(text, chunk=1200):
    """long expected texts (estimator schemas: tens of thousands of characters) as a right-nested append of short literals:
    one literal of that length -- or its code-point list -- overflows coqc's stack"""
    if len(text) <= chunk:
        return qcstr(text)
    parts = [qcstr(text[i:i + chunk]) for i in range(0, len(text), chunk)]
    out = parts[-1]
    for part in reversed(parts[:-1]):
        out = f"(app {part} {out})"
    return out


def cases_text(rows, key):
    return C.clist((f"({r['term']}, {big_cstr(r[key])})" for r in rows), "(ccase * pstr)")


def model_compare(R, recs, tag, extra_defs="", flags=None, shard=None):
    """Coq evaluation of run_dump / run_load (and optional flag functions) on every modelled case.
    -> {aspect: [(index into recs, model's text window)]}, {flag: [bool per modelled case]}, modelled indices"""
    idx = [i for i, r in enumerate(recs) if r and r.get("term")]
    files = []
    shard = shard or COQ_SHARD
    for sh, lo in enumerate(range(0, len(idx), shard)):
        rows = [recs[i] for i in idx[lo:lo + shard]]
        body = ["From Skv Require Import CodecShow CodecGuards CodecFacts.", "From Gen Require Import Snapshot.", extra_defs,
                f"Definition dump_cases : list (ccase * pstr) := {cases_text(rows, 'dump')}.",
                f"Definition load_cases : list (ccase * pstr) := {cases_text(rows, 'load')}.",
                "Eval vm_compute in mismatches_win run_dump dump_cases.",
                "Eval vm_compute in mismatches_win (run_load Snapshot.registry Snapshot.current) load_cases."]
        for fl in (flags or []):
            body.append(f"Eval vm_compute in map (fun c => if {fl} (fst c) then 1%N else 0%N) dump_cases.")
        f = R.gen / f"Cases_{tag}_{sh}.v"
        f.write_text("\n".join(body) + "\n")
        files.append(f)
    outs = C.coqc_many(files, R.gen, timeout=1200)
    bad = {"dump": [], "load": []}
    flagvals = {fl: [] for fl in (flags or [])}
    for sh, f in enumerate(files):
        parts = outs[f].split("     = ")[1:]
        base = sh * shard
        for name, part in zip(("dump", "load"), parts[:2]):
            for k, txt in parse_mismatches("= " + part):
                bad[name].append((idx[base + k], txt))
        for fl, part in zip(flags or [], parts[2:]):
            import re
            m = re.search(r"\[(.*?)\]", part, flags=re.S)
            vals = [int(x) for x in re.findall(r"\d+", m.group(1))] if m else []
            flagvals[fl] += [v == 1 for v in vals]
    return bad, flagvals, idx


def report_mismatches(R, prop, specs, recs, bad):
    n = 0
    for aspect, lst in bad.items():
        for i, txt in lst:
            if txt.startswith("DOMAIN"):
                R.count("model:outside-domain")
                continue
            n += 1
            if n <= 12:
                R.obligation_broken(f"correspondence {prop}/{aspect}",
                                    f"spec={json.dumps(specs[i])[:300]} model=...{txt[:300]!r} implementation={recs[i][aspect][:200]!r}")
    R.disagreements = n
    return n


def spec_has(spec, tags):
    return any(t in GV.tags_in(spec) for t in tags)


# ------------------------------------------------------------------------------------------------
# the property's own oracle, on the implementation alone
def oracle_c05(spec, rec, k):
    out = []
    if rec.get("build") != "ok":
        return out
    if not rec.get("dump", "").startswith("ok:"):
        out.append(("dump-raises", f"dumps raised {rec.get('dump')} ({rec.get('msg')}) on a value of the supported grammar"))
        return out
    if not rec.get("load", "").startswith("ok:"):
        out.append(("load-raises", f"loads raised {rec.get('load')} ({rec.get('msg')}) on a value of the supported grammar"))
        return out
    if not rec.get("same"):
        out.append(("value-differs", f"loads(dumps(v)) differs from v: {rec.get('t0', '')[:300]} -> {rec['load'][3:303]}"))
    if rec.get("stable") is not True:
        out.append(("unstable", f"value after {k} further dump/load cycles: stable={rec.get('stable')}"))
    if not all(rec.get("draws", [])):
        out.append(("rng-stream", "a reloaded random generator does not continue the identical stream"))
    if not rec.get("pure", True):
        out.append(("dump-modifies", "the value's observation changed during dumps"))
    return out


def site_of(spec):
    """coarse, stable description of where a failing spec sits (for known_findings matching)"""
    tags = GV.tags_in(spec)
    for t in ("objarray", "defaultdict", "dict", "odict", "set", "tuple", "list", "partial", "masked", "ndarray", "sparse", "generator", "randomstate"):
        if t in tags:
            return t
    return spec[0]


def run(R, only=None):
    snap = R.snapshot()
    R.trusted_base += ["Coq 8.16.1 kernel + vm_compute (no native_compute)",
                       "harness/snapshot.py (registry, PROTOCOL)",
                       "correspondence: harness/pval_emit.py (value -> pval term, identity labels from id(), observation calls made once), "
                       "harness/absval.py + pval_emit.canon (what 'same value' means), harness/impl_codec.py mode codec, harness/values.py, harness/gen_values.py",
                       "numpy np.save/np.load, scipy save_npz/load_npz, RNG set_state/get_state, json.dumps/loads of floats: opaque tokens in the model "
                       "(preservation of the token by the real libraries is what the correspondence observes)",
                       "zipfile"]
    R.assumptions += ["floats are identified with their JSON text (repr): CPython's float(repr(x)) == x is assumed, exercised on the generated floats",
                      "C05_roundtrip_partial is proved on the decidable fragment c05_guard (arbitrary sharing; bytes / bytearray and object arrays of EVERY rank "
                      "-- 0, zero-length axes, cells anywhere in the fragment -- included; user objects on the generic object path -- any resolvable class without hidden "
                      "payload, any state of the fragment, nested and shared -- included: for them 'round trip' means same class name + equal state handed to __setstate__, the class's own "
                      "contract being a premise (C07); see coq/props/C05.v); "
                      "supported values outside it are covered by the per-case model evaluation and the correspondence only",
                      "the identity pattern of objects returned by __reduce__()/__getstate__()/get_state() is the same in the emitter's call and in the dump's call"]
    if snap is None:
        return
    R.prove("C05")
    rnd = random.Random(R.seed)
    n = 330 if R.tier == "quick" else 3000
    k = 3 if R.tier == "quick" else 12
    specs = only or (WITNESSES + [GV.gen_value(rnd, supported=True, max_depth=3 if R.tier == "quick" else 4, objects=True) for _ in range(n)])
    recs = run_impl_codec(specs, {"protocol": snap["protocol"], "cycles": k})
    bad, flags, idx = model_compare(R, recs, "c05", flags=["c05_case_supported", PROVED, EXACT, SAME])
    nsup = nproved = nexact = 0
    for j, i in enumerate(idx):
        sup = flags["c05_case_supported"][j] if j < len(flags["c05_case_supported"]) else False
        pr = flags[PROVED][j] if j < len(flags[PROVED]) else False
        nsup += sup
        nproved += pr
        nexact += bool(flags[EXACT][j]) if j < len(flags[EXACT]) else 0
        if sup and not (flags[SAME][j] if j < len(flags[SAME]) else False):
            R.obligation_broken("C05 model round trip", f"the model's loads(dumps(v)) differs from v for the supported value {json.dumps(specs[i])[:300]}")
        if not sup:
            R.count("model-guard:not-supported")
            R.obligation_broken("C05 grammar vs model guard",
                                f"the generator's supported value {json.dumps(specs[i])[:300]} is rejected by the model's `supported` predicate")
    R.notes["model_supported"] = f"{nsup}/{len(idx)} generated values satisfy the model's decidable `supported`; {nproved} of them lie in the fragment of C05_roundtrip_partial; for {nexact} the model's loads(dumps(v)) is v itself, identity labels included (the others contain an object met twice whose __reduce__()/get_state() temporaries differ per visit)"
    for spec, rec in zip(specs, recs):
        for t, c in (rec.get("kinds") or {}).items():
            R.count("kind:" + t, c)
        if rec.get("skip"):
            R.count("not-modelled:" + rec["skip"])
        R.case({"spec": spec}, nontrivial=rec.get("dump", "").startswith("ok:"))
        for kind, what in oracle_c05(spec, rec, k):
            R.violation({"kind": kind, "site": site_of(spec), "root": spec[0]}, what, {"spec": spec, "observed": {a: rec.get(a) for a in ("dump", "load", "stable", "draws", "msg")}})
    R.sample({"spec": specs[len(WITNESSES)], "implementation": {a: (recs[len(WITNESSES)].get(a) or "")[:300] for a in ("dump", "load")}, "model": "equal texts"})
    R.notes["rule"] = (f"values from gen_values(supported=True) (+ fixed witnesses): normalised archive text and canonical text of loads(dumps(v)) vs the Coq model; "
                       f"{k}-fold dump/load cycles and next RNG draws on the implementation; non-trivial = dumps succeeded; distinct = distinct specs")
    report_mismatches(R, "C05", specs, recs, bad)


# fixed values exercised on every run (former defects and corner cases of the grammar)
WITNESSES = [
    ["defaultdict", "list", [[["int", 1], ["list", [["int", 2]]]]]],                       # D25 (fixed in the repo)
    ["dict", [[["npscalar", "<i8", 3], ["int", 1]], [["npscalar", "<f8", 4], ["int", 2]], [["float", "0x1.8p+1"], ["none"]]]],
    ["objarray", [2, 2], [["int", 1], ["str", "s"], ["none"], ["float", "0x1.4p+1"]]],
    # D10 / C13-F1 (fixed in the repo): object arrays of rank 0 / rank >= 2 with sequence cells / zero-length axes keep their shape;
    # the shape tuple of a rank-0 array is the empty-tuple singleton, which may be a cell as well
    ["objarray", [], [["list", [["int", 1], ["int", 2]]]]],
    ["objarray", [2, 2], [["list", [["int", 1], ["int", 2]]], ["tuple", [["int", 3]]], ["tuple", []], ["list", []]]],
    ["list", [["objarray", [2, 0], []], ["objarray", [0, 2], []], ["objarray", [], [["tuple", []]]], ["objarray", [1, 2, 1], [["dict", [[["str", "k"], ["ref", 0]]]], ["ref", 0]]]]],
    ["list", [["str", "\U0001f600é\x00\"\\\n"], ["bigint", str(10 ** 400)], ["float", "nan"], ["float", "-0x0.0p+0"]]],
    # lone surrogates (not an adjacent high/low pair, which is finding C04-F4) in values and keys: json escapes them, nothing may try to encode them
    ["dict", [[["str", "k\udc00"], ["str", "a\ud83dx"]], [["str", "plain"], ["list", [["str", "\ud800"], ["str", "\udfff\ud800"]]]]]],
    ["tuple", [["list", []], ["ref", 0], ["ref", 0]]],
    ["odict", [[["str", "b"], ["int", 1]], [["str", "a"], ["int", 2]]]],
    ["ndarray", ">f8", [2, 3], "F", 3, True],
    ["generator", "Philox", 3, 2],
    # RandomState over a bit generator other than MT19937 (fixed in the repo: it was created over MT19937 and refused the state),
    # with a cached gaussian (odd draw count), and next to a plain one
    ["list", [["randomstate", 3, 1, "PCG64"], ["randomstate", 4, 2, "Philox"], ["randomstate", 5, 3, "SFC64"], ["randomstate", 6, 1, "PCG64DXSM"],
              ["randomstate", 7, 1, "MT19937"], ["randomstate", 7, 1]]],
    # arrays above a megabyte, in both memory layouts and next to a small one (size-dependent code paths)
    ["list", [["ndarray", "<f8", [400, 420], "F", 4, True], ["ndarray", "<f8", [400, 420], "C", 4, True], ["ndarray", "<i4", [300000], "C", 5, False],
              ["ndarray", ">f8", [2, 70000], "F", 6, False], ["ref", 0]]],
    ["dict", [[["str", "big"], ["ndarray", "<c16", [300, 250], "F", 7, False]], [["str", "m"], ["masked", ["ndarray", "<f8", [200000], "C", 1, False], 2]]]],
    ["generator", "PCG64", 5, 1, 3],
    ["sparse", "csr", [3, 4], 1, "noncanonical"],
    # user objects on the generic object path (inside `supported` and the proved fragment): a __dict__ bag with nested values; ONE
    # object reachable from a list twice and from inside another object's state; states that are not dicts (falsy ones: they
    # must still reach __setstate__; a None state -- an object with an empty __dict__ -- for which nothing is called, as in pickle: a
    # class whose __getstate__ returns None although it has state loses it under pickle as well and is not part of the grammar);
    # a __reduce__ constructor whose argument is a shared list;
    # a scipy sparse array (its __dict__); a fitted scikit-learn estimator (BaseEstimator.__getstate__())
    ["userobj", "Plain", [["a", ["list", [["int", 1], ["str", "x"]]]], ["coef_", ["ndarray", "<f8", [2, 3], "F", 3, False]], ["d", ["dict", [[["int", 1], ["none"]]]]]]],
    ["list", [["userobj", "Plain", [["a", ["int", 1]]]], ["ref", 0], ["userobj", "WithState", [["payload", ["ref", 0]]]], ["ref", 1]]],
    ["list", [["userobj", "FalsyState", [["flag", ["bool", False]]]], ["userobj", "FalsyState", [["flag", ["int", 0]]]], ["userobj", "FalsyState", [["flag", ["tuple", []]]]],
              ["userobj", "FalsyState", [["flag", ["dict", []]]]], ["userobj", "FalsyState", [["flag", ["str", ""]]]], ["userobj", "Plain", []],
              ["userobj", "FalsyState", [["flag", ["tuple", [["int", 1], ["list", [["int", 2]]]]]]]]]],
    ["tuple", [["list", [["int", 1]]], ["userobj", "ReduceCtor", [["x", ["ref", 0]], ["y", ["int", 0]]]], ["userobj", "ReduceCtor", [["x", ["userobj", "Plain", [["a", ["ref", 0]]]]]]]]],
    ["dict", [[["str", "m"], ["sparse", "csr_array", [3, 4], 2]], [["str", "o"], ["userobj", "WithState", [["payload", ["sparse", "coo_array", [5, 2], 1]]]]]]],
    ["estimator", "StandardScaler", 1, True],
]


def replay(R, rep):
    run(R, only=[rep["replay"]["spec"]])
