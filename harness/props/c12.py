"""C12 -- archives are well-formed and independent of sink and compression."""
import json
import random
import shutil
from concurrent.futures import ThreadPoolExecutor

import common as C
import gen_values as GV
from props import c05 as K

STORED, DEFLATED, BZIP2, LZMA = 0, 8, 12, 14
CONFIGS_QUICK = [(STORED, None), (DEFLATED, None), (DEFLATED, 1), (DEFLATED, 9), (BZIP2, None), (BZIP2, 1), (BZIP2, 9), (LZMA, None)]
CONFIGS_THOROUGH = CONFIGS_QUICK + [(DEFLATED, 0), (DEFLATED, 5), (BZIP2, 5), (STORED, 3), (LZMA, 3)]

# values with every member kind (npy, npz, bin), shared arrays/bytes, and plain JSON
WITNESSES = [
    ["list", [["ndarray", "<f8", [2, 3], "F", 1, False], ["ref", 0], ["bytes", "6162"], ["bytes", "6162"], ["sparse", "csr", [3, 4], 1], ["bytearray", "0102"]]],
    ["dict", [[["str", "a"], ["dtype", "<f8"]], [["str", "b"], ["masked", ["ndarray", "<i8", [3], "C", 1, False], 2]], [["int", 3], ["randomstate", 1, 2]]]],
    ["objarray", [2, 2], [["int", 1], ["str", "s"], ["none"], ["float", "0x1.4p+1"]]],
    # C13-F1 (repaired): a rank-0 object array was dumped with its cell's raw content where a list of states belongs; with members
    # below the cell, and arrays with a zero-length axis (two empty lists / none)
    ["objarray", [], [["list", [["bytes", "78"], ["ndarray", "<f8", [2], "C", 1, False]]]]],
    ["list", [["objarray", [2, 0], []], ["objarray", [0, 2], []], ["objarray", [], [["sparse", "csr", [3, 4], 1]]]]],
    ["generator", "PCG64", 1, 1],
    ["int", 7],
    ["userobj", "Plain", [["a", ["ndarray", "<i4", [2], "C", 3, False]]]],
    # C12-F1 (repaired with D08): two keys with one JSON spelling left the first value's member unreferenced; now dumps raises
    # ValueError at the second key and no archive exists (also with an array member, and below a list after a written member)
    ["dict", [[["int", 1], ["bytes", "78"]], [["str", "1"], ["bytes", "79"]]]],
    ["dict", [[["str", "1"], ["ndarray", "<f8", [2], "C", 1, False]], [["int", 1], ["sparse", "csr", [3, 4], 1]]]],
    ["list", [["bytes", "6162"], ["defaultdict", "list", [[["float", "0x1.8p+0"], ["bytearray", "0102"]], [["str", "1.5"], ["bytes", "79"]]]]]],
    # a dump that fails AFTER members were written (the unsupported element comes last in its container, below a dict value /
    # an attribute / a list): dumps raises and no archive exists -- an archive written nevertheless would hold unreferenced members
    ["dict", [[["str", "history"], ["list", [["ndarray", "<f8", [4], "C", 1, False], ["bytes", "726177"], ["complex", "0x1.0p+0", "-0x1.0p+1"]]]], [["str", "n"], ["int", 1]]]],
    ["userobj", "Plain", [["weights", ["ndarray", "<f8", [3], "C", 2, False]], ["extra", ["tuple", [["sparse", "csr", [3, 4], 1], ["generatorobj"]]]]]],
    ["list", [["bytearray", "0102"], ["dict", [[["str", "k"], ["list", [["ndarray", "<i8", [2], "C", 3, False], ["generatorobj"]]]]]], ["int", 2]]],
    # ... the same with an element skops refuses by name (UnsupportedTypeException: sklearn's Birch), as a dict value and as an attribute
    ["dict", [[["str", "history"], ["list", [["ndarray", "<f8", [4], "C", 1, False], ["bytes", "726177"], ["estimator", "Birch", 0, False]]]], [["str", "n"], ["int", 1]]]],
    ["userobj", "Plain", [["weights", ["ndarray", "<f8", [3], "C", 2, False]], ["helper", ["tuple", [["sparse", "csr", [3, 4], 1], ["estimator", "Birch", 0, False]]]]]],
    # objects whose state consists of temporaries computed on demand (only the dump keeps them alive): ids stay distinct
    ["list", [["userobj", "FreshState", [["db", ["float", "0x1.8p+0"]]]], ["userobj", "FreshState", [["db", ["float", "-0x1.ap+1"]]]],
              ["userobj", "FreshState", [["db", ["float", "0x1.0p+3"]]]], ["userobj", "FreshState", [["db", ["float", "0x1.4p+2"]]]]]],
    # arrays with the same bytes and dtype but different shape / layout / scalar-ness are different members
    ["list", [["ndarray", "<f8", [2, 3], "C", 5, False], ["ndarray", "<f8", [6], "C", 5, False], ["ndarray", "<f8", [6, 1], "C", 5, False],
              ["ndarray", "<f8", [3, 2], "F", 5, False], ["ndarray", "<i8", [1], "C", 7, False], ["npscalar", "<i8", 7]]],
    ["tuple", [["ndarray", "|u1", [4], "C", 2, False], ["ndarray", "|u1", [2, 2], "C", 2, False], ["ndarray", "|b1", [0], "C", 2, False], ["ndarray", "<f4", [0], "C", 2, False]]],
]
# implementation-only (too large for a Coq literal): members of a few hundred kB that compress by a factor of several
# hundred under every codec
SINK_WITNESSES = [["list", [["zeros", "<f8", 40000], ["bytes", "00" * 50000], ["zeros", "|b1", 60000]]]]


def defect_class(d):
    for needle, cls in (("is not referred to", "orphan-member"), ("refers to missing member", "missing-member"), ("lacks", "node-lacks-key"),
                        ("is not flat", "name-not-flat"), ("is not <id>", "name-shape"), ("duplicate member", "duplicate-names"), ("schema.json", "schema-member")):
        if needle in d:
            return cls
    return "other"


def cause_of(spec, d):
    """the only cause ever seen of an unreferenced member: two kept dict keys with the same JSON spelling (D08 / C12-F1, repaired:
    such a dict is refused now, so this cause can only come back with the refusal gone)"""
    from props.c04 import DICT_TAGS, json_key_text, subspecs
    if "is not referred to" not in d:
        return None
    for s in subspecs(spec):
        if s[0] in DICT_TAGS:
            items = s[1] if s[0] not in ("defaultdict", "mydefaultdict") else s[2]
            texts = [x for x in (json_key_text(k) for k, v in items if v[0] != "property") if x is not None]
            if len(set(texts)) != len(texts):
                return "dict-colliding-keys"
    return "unknown"


def run_sinks(R, specs, configs):
    scratch = C.BUILD / "run" / "C12" / "sinks"
    scratch.mkdir(parents=True, exist_ok=True)
    chunks = [specs[i::K.SHARDS] for i in range(K.SHARDS)]

    def one(args):
        k, chunk = args
        if not chunk:
            return []
        p = C.run_impl("impl_codec.py", input_obj={"mode": "sinks", "cases": [{"scratch": str(scratch / f"w{k}"), "configs": configs}] + chunk}, timeout=1500)
        if p.returncode != 0:
            raise RuntimeError("impl_codec sinks failed: " + p.stderr.decode(errors="replace")[-1500:])
        return json.loads(p.stdout)
    try:
        with ThreadPoolExecutor(K.SHARDS) as ex:
            outs = list(ex.map(one, enumerate(chunks)))
    finally:
        shutil.rmtree(scratch, ignore_errors=True)
    recs = [None] * len(specs)
    for s, o in enumerate(outs):
        for k, r in enumerate(o):
            recs[s + k * K.SHARDS] = r
    return recs


def oracle_sinks(spec, rec, roundtrips=False):
    out = []
    vs = rec.get("variants") or {}
    if not vs:
        return out
    ref_key = "dumps/0/None"
    ref = vs.get(ref_key)
    if roundtrips and (ref or {}).get("dump") == "ok" and str(rec.get("original", "")).startswith("ok:") and ref.get("load") != rec["original"]:
        # a value of the supported grammar (the fixed witnesses): "... and load to equal objects"
        out.append(("loaded-value-differs-from-original", ref_key, f"loaded value {str(ref.get('load'))[:160]} vs the dumped value {rec['original'][:160]}"))
    for key, v in vs.items():
        sink, method, level = key.split("/")
        if v.get("dump") != (ref or {}).get("dump") and not (v.get("dump", "").startswith("err") and (ref or {}).get("dump", "").startswith("err")):
            out.append(("sink-outcome", key, f"dump outcome {v.get('dump')} differs from {ref_key}: {(ref or {}).get('dump')}"))
            continue
        if v.get("dump") != "ok":
            continue
        if v.get("wf") != (ref or {}).get("wf") and [defect_class(d) for d in v.get("wf") or []] != [defect_class(d) for d in (ref or {}).get("wf") or []]:
            out.append(("ill-formed-differs", key, f"well-formedness defects {v.get('wf')} vs {ref_key}: {(ref or {}).get('wf')}"))
        if v.get("archive") != ref.get("archive"):
            out.append(("archive-differs", key, f"normalised schema/member names differ from {ref_key}"))
        elif v.get("contents") != ref.get("contents"):
            out.append(("member-content-differs", key, f"member contents differ from {ref_key}"))
        if v.get("load") != ref.get("load"):
            out.append(("loaded-value-differs", key, f"loaded value {str(v.get('load'))[:120]} vs {str(ref.get('load'))[:120]}"))
        if v.get("ctypes") not in ([int(method)], []) and v.get("ctypes") is not None:
            out.append(("compression-ignored", key, f"members stored with compress_type {v.get('ctypes')}, requested {method}"))
    return out


def run(R, only=None):
    snap = R.snapshot()
    R.trusted_base += ["Coq 8.16.1 kernel + vm_compute (no native_compute)", "harness/snapshot.py (registry, PROTOCOL, version)",
                       "correspondence: harness/pval_emit.py, harness/impl_codec.py modes codec + sinks, harness/values.py, harness/gen_values.py",
                       "zipfile (container, compression codecs, CRC), json.dumps(indent=2)/json.loads at byte level"]
    R.assumptions += ["sink independence holds by construction in the model (one buffer); its assurance is the direct comparison on the implementation "
                      "(str path / Path / open file / dumps x STORED, DEFLATED, BZIP2, LZMA x levels)",
                      "member names in the model are <id>.npy / <id>.npz / u<n>.bin (uuid4 modelled as fresh tokens); the real names are checked against the regexes directly"]
    if snap is None:
        return
    R.prove("C12")
    rnd = random.Random(R.seed)
    n = 320 if R.tier == "quick" else 3000
    specs = only or (WITNESSES + [GV.gen_value(rnd, supported=(i % 3 != 0), max_depth=3 if R.tier == "quick" else 4) for i in range(n)])
    recs = K.run_impl_codec(specs, {"protocol": snap["protocol"], "cycles": 0})
    bad, _, idx = K.model_compare(R, recs, "c12")
    bad = {"dump": bad["dump"], "load": []}          # C12 is about the archive; the loaded value is C04/C05's business
    for spec, rec in zip(specs, recs):
        dumped = rec.get("dump", "").startswith("ok:")
        R.case({"spec": spec}, nontrivial=dumped)
        R.count("dump:" + ("ok" if dumped else rec.get("dump", "?")[:30]))
        if dumped:
            for nme in rec.get("names", []):
                R.count("member:" + (nme.rsplit(".", 1)[-1] if nme != "schema.json" else "schema.json"))
            if rec.get("protocol") != snap["protocol"]:
                R.violation({"kind": "ill-formed", "what": "protocol"}, f"schema protocol {rec.get('protocol')} != PROTOCOL {snap['protocol']}", {"spec": spec})
            if rec.get("version") != snap.get("skops_version"):
                R.violation({"kind": "ill-formed", "what": "version"}, f"schema _skops_version {rec.get('version')!r} != skops.__version__ {snap.get('skops_version')!r}", {"spec": spec})
            for d in rec.get("wf") or []:
                R.violation({"kind": "ill-formed", "what": defect_class(d), "cause": cause_of(spec, d)}, d, {"spec": spec, "names": rec.get("names")})
    K.report_mismatches(R, "C12", specs, recs, bad)
    # ---- sink / compression independence, on the implementation directly
    m = 40 if R.tier == "quick" else 250
    sspecs = only or (WITNESSES + SINK_WITNESSES + [s for s, r in zip(specs[len(WITNESSES):], recs[len(WITNESSES):]) if r.get("dump", "").startswith("ok:")][:m])
    configs = CONFIGS_QUICK if R.tier == "quick" else CONFIGS_THOROUGH
    srecs = run_sinks(R, sspecs, configs)
    nvar = 0
    for spec, rec in zip(sspecs, srecs):
        nvar += len(rec.get("variants") or {})
        R.case({"sinks": spec}, nontrivial=True)
        for kind, key, what in oracle_sinks(spec, rec, roundtrips=any(spec is w for w in WITNESSES)):
            sink, method, level = key.split("/")
            R.violation({"kind": kind, "sink": sink, "method": int(method)}, f"{key}: {what}", {"spec": spec, "variant": key})
    R.notes["sink_compression_variants"] = f"{nvar} archives of {len(sspecs)} values: 4 sinks x {len(configs)} (method, level) settings, each compared with dumps/STORED"
    j = 0
    R.sample({"spec": specs[j], "implementation": {"archive": recs[j].get("dump", "")[:400], "namelist": recs[j].get("names")}, "model": "equal normalised text"})
    R.notes["rule"] = ("(a) generated values (2/3 supported grammar, 1/3 C04 grammar): namelist + normalised schema vs the Coq model's archive, and the property's "
                       "well-formedness oracle (node keys, protocol/version, member<->reference bijection, flat names by regex) on the real zip; "
                       "(b) sink x compression product compared on the implementation; non-trivial = dumps succeeded")


def replay(R, rep):
    run(R, only=[rep["replay"]["spec"]])
