"""C17 -- `skops convert` produces an equivalent, auditable archive.

prove: coq/props/C17.v.  correspond: pickles of small values (dict / list / numpy array /
LogisticRegression / user classes that the audit does not know) and of values skops cannot
persist (Birch, complex, dok_matrix) x input names (stem cases) x output {absent, "", relative,
nested, absolute, missing directory} x verbosity 0..3, each through `main_cli(["convert", ...])`
in its own subprocess: the interleaved sequence of log records and file events with the scratch
state at every boundary, the exception class and the final state are compared with
`show_convert`; the serialiser and the audit enter the model as oracles measured independently
in the same subprocess.  The property's own oracle runs on every case."""
from __future__ import annotations

import json
import posixpath
import random
import re
from pathlib import PurePosixPath

import cli_common as K
import common as C
import fault_probes as FP

GOOD = ["dictarr", "list", "array", "logreg", "custom", "custom2"]
BADV = ["birch", "complex", "dok"]
INPUTS = ["model.pkl", "m.tar.pkl", ".hidden", "noext", "sub/model.pkl", "{S}/abs/model.pickle", "x."]
OUTPUTS = [("absent", None), ("empty", ""), ("relative", "out.skops"), ("nested", "sub/out.skops"),
           ("absolute", "{S}/abs/out.skops"), ("missing-dir", "nosuch/out.skops")]


def expected_out(case):
    """destination by the property's wording, computed with pathlib (not with the model)"""
    if case["output"]:
        return posixpath.normpath(posixpath.join("/S/cwd", case["output"].replace("{S}", "/S")))
    return "/S/cwd/" + PurePosixPath(case["input"].replace("{S}", "/S")).stem + ".skops"


def input_model(case):
    return posixpath.normpath(posixpath.join("/S/cwd", case["input"].replace("{S}", "/S")))


def make_cases(R):
    rnd = random.Random(R.seed)
    cases = []
    reps = 3 if R.tier == "thorough" else 1
    for _ in range(reps):
        for v in GOOD + BADV:
            for okind, out in OUTPUTS:
                cases.append({"value": v, "input": rnd.choice(INPUTS), "okind": okind, "output": out,
                              "verbosity": rnd.randrange(4), "pre_out": rnd.random() < 0.5})
        for inp in INPUTS:
            for verb in range(4):
                cases.append({"value": rnd.choice(GOOD + ["birch"] if verb == 3 else GOOD), "input": inp, "okind": "absent",
                              "output": None, "verbosity": verb, "pre_out": rnd.random() < 0.3})
    for c in cases:
        c["pre_out_path"] = expected_out(c).replace("/S", "{S}", 1)
    return cases


D27_PROBE = {"value": "dictarr", "input": "m.skops", "okind": "absent", "output": None, "verbosity": 0,
             "pre_out": False, "pre_out_path": None, "probe": "D27"}


def implementation_text(res):
    out = "done" if not res["exc"] else "exc:" + res["exc_enum"]
    return f"{out} ## {K.trace_text(res['timeline'], res['final']['text'])} ## {res['final']['text']}"


def coq_case(case, res):
    saved = "(Ok [9; 9; 9; 9])" if res["saved"] == "ok" else f"(Raise {res['saved']})"
    names = C.clist((C.cstr(n) for n in res["untrusted"]), "pstr")
    return (f"(({K.cfs(res['initial'])}, {C.cstr(res['input_model'])}, {K.copt(res['output_model'], C.cstr)}, "
            f"{case['verbosity']}%nat, {saved}, {names}), {C.cstr(implementation_text(res))})")


PRELUDE = """From Skv Require Import PyStr Json Fs Convert Corr.
Open Scope N_scope.
Definition run (c : fs * pstr * option pstr * nat * res bytes * list pstr) : pstr :=
  let '(st, inp, out, v, saved, names) := c in
  show_convert (mkenv None) st (ccfg_for st [s "S"; s "cwd"] inp out v saved names).
"""

WARN = re.compile(r"^While converting (.*), the following unknown types were found: (.*)\. When loading (.*) with "
                  r"skops\.load, these types must be specified as 'trusted'$", re.S)


def oracle(case, res):
    bad = []
    sig0 = {"value": case["value"], "okind": case["okind"]}
    ini, fin, orc = res["initial"], res["final"], res["oracle"]
    exc = res["exc"][0] if res["exc"] else None
    if res.get("hook_errors"):
        bad.append(({**sig0, "kind": "harness"}, "audit hook raised: " + "; ".join(res["hook_errors"][:3])))
    warns = [l["text"] for l in res["logs"] if l["level"] == "WARNING"]
    out, inp = expected_out(case), input_model(case)
    if res["saved"] != "ok":
        # cannot be persisted: an exception, and no file created or altered
        if not exc:
            bad.append(({**sig0, "kind": "no-exception"}, "dumps raises for this object but convert returned normally"))
        if fin["text"] != ini["text"]:
            bad.append(({**sig0, "kind": "failure-touches-files"},
                        f"object cannot be persisted, yet files changed: {ini['text']} -> {fin['text']}"))
        if warns:
            bad.append(({**sig0, "kind": "warning-on-failure"}, f"warning emitted although nothing was converted: {warns}"))
        return bad
    odir = out.rsplit("/", 1)[0] or "/"
    if out == inp:
        # "writes the archive at the output" and "leaves the input unchanged" cannot both hold: the only behaviour that
        # respects the property is to refuse and touch nothing (D29, repaired in /repo)
        if fin["files"] != ini["files"] or fin["dirs"] != ini["dirs"] or not orc.get("input_unchanged", True):
            bad.append(({"kind": "input-clobbered", "output": "default-equals-input" if not case["output"] else "given"},
                        f"the input {inp} was replaced by the archive (output path = input path)"))
        elif not exc:
            bad.append(({**sig0, "kind": "same-file-not-refused"}, "output = input, nothing written, yet no exception"))
        if warns:
            bad.append(({**sig0, "kind": "warning-on-failure"}, f"warning emitted although nothing was converted: {warns}"))
        return bad
    if odir not in ini["dirs"]:
        if exc != "FileNotFoundError" or fin["files"] != ini["files"]:
            bad.append(({**sig0, "kind": "missing-dir"}, f"output directory missing: exception {exc}, files {fin['text']}"))
    else:
        if exc:
            bad.append(({**sig0, "kind": "convert-raises", "exc": exc}, f"convert of a dumpable object raises {res['exc']}"))
        want = dict(ini["files"])
        want[out] = K.NEW_TOKEN
        if fin["files"] != want or fin["dirs"] != ini["dirs"]:
            if out == inp:
                bad.append(({"kind": "input-clobbered", "output": "default-equals-input" if not case["output"] else "given"},
                            f"the input {inp} was replaced by the archive (output path = input path)"))
            else:
                bad.append(({**sig0, "kind": "final-state"},
                            f"after convert: {fin['text']}; required: {out} = the archive, everything else as before"))
        elif out == inp:
            bad.append(({"kind": "input-clobbered", "output": "default-equals-input" if not case["output"] else "given"},
                        f"the input {inp} was replaced by the archive (output path = input path)"))
        if not exc and not orc.get("loads_equal"):
            bad.append(({**sig0, "kind": "not-equivalent"},
                        f"load(output, trusted=get_untrusted_types(output)) differs from the unpickled object: {orc.get('load_error')}"))
    if out != inp and not orc.get("input_unchanged"):
        bad.append(({**sig0, "kind": "input-altered"}, "input bytes changed"))
    # warning iff untrusted types, listing exactly those
    if bool(warns) != bool(res["untrusted"]) or len(warns) > 1:
        bad.append(({**sig0, "kind": "warning-iff"}, f"untrusted types {res['untrusted']} but WARNING records {warns}"))
    for w in warns:
        m = WARN.match(w)
        listed = m.group(2).split(", ") if m else None
        if listed != res["untrusted"]:
            bad.append(({**sig0, "kind": "warning-names"}, f"warning lists {listed}, get_untrusted_types reports {res['untrusted']}"))
    return bad


def run(R, only=None):
    R.trusted_base += [
        "Coq 8.16.1 kernel + vm_compute (no native_compute)",
        "harness/impl_cli.py: audit-hook / stderr observation, abstraction to the model's events, content tokens (zip digest modulo ids/timestamps)",
        "harness/props/c17.py: generator, property oracle (pathlib.PurePosixPath.stem for the expected default name)",
        "oracles handed to the model: skops.io.dumps(obj) succeeded or raised (exception enum), get_untrusted_types(data=...)",
    ]
    R.assumptions += [
        "pickle.load returns the object the harness pickled (pickle is trusted)",
        "C17_equiv: skops' dumps/loads/get_untrusted_types are oracles, round trip (C05) is the visible premise; "
        "the harness compares load(output) with the unpickled object by a structural fingerprint",
        "convert is not crash-atomic and the property does not ask for it: a crash inside the write leaves a partial output",
    ]
    ok = R.prove("C17")
    cases = only if only is not None else make_cases(R) + [D27_PROBE]
    scr = K.Scratch("C17")
    try:
        outs = K.pmap(lambda c: K.run_case(scr, "convert", c), cases)
    finally:
        scr.close()
    done = []
    for case, o in zip(cases, outs):
        if o["rc"] != 0 or o["res"] is None:
            R.obligation_broken("correspondence C17/runner", f"case {case}: rc={o['rc']} {o['stderr'][-600:]}")
            continue
        if not all(K.ascii_ok(e["ev"]) for e in o["res"]["timeline"]):
            R.obligation_broken("correspondence C17/runner", f"non-ASCII event text in case {case}")
            continue
        done.append((case, o["res"]))
    rows = [coq_case(c, r) for c, r in done]
    try:
        bad = K.model_mismatches(R, "Cases_C17", PRELUDE, "fs * pstr * option pstr * nat * res bytes * list pstr", rows)
    except C.CoqError as e:
        bad = []
        R.obligation_broken("correspondence C17/model evaluation", e.out[-1500:])
    for case, res in done:
        R.case([case, implementation_text(res)], nontrivial=True)
        R.count("value:" + case["value"])
        R.count("output:" + case["okind"])
        R.count("outcome:" + ("done" if not res["exc"] else "exc:" + res["exc_enum"]))
        R.count("untrusted:" + str(len(res["untrusted"])))
        for e in res["timeline"]:
            R.count("event:" + " ".join(e["ev"].split(" ")[:2 if e["ev"].startswith("log") else 1]))
    picks = [x for x in done if x[0]["value"] == "custom2" and x[0]["okind"] == "absent"][:1] \
        + [x for x in done if x[0]["value"] == "birch"][:1] + done[:1]
    for case, res in picks:
        R.sample({"argv": res["argv"], "dumps": res["saved"], "untrusted": res["untrusted"],
                  "implementation": implementation_text(res), "model": "equal"})
    R.disagreements = len(bad)
    for idx, model in bad:
        case, res = done[idx]
        R.obligation_broken("correspondence C17/convert_events", f"{res['argv']}: " + K.diff_detail(implementation_text(res), model))
    for case, res in done:
        for sig, what in oracle(case, res):
            R.violation(sig, f"skops {' '.join(res['argv'])}: {what}", {"mode": "convert", "case": case})
    # aliases the file-system model has no notion of (hard link / symlink to the input, '..' through a symlinked directory):
    # judged directly against the property ("at the given output path", "leaves the input unchanged")
    FP.run_and_judge(R, FP.CONVERT_PROBES, "C17")
    R.notes["rule"] = ("every value x every output kind with seeded input name / verbosity / pre-existing output, plus every input "
                       "name x verbosity 0..3 with the default output; one subprocess per case; the former D29 witness (pickle named m.skops in the cwd, no -o) is replayed every run")
    R.notes["guards"] = ["C17_completes / C17_equiv: same_file c = false (otherwise C17_same_file_refused: nothing happens at all)"]
    R.notes["not_modelled"] = ["input file missing / not a pickle", "get_untrusted_types raising", "crash atomicity of the output (not claimed)",
                               "links (hard links / symlinks are probed on the implementation only: harness/impl_faults.py)"]
    if (not ok) or bad or R.broken:
        R.notes["search"] = "property oracle on every generated case (destination by pathlib, load equality, warning iff untrusted, failure leaves files alone)"


def replay(R, rep):
    r = rep.get("replay") or {}
    if r.get("mode") == "fault-probe":
        return FP.run_and_judge(R, [r["probe"]], "C17")
    if r.get("mode") != "convert":
        return run(R)
    scr = K.Scratch("C17")
    try:
        o = K.run_case(scr, "convert", r["case"])
    finally:
        scr.close()
    if o["rc"] != 0 or o["res"] is None:
        R.obligation_broken("replay", o["stderr"][-800:])
        return
    print(json.dumps({"argv": o["res"]["argv"], "implementation": implementation_text(o["res"])}, indent=1))
    for sig, what in oracle(r["case"], o["res"]):
        R.violation(sig, what, r)
