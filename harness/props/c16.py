"""C16 -- `skops update` never endangers the original.

prove: coq/props/C16.v.  correspond: every configuration of the product is run through
`main_cli(["update", ...])` in its own subprocess (cwd = fresh scratch dir, TMPDIR on the same
file system or on /dev/shm); the audit-hook event sequence with the complete scratch state at every
event boundary, the outcome (log record / exception) and the final state are compared with
`show_run (update_ops ...)`.  The property's own oracle (independent of the model) is evaluated on
every case, and crash injection (os._exit at every event boundary and inside every write) on a
subset (quick) or all writing configurations (thorough / whenever something broke)."""
from __future__ import annotations

import json
import random

import cli_common as K
import common as C
import fault_probes as FP
from props.c08 import parse_mismatches

def in_model(case):
    import posixpath
    return posixpath.normpath(posixpath.join("/S/cwd", case.get("input", "in.skops").replace("{S}", "/S")))


def dst_model(case):
    import posixpath
    if case["output"] is not None:
        return posixpath.normpath(posixpath.join("/S/cwd", case["output"].replace("{S}", "/S").replace("{X}", "/X")))
    return in_model(case) if case["inplace"] else None


def expected_write(case):
    older = case["proto"] in ("0", "1")
    both = case["inplace"] and case["output"] is not None
    return older and not both and (case["inplace"] or case["output"] is not None)


def make_cases(R):
    rnd = random.Random(R.seed)
    objs = ["dictarr", "nested", "logreg"]
    same_as_input = ["in.skops", "./in.skops", "{S}/cwd/in.skops", "sub/../in.skops"]
    bare = ["out.skops", "updated", "out.v2.skops"]
    nested = ["sub/out.skops", "./sub/out.skops", "sub/./new.skops"]
    absolute = ["{S}/abs/out.skops", "{S}/cwd/sub/abs.skops"]
    cases = []
    for proto in ("0", "1", "cur", "cur+1"):
        for okind, pool in (("none", [None]), ("bare", bare), ("nested", nested), ("absolute", absolute),
                            ("same-as-input", same_as_input)):
            for inplace in (False, True):
                for tmp in ("same", "xfs"):
                    out = rnd.choice(pool)
                    cases.append({"proto": proto, "okind": okind, "output": out, "inplace": inplace, "tmp": tmp,
                                  "obj": rnd.choice(objs), "pre_dst": rnd.random() < 0.5, "flags": ["-v"]})
    # both states of the destination for the writing kinds, the missing directory, "..", no -v
    for okind, out in (("bare", "out.skops"), ("nested", "sub/out.skops"), ("absolute", "{S}/abs/out.skops")):
        for pre in (False, True):
            for tmp in ("same", "xfs"):
                cases.append({"proto": rnd.choice(["0", "1"]), "okind": okind, "output": out, "inplace": False,
                              "tmp": tmp, "obj": rnd.choice(objs), "pre_dst": pre, "flags": ["-v"]})
    for out, okind in (("nosuch/out.skops", "nested-missing-dir"), ("{S}/nosuch/out.skops", "absolute-missing-dir"),
                       ("../abs/out.skops", "dotdot"), ("sub/../sub/out.skops", "dotdot")):
        for tmp in ("same", "xfs"):
            cases.append({"proto": "0", "okind": okind, "output": out, "inplace": False, "tmp": tmp,
                          "obj": "dictarr", "pre_dst": False, "flags": ["-v"]})
    for tmp in ("same", "xfs"):   # destination itself on the other file system
        cases.append({"proto": "1", "okind": "absolute-other-fs", "output": "{X}/tmp/out.skops", "inplace": False, "tmp": tmp,
                      "obj": "nested", "pre_dst": tmp == "same", "flags": ["-v"]})
    cases.append({"proto": "1", "okind": "bare", "output": "quiet.skops", "inplace": False, "tmp": "xfs",
                  "obj": "dictarr", "pre_dst": True, "flags": []})
    # the input archive somewhere else than the working directory: relative paths given with -o stay relative to cwd
    for inp in ("sub/in.skops", "{S}/abs/in.skops", "./sub/../sub/in.skops"):
        for okind, out, inplace in (("bare", "out.skops", False), ("nested", "sub/out.skops", False), ("none", None, True),
                                    ("same-as-input", inp, False), ("absolute", "{S}/abs/out.skops", False)):
            cases.append({"proto": rnd.choice(["0", "1"]), "okind": okind, "output": out, "inplace": inplace, "tmp": rnd.choice(["same", "xfs"]),
                          "obj": rnd.choice(objs), "pre_dst": rnd.random() < 0.5, "flags": ["-v"], "input": inp})
    if R.tier == "thorough":
        for proto in ("0", "1"):
            for pool in (bare, nested, absolute, same_as_input):
                for out in pool:
                    for tmp in ("same", "xfs"):
                        for pre in (False, True):
                            cases.append({"proto": proto, "okind": "extra", "output": out, "inplace": False, "tmp": tmp,
                                          "obj": rnd.choice(objs), "pre_dst": pre, "flags": ["-v"]})
    return cases


def outcome_of(res):
    if res["exc"]:
        return "exc:" + res["exc"][0]
    P = res["oracle"]["protocol"]
    table = {
        f"File was not updated because already up to date with the current protocol: {P}": "uptodate",
        f"File cannot be updated because its protocol is more recent than the current protocol: {P}": "toonew",
        (f"File can be updated to the current protocol: {P}. Please specify an output file path or use the "
         "`inplace` flag to create the updated Skops file."): "needdest",
    }
    outs = []
    for l in res["logs"]:
        if l["level"] == "WARNING" and l["text"] in table:
            outs.append(table[l["text"]])
        elif l["level"] == "INFO" and l["text"].startswith("Updated skops file written to "):
            outs.append("wrote:" + l["text"][len("Updated skops file written to "):])
        else:
            outs.append(f"log:{l['level']}:{l['text'][:60]}")
    if len(outs) == 1:
        return outs[0]
    return "silent" if not outs else "+".join(outs)


def implementation_text(case, res):
    out = outcome_of(res)
    if not case["flags"] and out == "silent" and not res["exc"]:
        # without -v the INFO record is not shown: the outcome is read off the destination instead
        d = dst_model(case)
        if d and res["final"]["files"].get(d) == K.NEW_TOKEN:
            out = "wrote:" + (case["output"] or case.get("input", "in.skops").replace("{S}", "/S"))
    return f"{out} ## {K.trace_text(res['timeline'], res['final']['text'])} ## {res['final']['text']}"


def coq_case(case, res):
    pr = {"0": "Older", "1": "Older", "cur": "Same", "cur+1": "Newer"}[case["proto"]]
    out = case["output"].replace("{S}", "/S").replace("{X}", "/X") if case["output"] is not None else None
    inp = case.get("input", "in.skops").replace("{S}", "/S")
    return (f"(({K.cfs(res['initial'])}, {pr}, {K.copt(out, C.cstr)}, {C.cbool(case['inplace'])}, "
            f"{C.cbool(case['tmp'] == 'same')}, {C.cstr(inp)}), {C.cstr(implementation_text(case, res))})")


PRELUDE = """From Skv Require Import PyStr Json Fs Update Corr.
Open Scope N_scope.
Definition run (c : fs * proto_rel * option pstr * bool * bool * pstr) : pstr :=
  let '(st, pr, out, inpl, sfs, inp) := c in
  let w := mkworld [s "S"; s "cwd"] (parse_path inp) [9; 9; 9; 9] (s "T")
                   (if sfs then [s "S"; s "tmp"] else [s "X"; s "tmp"]) in
  show_run (mkenv (Some [s "X"])) st
           (update_ops w (cfg_for w st pr (option_map parse_path out) inpl sfs)).
"""


# ------------------------------------------------------------------ the property's own oracle
def oracle(case, res):
    """violations of C16's observable statement on one completed run: list of (sig, what)"""
    bad = []
    sig0 = {"proto": case["proto"], "okind": case["okind"], "inplace": case["inplace"], "tmp": case["tmp"]}
    ini, fin, orc = res["initial"], res["final"], res["oracle"]
    exc = res["exc"][0] if res["exc"] else None
    muts = [e["ev"] for e in res["timeline"] if not e["ev"].startswith("R ")]
    d = dst_model(case)
    if res.get("hook_errors"):
        bad.append(({**sig0, "kind": "harness"}, "audit hook raised: " + "; ".join(res["hook_errors"][:3])))
    if not expected_write(case):
        if fin["text"] != ini["text"]:
            bad.append(({**sig0, "kind": "no-write-case-changed-files"},
                        f"files changed although nothing may be written: {ini['text']} -> {fin['text']}"))
        if muts:
            bad.append(({**sig0, "kind": "no-write-case-mutates"}, f"mutating file operations in a non-writing case: {muts}"))
        both = case["inplace"] and case["output"] is not None
        if both != (exc == "ValueError") or (exc and not both):
            bad.append(({**sig0, "kind": "wrong-error"}, f"exception {exc} (output+inplace={both})"))
        return bad
    ddir = d.rsplit("/", 1)[0] or "/"
    if ddir not in ini["dirs"]:
        if exc != "FileNotFoundError" or fin["text"] != ini["text"]:
            bad.append(({**sig0, "kind": "missing-dir"}, f"destination directory missing: exception {exc}, files {fin['text']}"))
        return bad
    if exc:
        bad.append(({**sig0, "kind": "update-raises", "exc": exc}, f"update of an older archive to {case['output']!r} raises {res['exc']}"))
    want = dict(ini["files"])
    want[d] = K.NEW_TOKEN
    if fin["files"] != want or fin["dirs"] != ini["dirs"]:
        residue = sorted(set(fin["files"]) - set(want)) + sorted(set(fin["dirs"]) - set(ini["dirs"]))
        bad.append(({**sig0, "kind": "final-state", "residue": bool(residue)},
                    f"after update: {fin['text']}; required: destination = complete new archive and every other path as before"
                    + (f"; residue {residue}" if residue else "")))
    if not exc and (orc.get("dst_protocol") != orc["protocol"] or not orc.get("dst_loads_equal")):
        bad.append(({**sig0, "kind": "result-loads"}, f"written archive: protocol {orc.get('dst_protocol')}, loads equal: {orc.get('dst_loads_equal')}, {orc.get('dst_error')}"))
    if d != in_model(case) and not orc.get("input_unchanged"):
        bad.append(({**sig0, "kind": "input-altered"}, "input bytes changed although the destination is another file"))
    return bad


def crash_specs(res, full):
    n = len(res["timeline"])
    specs = [{"at_event": k} for k in range(n)]
    fracs = (0.0, 0.25, 0.5, 0.999) if full else (0.0, 0.5, 0.999)
    nwrites = sum(1 for e in res["timeline"] if e["ev"].startswith(("W ", "other:open(")))
    for j in range(nwrites):
        for f in fracs:
            specs.append({"in_write": j, "frac": f})
    return specs


def crash_verdict(case, pre_tok, post):
    """dst must hold its complete previous content or the complete new archive; input intact"""
    if not post.get("meta"):
        return None
    pre = {None: "absent", (1,): "input", (2,): "old"}.get(tuple(pre_tok) if pre_tok is not None else None, "?")
    msgs = []
    if post["dst"] not in (pre, "new"):
        msgs.append(f"destination is '{post['dst']}' (before the call: '{pre}'; allowed: '{pre}' or 'new')")
    if not post["dst_is_input"] and post["input"] != "input":
        msgs.append(f"input is '{post['input']}'")
    return msgs


def run_crashes(R, scr, items, full):
    """items: (case, completed normal result).  Returns number of crash points exercised."""
    jobs = []
    for case, res in items:
        if not expected_write(case):
            continue
        pre_tok = res["initial"]["files"].get(dst_model(case))
        for spec in crash_specs(res, full):
            jobs.append((case, spec, pre_tok))
    outs = K.pmap(lambda j: K.run_case(scr, "update", j[0], crash=j[1], tmp=j[0]["tmp"]), jobs)
    n = 0
    for (case, spec, pre_tok), o in zip(jobs, outs):
        if o["rc"] != 77:          # that crash point does not exist in this run (e.g. no j-th write)
            continue
        n += 1
        R.count("crash:" + ("boundary" if "at_event" in spec else "inside-write"))
        msgs = crash_verdict(case, pre_tok, o["post"])
        if msgs:
            R.violation({"kind": "crash-partial-destination", "okind": case["okind"], "inplace": case["inplace"], "tmp": case["tmp"],
                         "where": "boundary" if "at_event" in spec else "inside-write"},
                        f"process death at {spec}: " + "; ".join(msgs),
                        {"mode": "update", "case": case, "crash": spec})
    return n


def run(R, only=None):
    R.trusted_base += [
        "Coq 8.16.1 kernel + vm_compute (no native_compute)",
        "harness/impl_cli.py: sys.addaudithook observation, abstraction of events to the fsop alphabet, content tokens (zip digest modulo ids/timestamps)",
        "harness/props/c16.py: configuration generator, property oracle, crash injection (os._exit in the audit hook / inside a proxy file's write)",
        "the file-system semantics of coq/sys/Fs.v (POSIX rename atomicity on one file system; process death, not power loss)",
    ]
    R.assumptions += [
        "mkdtemp returns a fresh directory (nothing at or below it) on the device of its parent - hypothesis `fits`",
        "no symlinks / hard links / permission failures; '//' prefix of pathlib not modelled",
        "the input archive loads (a load failure raises before any file operation other than reads)",
        "C16_result_loads takes skops' load/dumps as oracles (C05/C08)",
    ]
    ok = R.prove("C16")
    cases = only if only is not None else make_cases(R)
    scr = K.Scratch("C16")
    try:
        outs = K.pmap(lambda c: K.run_case(scr, "update", c, tmp=c["tmp"]), cases)
        done = []
        for case, o in zip(cases, outs):
            if o["rc"] != 0 or o["res"] is None:
                R.obligation_broken("correspondence C16/runner", f"case {case}: rc={o['rc']} {o['stderr'][-600:]}")
                continue
            done.append((case, o["res"]))
        rows = [coq_case(c, r) for c, r in done]
        try:
            bad = K.model_mismatches(R, "Cases_C16", PRELUDE, "fs * proto_rel * option pstr * bool * bool * pstr", rows)
        except C.CoqError as e:
            bad = []
            R.obligation_broken("correspondence C16/model evaluation", e.out[-1500:])
        for case, res in done:
            R.case([case, implementation_text(case, res)], nontrivial=expected_write(case))
            R.count("outcome:" + outcome_of(res).split(":")[0] + (":" + outcome_of(res).split(":")[1] if outcome_of(res).startswith("exc") else ""))
            R.count("output:" + case["okind"])
            for e in res["timeline"]:
                R.count("event:" + e["ev"].split(" ")[0])
        for case, res in done[:2] + [x for x in done if x[0]["okind"] == "nested" and expected_write(x[0])][:1]:
            R.sample({"argv": res["argv"], "tmpdir": case["tmp"], "implementation": implementation_text(case, res), "model": "equal"})
        R.disagreements = len(bad)
        for idx, model in bad:
            case, res = done[idx]
            R.obligation_broken("correspondence C16/update_ops",
                                f"{res['argv']} tmp={case['tmp']}: " + K.diff_detail(implementation_text(case, res), model))
        # the property's own statement, on every completed run
        for case, res in done:
            for sig, what in oracle(case, res):
                R.violation(sig, f"skops {' '.join(res['argv'])} (TMPDIR on {case['tmp']} fs): {what}",
                            {"mode": "update", "case": case})
        broke = (not ok) or bad or R.broken
        writing = [(c, r) for c, r in done if expected_write(c)]
        if R.tier == "thorough" or only is not None:
            subset = writing
        elif broke:   # quick tier, something no longer checks: one configuration per (output kind, inplace, TMPDIR)
            seen, subset = set(), []
            for c, r in sorted(writing, key=lambda x: not x[0]["pre_dst"]):
                k = (c["okind"], c["inplace"], c["tmp"])
                if k not in seen:
                    seen.add(k)
                    subset.append((c, r))
        else:
            want = [("bare", "xfs", False), ("nested", "xfs", False), ("none", "xfs", True), ("absolute", "same", False),
                    ("same-as-input", "xfs", False)]
            subset = []
            for okind, tmp, inplace in want:
                hit = [(c, r) for c, r in writing if c["okind"] == okind and c["tmp"] == tmp and c["inplace"] == inplace and c["pre_dst"]] \
                    or [(c, r) for c, r in writing if c["okind"] == okind and c["tmp"] == tmp and c["inplace"] == inplace]
                subset += hit[:1]
        ncrash = run_crashes(R, scr, subset, full=R.tier == "thorough")
        R.notes["crash_points_exercised"] = ncrash
        R.notes["crash_configurations"] = len(subset)
        # faults at the move step (destination is a directory; the rename is refused): judged directly against the property
        FP.run_and_judge(R, FP.UPDATE_PROBES, "C16")
    finally:
        scr.close()
    R.notes["rule"] = ("product protocol {0,1,current,current+1} x output {none,bare,nested relative,absolute,same as input} x inplace x "
                       "TMPDIR {same fs, /dev/shm}, plus destination present/absent, missing destination directory, '..' paths, no -v; "
                       "one subprocess per case; non-trivial = a configuration in which the property requires a write")
    R.notes["uncovered"] = ["dump() raising inside update (no loadable-but-undumpable object in the generator)",
                            "input archive that does not load"]
    R.notes["not_modelled"] = ["power loss / fsync ordering", "tempfile internals beyond mkdtemp's freshness",
                               "symlinks, permissions (failing moves are probed on the implementation only: harness/impl_faults.py)"]
    R.notes["guards"] = ["fits: input exists, destination is not a directory, mkdtemp's name is fresh and differs from the destination's name",
                         "C16_legacy_xfs_refuted / C16_legacy_nested_refuted: witnesses about the code before fix 85d3b6b (D23 / D22)"]
    if broke:
        R.notes["search"] = "property oracle on every configuration + crash injection at every event boundary and inside every write of every writing configuration"


def replay(R, rep):
    r = rep.get("replay") or {}
    if r.get("mode") == "fault-probe":
        return FP.run_and_judge(R, [r["probe"]], "C16")
    if r.get("mode") != "update":
        return run(R)
    case = r["case"]
    scr = K.Scratch("C16")
    try:
        o = K.run_case(scr, "update", case, tmp=case["tmp"])
        if o["rc"] != 0 or o["res"] is None:
            R.obligation_broken("replay", o["stderr"][-800:])
            return
        res = o["res"]
        print(json.dumps({"argv": res["argv"], "implementation": implementation_text(case, res)}, indent=1))
        for sig, what in oracle(case, res):
            R.violation(sig, what, r)
        if r.get("crash"):
            oc = K.run_case(scr, "update", case, crash=r["crash"], tmp=case["tmp"])
            print(json.dumps({"crash": r["crash"], "rc": oc["rc"], "post_mortem": oc.get("post")}, indent=1))
            if oc["rc"] == 77:
                msgs = crash_verdict(case, res["initial"]["files"].get(dst_model(case)), oc["post"])
                if msgs:
                    R.violation(rep.get("sig") or {"kind": "crash-partial-destination"}, "; ".join(msgs), r)
    finally:
        scr.close()
