"""Generator of skops schemas (the JSON inside an archive) for the io correspondences.

Two streams: structured mostly-valid trees composed from per-loader builders, and a malformed
stream obtained by local mutations (type confusion, dropped keys, id games, protocol games).
Every random choice derives from the one `random.Random` passed in.
"""
from __future__ import annotations

import copy
import json

CANARY_MOD = "verif_canary_pkg"
# names that are safe AND deterministic to resolve/call should an audit ever let them through
# (no clocks, no id(): a trusted callable may legitimately be called by construct())
UNTRUSTED_NAMES = [
    (CANARY_MOD, "Probe"), (CANARY_MOD, "probe_fn"), (CANARY_MOD + ".sub", "Other"),
    ("os", "getcwd"), ("posixpath", "basename"), ("math", "sqrt"), ("builtins", "abs"),
    # "ghost" names: module.attr does NOT resolve, but a parent package (or a sibling spelling) has an attribute of that
    # name -- whoever vouches for the exact name must get an error, never the parent's object
    (CANARY_MOD + ".sub", "Probe"), (CANARY_MOD + ".sub", "probe_fn"), (CANARY_MOD + ".nosuch", "Probe"), ("os.path", "getcwd"),
]
NEAR_MISS = [("builtin", "s.list"), ("", "builtins.list"), ("builtins.", "list"), ("builtins", "list "),
             ("Builtins", "list"), ("numpy", "ndarray."), ("builtins.list", ""), ("b", "uiltins.list")]

TYPICAL = {
    "DictNode": [("builtins", "dict"), ("collections", "OrderedDict")],
    "DefaultDictNode": [("collections", "defaultdict")],
    "ListNode": [("builtins", "list")],
    "SetNode": [("builtins", "set")],
    "TupleNode": [("builtins", "tuple")],
    "BytesNode": [("builtins", "bytes")],
    "BytearrayNode": [("builtins", "bytearray")],
    "SliceNode": [("builtins", "slice")],
    "FunctionNode": [("numpy", "sqrt"), ("scipy.special._ufuncs", "expit"), ("numpy._core._multiarray_umath", "add")],
    "MethodNode": [("builtins", "method")],
    "PartialNode": [("functools", "partial")],
    "TypeNode": [("builtins", "int"), ("builtins", "list"), ("numpy", "float64"), ("builtins", "map")],
    "ConstructorFromReduceNode": [("datetime", "date")],
    "ObjectNode": [("sklearn.linear_model._logistic", "LogisticRegression"), ("sklearn.preprocessing._data", "StandardScaler")],
    "JsonNode": [("builtins", "str")],
    "OperatorFuncNode": [("operator", "attrgetter"), ("operator", "itemgetter"), ("operator", "methodcaller")],
    "NdArrayNode": [("numpy", "ndarray"), ("numpy", "float64"), ("numpy", "matrix")],
    "MaskedArrayNode": [("numpy.ma.core", "MaskedArray"), ("numpy.ma", "MaskedArray")],
    "DTypeNode": [("numpy", "dtype")],
    "RandomStateNode": [("numpy.random.mtrand", "RandomState")],
    "RandomGeneratorNode": [("numpy.random._generator", "Generator")],
    "SparseMatrixNode": [("scipy.sparse._csr", "csr_matrix"), ("scipy.sparse._matrix", "spmatrix")],
    "TreeNode": [("sklearn.tree._tree", "Tree")],
    "LossNode": [("sklearn.linear_model._sgd_fast", "Hinge"), ("sklearn._loss._loss", "CyHalfSquaredError")],
    "CachedNode": [("builtins", "list")],
    "QuantileForestNode": [("quantile_forest._quantile_forest_fast", "QuantileForest")],
}
# names gettype() may be asked to resolve while the tree is built (LossNode): outcome table is
# computed by the harness itself, never by skops
LOSS_POOL = [("sklearn.linear_model._sgd_fast", "Hinge"), ("sklearn._loss._loss", "CyHalfSquaredError"),
             ("sklearn.linear_model._sgd_fast", "Log"), (CANARY_MOD, "Probe"), (CANARY_MOD, "Missing"),
             ("zz_verif_noimp", "X"), ("builtins", "int")]

LEAVES = ["JsonNode", "TypeNode", "FunctionNode", "BytesNode", "BytearrayNode", "SliceNode", "NdArrayNode", "SparseMatrixNode"]
INNER = ["DictNode", "DefaultDictNode", "ListNode", "SetNode", "TupleNode", "MethodNode", "PartialNode",
         "ConstructorFromReduceNode", "ObjectNode", "OperatorFuncNode", "NdArrayNode", "MaskedArrayNode", "DTypeNode",
         "RandomStateNode", "RandomGeneratorNode", "TreeNode", "LossNode"]
RARE = ["CachedNode", "QuantileForestNode"]

INERT_KEYS = ["extra", "children", "obj", "attrs"]      # top-level keys no loader reads
# Characters for dict keys / attribute names / type names that the printer of visualize has to show on one line (C13): line
# breaks of every kind str.splitlines knows, other controls, invisible spaces and format characters, lone surrogates, private
# use, noncharacters, astral unprintables -- next to ordinary ASCII, a backslash and printable non-ASCII.  ALL of them lie in
# the charset on which the model's isprintable is exact (coq/io/IoShow.v: exact_charset; harness/props/c13.py checks it).
NASTY_CHARS = ["\n", "\n", "\r", "\t", "\x0b", "\x0c", "\x1c", "\x1d", "\x1e", "\x85", "\u2028", "\u2029",
               "\x00", "\x1b", "\x7f", "\xa0", "\xad", "\u1680", "\u2003", "\u200b", "\u200e", "\u202e", "\u2060", "\u3000", "\ufeff",
               "\ud800", "\ud800", "\udbff", "\udc00", "\udfff", "\ue000", "\ufffe", "\uffff", "\U000e0001", "\U000e007f", "\U000f0000", "\U0010ffff"]
PLAIN_CHARS = ["a", "b", "Z", "_", "0", " ", ":", ".", "\\", "|", "[", "\u00e9", "\u00ff", "\u0131", "\u03bb", "\u2192", "\u2502", "\u2514", "\u65e5", "\ufffd", "\U0001f600"]
NASTY_FIXED = ["a\nroot: builtins.dict", "\ud800", "x\r\ny", "\u2028", "tab\there", "\x1b[31mred", "no\xa0break", "\\n", "caf\u00e9 \u65e5\u672c"]


def nasty_text(r):
    """a short text mixing ordinary and unprintable characters; a high surrogate is never followed by a low one (JSON would
    join the two into one astral character on the way to the implementation)"""
    if r.random() < 0.3:
        return r.choice(NASTY_FIXED)
    out = []
    for _ in range(r.randint(1, 5)):
        c = r.choice(NASTY_CHARS if r.random() < 0.5 else PLAIN_CHARS)
        if out and "\ud800" <= out[-1] <= "\udbff" and "\udc00" <= c <= "\udfff":
            out.append("-")
        out.append(c)
    return "".join(out)


SCALARS = [None, 0, 1, 2, -1, 1.5, 2.0, 1.0, True, False, "", "x", "numpy", "json", "scipy", "root", "key_types"]
CONTAINERS = [[], {}, [1], ["a", "b"], {"a": 1}, {"__id__": 1}, [[]]]


class Gen:
    def __init__(self, rnd, protocol=2):
        self.r = rnd
        self.protocol = protocol
        self.next_id = 100
        self.made = []        # states already emitted (for sharing)
        # decorative keys of the format (written by the dumper, read by no loader) on EVERY node of some archives:
        # a node must be audited according to its __loader__, whatever else its state claims
        self.flag_all = rnd.random() < 0.12
        self.anc = []         # ids of ancestors (for cycles)
        self.members = {"m1.bin", "m2.npy", "m3.npz"}
        self.wellformed = True
        self.canary_modules = None
        self.nasty = 0.0          # probability of unprintable characters in a key / attribute name / type name (C13 only)
        self.nasty_names = False  # a type name with such characters was emitted

    # ------------------------------------------------------------ names / ids
    def names(self, loader):
        if self.canary_modules is not None:
            # every name slot gets a fresh importable-but-not-imported module (C02)
            if self.r.random() < 0.75:
                k = len(self.canary_modules)
                self.canary_modules.append(f"verif_cm_{k}")
                return (f"verif_cm_{k}", self.r.choice(["C", "f", "missing"]))
            return self.r.choice(TYPICAL[loader])
        if self.nasty and self.r.random() < self.nasty * 0.25:
            # a hand-made archive may put anything into a name slot: the row shows module.class
            self.nasty_names = True
            m, c = self.r.choice(TYPICAL[loader])
            return self.r.choice([(nasty_text(self.r), c), (m, nasty_text(self.r)), (m + nasty_text(self.r), c), (m, c + nasty_text(self.r))])
        r = self.r.random()
        if r < 0.035:
            # names that are not strings at all (JSON null / number / list): no position may accept them silently
            return self.r.choice([(None, None), (None, None), (None, "partial"), ("builtins", None), (1, 2), (None, 0), ([], None)])
        if r < 0.62:
            return self.r.choice(TYPICAL[loader])
        if r < 0.85:
            return self.r.choice(UNTRUSTED_NAMES)
        if r < 0.93:
            return self.r.choice(NEAR_MISS)
        other = self.r.choice(list(TYPICAL))
        return self.r.choice(TYPICAL[other])

    def new_id(self):
        r = self.r.random()
        if r < 0.88:
            self.next_id += 1
            return self.next_id
        if r < 0.92:
            return self.r.choice([0, None, False, ""])           # falsy: never memoised
        if r < 0.95:
            self.next_id += 1
            return float(self.next_id)                              # hashes like the int
        if r < 0.97:
            return str(self.next_id)                                # a different key
        return self.r.choice([1, True, 1.0])                        # one and the same key

    def hdr(self, loader, **kw):
        m, c = self.names(loader)
        d = {"__class__": c, "__module__": m, "__loader__": loader}
        d.update(kw)
        return d

    # ------------------------------------------------------------ builders
    def node(self, depth):
        # sharing: repeat an earlier state (same id) or point at an ancestor (cycle)
        r = self.r.random()
        if self.made and r < 0.07:
            return copy.deepcopy(self.r.choice(self.made))
        if self.anc and r < 0.078:
            return {"__id__": self.r.choice(self.anc), "__loader__": "ListNode", "__class__": "list", "__module__": "builtins", "content": []}
        if depth <= 0 or self.r.random() < 0.35:
            loader = self.r.choice(LEAVES)
        elif self.r.random() < 0.03:
            loader = self.r.choice(RARE)
        else:
            loader = self.r.choice(INNER)
        nid = self.new_id()
        pushed = False
        if nid and isinstance(nid, (int, float, str)) and not isinstance(nid, bool):
            self.anc.append(nid)
            pushed = True
        st = getattr(self, "b_" + loader)(depth - 1)
        if pushed:
            self.anc.pop()
        if self.r.random() < 0.97:
            st["__id__"] = nid
        if self.flag_all and isinstance(st, dict):
            st.setdefault("is_json", True)
        if self.r.random() < 0.04 and depth > 0:
            # a key no loader reads, holding something that looks like a node: must stay inert
            st[self.r.choice(INERT_KEYS)] = self.inert(depth - 1, lambda: None)
        self.made.append(st)
        return st

    def json_node(self, v=None):
        if v is None:
            v = self.r.choice([1, "a", None, [1, 2], {"k": 1.5}, True])
        return {"__class__": "str", "__module__": "builtins", "__loader__": "JsonNode", "content": json.dumps(v), "is_json": True}

    def slot(self, d, usual):
        """a structural child slot: usually the well-formed content, sometimes an arbitrary node (any kind, any name)"""
        if d >= 0 and self.r.random() < 0.22:
            return self.node(d)
        return usual()

    def kids(self, depth, lo=0, hi=3):
        return [self.node(depth) for _ in range(self.r.randint(lo, hi))]

    def b_JsonNode(self, d):
        st = self.json_node()
        if self.r.random() < 0.1:
            st["__module__"], st["__class__"] = self.names("JsonNode")
        return st

    def b_TypeNode(self, d):
        return self.hdr("TypeNode")

    def b_FunctionNode(self, d):
        st = self.hdr("FunctionNode")
        if self.protocol == 0:
            m, c = self.names("FunctionNode")
            st["content"] = {"module_path": m, "function": c}
        return st

    def b_BytesNode(self, d):
        return self.hdr("BytesNode", file=self.r.choice(["m1.bin", "m1.bin", "missing.bin"]))

    def b_BytearrayNode(self, d):
        return self.hdr("BytearrayNode", file="m1.bin")

    def inert(self, d, usual):
        """a slot the loader treats as plain JSON: sometimes holds something that LOOKS like a node (it must stay inert)"""
        if self.r.random() < 0.3:
            keep = (self.next_id, list(self.made))
            st = self.node(max(d, 0))
            self.made = keep[1]          # never repeated elsewhere as a real node
            return st
        return usual()

    def b_SliceNode(self, d):
        return self.hdr("SliceNode", content={"start": self.inert(d, lambda: self.r.choice([None, 0, 1])),
                                              "stop": self.inert(d, lambda: self.r.choice([None, 5])),
                                              "step": self.inert(d, lambda: None) if self.r.random() < 0.3 else None})

    def b_NdArrayNode(self, d):
        if d < 0 or self.r.random() < 0.6:
            return self.hdr("NdArrayNode", type="numpy", file="m2.npy")
        cells = self.kids(d, 0, 3)
        return self.hdr("NdArrayNode", type="json", content=cells, shape=self.slot(d, lambda: self.tuple_of([self.json_node(len(cells))])))

    def b_SparseMatrixNode(self, d):
        return self.hdr("SparseMatrixNode", type="scipy", file="m3.npz")

    def tuple_of(self, items):
        self.next_id += 1
        return {"__class__": "tuple", "__module__": "builtins", "__loader__": "TupleNode", "content": items, "__id__": self.next_id}

    def list_of(self, items):
        self.next_id += 1
        return {"__class__": "list", "__module__": "builtins", "__loader__": "ListNode", "content": items, "__id__": self.next_id}

    def dict_of(self, pairs):
        self.next_id += 1
        my_id = self.next_id
        kt = self.list_of([{"__class__": "str", "__module__": "builtins", "__loader__": "TypeNode", "__id__": 7} for _ in pairs])
        return {"__class__": "dict", "__module__": "builtins", "__loader__": "DictNode", "content": dict(pairs), "key_types": kt, "__id__": my_id}

    def b_DictNode(self, d):
        keys = self.r.sample(["a", "b", "c", "x/y", "content", "é"], self.r.randint(0, 3))
        if self.r.random() < 0.04:
            keys.append("key_types")
        if self.nasty and self.r.random() < self.nasty:
            for _ in range(self.r.randint(1, 2)):
                k = nasty_text(self.r)
                if k not in keys:
                    keys.insert(self.r.randint(0, len(keys)), k)
        st = self.hdr("DictNode")
        st["content"] = {k: self.node(d) for k in keys}
        if self.r.random() < 0.85:
            st["key_types"] = self.list_of([{"__class__": "str", "__module__": "builtins", "__loader__": "TypeNode", "__id__": 7} for _ in keys])
        else:
            st["key_types"] = self.node(d)
            self.wellformed = False
        return st

    def b_DefaultDictNode(self, d):
        return self.hdr("DefaultDictNode", content={"main": self.slot(d, lambda: self.dict_of([("k", self.node(d))] if self.r.random() < 0.5 else [])),
                                                    "default_factory": self.node(d) if self.r.random() < 0.5 else self.json_node(None)})

    def b_ListNode(self, d):
        return self.hdr("ListNode", content=self.kids(d))

    def b_SetNode(self, d):
        return self.hdr("SetNode", content=self.kids(d))

    def b_TupleNode(self, d):
        return self.hdr("TupleNode", content=self.kids(d))

    def b_MethodNode(self, d):
        return self.hdr("MethodNode", content={"func": self.r.choice(["fit", "__class__", "predict", "__init__"]), "obj": self.node(d)})

    def b_PartialNode(self, d):
        return self.hdr("PartialNode", content={"func": self.node(d), "args": self.slot(d, lambda: self.tuple_of(self.kids(d, 0, 2))),
                                                "kwds": self.slot(d, lambda: self.dict_of([])), "namespace": self.slot(d, lambda: self.dict_of([]))})

    def b_ConstructorFromReduceNode(self, d):
        return self.hdr("ConstructorFromReduceNode", content=self.slot(d, lambda: self.tuple_of(self.kids(d, 0, 2))))

    def b_ObjectNode(self, d):
        st = self.hdr("ObjectNode")
        r = self.r.random()
        if r < 0.7:
            attrs = self.r.sample(["coef_", "n", "p"] + (["key_types"] if self.r.random() < 0.05 else []), self.r.randint(0, 2))
            if self.nasty and self.r.random() < self.nasty:
                # setattr(obj, name, v) accepts any string: attribute names are dict keys of the object's state
                k = nasty_text(self.r)
                if k not in attrs:
                    attrs.append(k)
            st["content"] = self.dict_of([(k, self.node(d)) for k in attrs])
        elif r < 0.8:
            st["content"] = None
        return st

    def b_OperatorFuncNode(self, d):
        return self.hdr("OperatorFuncNode", attrs=self.slot(d, lambda: self.tuple_of([self.json_node("a")])))

    def b_MaskedArrayNode(self, d):
        return self.hdr("MaskedArrayNode", content={"data": self.node(d), "mask": self.node(d)})

    def b_DTypeNode(self, d):
        return self.hdr("DTypeNode", content=self.node(d))

    def b_RandomStateNode(self, d):
        return self.hdr("RandomStateNode", content=self.slot(d, lambda: self.dict_of([("bit_generator", self.json_node("MT19937"))])))

    def b_RandomGeneratorNode(self, d):
        bg = self.dict_of([("bit_generator", self.json_node(self.r.choice(["PCG64", "MT19937", "default_rng"])))])
        if self.protocol == 0:
            return self.hdr("RandomGeneratorNode", content={"bit_generator": self.r.choice([{"bit_generator": "PCG64", "state": {}}, {}, None, "x"])})
        return self.hdr("RandomGeneratorNode", content={"bit_generator": self.slot(d, lambda: bg), "seed_seq": self.slot(d, lambda: self.dict_of([("entropy", self.json_node(1))]))})

    def reduce_like(self, loader, d):
        st = self.hdr(loader)
        st["__reduce__"] = {"args": self.slot(d, lambda: self.tuple_of(self.kids(d, 0, 2)))}
        st["content"] = self.slot(d, lambda: self.dict_of([("a", self.node(d))] if self.r.random() < 0.6 else []))
        return st

    def b_TreeNode(self, d):
        return self.reduce_like("TreeNode", d)

    def b_LossNode(self, d):
        st = self.reduce_like("LossNode", d)
        if self.canary_modules is None:
            st["__module__"], st["__class__"] = self.r.choice(LOSS_POOL)
        return st

    def b_QuantileForestNode(self, d):
        return self.reduce_like("QuantileForestNode", d)

    def b_CachedNode(self, d):
        return self.hdr("CachedNode")

    # ------------------------------------------------------------ whole schema
    def schema(self, depth):
        st = self.node(depth)
        st["protocol"] = self.protocol
        st["_skops_version"] = "0.0"
        return st


def all_paths(j, path=()):
    yield path, j
    if isinstance(j, dict):
        for k, v in j.items():
            yield from all_paths(v, path + (k,))
    elif isinstance(j, list):
        for i, v in enumerate(j):
            yield from all_paths(v, path + (i,))


def get_at(j, path):
    for p in path:
        j = j[p]
    return j


def mutate(rnd, schema, n=1):
    """n local edits; keeps the value inside the modelled JSON domain (floats are half-integers;
    no containers where the implementation would repr() them into a name)."""
    s = copy.deepcopy(schema)
    notes = []
    for _ in range(n):
        paths = [p for p, _ in all_paths(s) if p]
        if not paths:
            break
        path = rnd.choice(paths)
        parent = get_at(s, path[:-1])
        key = path[-1]
        r = rnd.random()
        name_slot = key in ("__module__", "__class__") or (key == "content" and isinstance(parent, dict) and isinstance(parent.get("content"), str))
        if r < 0.3 and isinstance(parent, dict):
            del parent[key]
            notes.append(f"del {path}")
        elif r < 0.45 and key == "__loader__":
            parent[key] = rnd.choice(list(TYPICAL) + ["NoSuchNode", 5, None])
            notes.append(f"loader {path}")
        elif r < 0.55 and key == "__id__":
            ids = [v for p, v in all_paths(s) if p and p[-1] == "__id__"]
            parent[key] = rnd.choice(ids + [[1], {}, 1.5])
            notes.append(f"id {path}")
        elif r < 0.62 and key == "file":
            parent[key] = rnd.choice(["nope.bin", 5, None, ["m1.bin"], "m1.bin", "../x"])
            notes.append(f"file {path}")
        else:
            pool = SCALARS if name_slot else SCALARS + CONTAINERS
            parent[key] = copy.deepcopy(rnd.choice(pool))
            notes.append(f"set {path}")
    return s, notes


def loader_swap_ok(schema):
    """False if a mutation made a JsonNode/FunctionNode state whose formatted name would need repr() of a container."""
    for _, v in all_paths(schema):
        if isinstance(v, dict) and "__loader__" in v:
            for k in ("__module__", "__class__"):
                if isinstance(v.get(k), (list, dict)):
                    return False
            if v.get("__loader__") == "JsonNode" and isinstance(v.get("content"), (list, dict)):
                return False
    return True


def kinds_in(schema):
    out = {}
    for _, v in all_paths(schema):
        if isinstance(v, dict) and isinstance(v.get("__loader__"), str):
            out[v["__loader__"]] = out.get(v["__loader__"], 0) + 1
    return out


def depth_of(j):
    if isinstance(j, dict):
        return 1 + max([depth_of(v) for v in j.values()] + [0])
    if isinstance(j, list):
        return 1 + max([depth_of(v) for v in j] + [0])
    return 0


def gen_case(rnd, protocols=(2, 2, 2, 1, 0, 3), malformed_p=0.35, max_depth=4, canary_modules=None, nasty=0.0):
    """nasty > 0 (C13): dict keys, attribute names and type names may hold unprintable characters (NASTY_CHARS); with the
    default 0.0 not a single extra random draw is made, so the streams of the other properties are what they were"""
    g = Gen(rnd, protocol=rnd.choice(protocols))
    g.canary_modules = canary_modules
    g.nasty = nasty
    sch = g.schema(rnd.randint(0, max_depth))
    malformed = rnd.random() < malformed_p
    notes = []
    if rnd.random() < 0.08:
        # an archive without any __id__ (the key is optional): every node is its own object
        for _path, st in list(all_paths(sch)):
            if isinstance(st, dict) and "__loader__" in st:
                st.pop("__id__", None)
        notes = ["idless"]
    if malformed:
        for _ in range(5):
            s2, notes = mutate(rnd, sch, rnd.choice([1, 1, 2, 3]))
            if loader_swap_ok(s2):
                sch = s2
                break
        if rnd.random() < 0.15:
            sch["protocol"] = rnd.choice([0, 1, 2, 3, 2.0, True, "2", None, 99])
    tspec = rnd.choice(["none", "none", "empty", "reported", "reported", "subset", "superset", "misleading"])
    show = rnd.choice(["all", "all", "untrusted", "trusted"])
    if g.nasty_names and tspec not in ("none", "empty"):
        # a type name that is not an importable name is never vouched for: what importlib does with such a module name
        # (control characters, NUL, surrogates) is not part of any model here
        tspec = "none"
    return {"schema": sch, "members": sorted(g.members), "tspec": tspec, "tseed": rnd.randrange(1 << 30), "show": show,
            "wellformed": g.wellformed and not malformed, "malformed": malformed, "notes": notes}
