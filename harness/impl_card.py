"""Implementation-side runner for the skops.card correspondences (C09, C10, C14).

stdin : {"what": "trace"|"oracle"|"probe", "mode": {...}, "build": dir, "cases": [[op, ...], ...]}
stdout: JSON, one entry per case.

trace : replays every operation sequence on a fresh card and emits, after EVERY operation, the canonical observation
        that coq/card/Show.v computes for the model.  The first element of a sequence may be the pseudo-operation
        ["init", template, model_diagram, params, html, real] (template: None | str | {"map": [[key, content], ...]};
        model_diagram: bool | str; params / html: what the stub's get_params(deep=True) / estimator_html_repr return while
        the constructor runs; real: name of a real estimator instead of the stub): the card is then
        Card(model, template=..., model_diagram=...) and step 0 observes the constructor's outcome and the new card.
        Without it the card is Card(model, template=None, model_diagram=False) (norm_seq inserts that init).
        Observed per step:
        outcome class, get_toc(), render(), bytes written by save(), every live node (walked through
        the dicts) with select(<path string>) and format(), and the metrics dict.
        PrettyTable is observed, not replaced: a recording subclass notes (field names, cells) -> text.
        estimator_html_repr (add_model_plot) is controlled from outside the source: the module global
        skops.card._model_card.estimator_html_repr is rebound to a wrapper that returns the generated HTML string
        ("modelplot") or calls the real function once and records exactly what it returned ("realplot").
oracle: checks the properties' observable statements directly against the implementation with an
        independent reference (harness/card_spec.py); used only after a proof or the correspondence broke.
"""
from __future__ import annotations

import json
import sys
import warnings
from pathlib import Path

sys.path.insert(0, str(Path(__file__).resolve().parent))
warnings.simplefilter("ignore")

U = 0x110000  # separators: U+n is not a code point, so no Python str contains it


def cps(t):
    return [ord(c) for c in t]


# --------------------------------------------------------------------------- PrettyTable observation
RECORDED = []   # (header tuple, cells tuple-of-tuples, text or None)


def install_recorder():
    import prettytable
    import skops.card._model_card as mc

    class RecordingTable(prettytable.PrettyTable):
        def __init__(self, *a, **k):
            super().__init__(*a, **k)
            self._rec = []

        def add_column(self, fieldname, column, *a, **k):
            self._rec.append((fieldname, tuple(column)))
            try:
                return super().add_column(fieldname, column, *a, **k)
            except Exception:
                RECORDED.append((tuple(n for n, _ in self._rec), tuple(c for _, c in self._rec), None))
                raise

        def get_string(self, **k):
            key = (tuple(n for n, _ in self._rec), tuple(c for _, c in self._rec))
            try:
                out = super().get_string(**k)
            except Exception:
                RECORDED.append(key + (None,))
                raise
            RECORDED.append(key + (out,))
            return out

    assert mc.PrettyTable is prettytable.PrettyTable
    mc.PrettyTable = RecordingTable


def real_pretty(header, cells):
    """The real PrettyTable on exactly these field names and cell texts (what TableSection.format does with them)."""
    from prettytable import PrettyTable, TableStyle
    try:
        t = PrettyTable()
        t.set_style(TableStyle.MARKDOWN)
        for h, col in zip(header, cells):
            t.add_column(h, list(col))
        return t.get_string()
    except Exception:
        return None


# --------------------------------------------------------------------------- estimator_html_repr: the oracle of add_model_plot
HTML = {"next": None, "seen": None, "calls": 0}


def install_html_hook():
    """No source hook: rebind the name that _add_model_plot looks up in its module globals."""
    import skops.card._model_card as mc
    orig = mc.estimator_html_repr
    if getattr(orig, "_verif_wrapper", False):
        return

    def estimator_html_repr(model):
        HTML["calls"] += 1
        out = HTML["next"] if HTML["next"] is not None else orig(model)
        HTML["seen"] = str(out)       # the exact text the implementation goes on with (sklearn's ids change per call)
        return out

    estimator_html_repr._verif_wrapper = True
    mc.estimator_html_repr = estimator_html_repr


def real_estimator(name):
    from sklearn.compose import ColumnTransformer
    from sklearn.linear_model import LogisticRegression
    from sklearn.pipeline import Pipeline
    from sklearn.preprocessing import OneHotEncoder, StandardScaler
    if name == "logreg":
        return LogisticRegression()
    if name == "pipeline":
        return Pipeline([("scale", StandardScaler()), ("clf", LogisticRegression(C=0.5))])
    if name == "columntransformer":
        return ColumnTransformer([("num", StandardScaler(), [0, 1]), ("cat", OneHotEncoder(handle_unknown="ignore"), [2])])
    if name == "pipeline-ct":
        ct = ColumnTransformer([("num", StandardScaler(), ["a"]), ("cat", OneHotEncoder(), ["b"])], remainder="passthrough")
        return Pipeline([("prep", ct), ("clf", LogisticRegression())])
    raise KeyError(name)


# --------------------------------------------------------------------------- building arguments
class StubModel:
    """get_params is an oracle of the model: the harness chooses what it returns."""

    def __init__(self):
        self.params = {}

    def get_params(self, deep=False):
        # like a duck-typed meta estimator whose get_params is shallow unless asked: the card must ask for deep=True
        if deep:
            return dict(self.params)
        return {k: v for k, v in self.params.items() if "__" not in k}


def make_table(spec):
    """spec = {"cols": [[name, [values...]], ...], "df": bool} -> (python table, model columns as str texts)"""
    cols = {name: list(vals) for name, vals in spec["cols"]}
    if spec.get("df"):
        import pandas as pd
        tab = pd.DataFrame(cols)
        texts = [[str(name), [str(v) for v in series]] for name, series in tab.items()]
        return tab, texts
    return cols, [[name, [str(v) for v in vals]] for name, vals in cols.items()]


def model_op(op):
    """The operation as the Coq model receives it: every value already turned into its str() text.
    Call it AFTER apply_op: a "realplot" becomes a "modelplot" with the HTML text the implementation received."""
    kind = op[0]
    if kind == "init":
        # what the constructor got from its two oracles (a real estimator: recorded by construct)
        if op[5]:
            return ["init", op[1], op[2], INIT_SEEN["params"], INIT_SEEN["html"], None]
        return ["init", op[1], op[2], [[k, str(v)] for k, v in op[3]], op[4], None]
    if kind == "realplot":
        return ["modelplot", op[1], op[2], HTML["seen"] if HTML["seen"] is not None else ""]
    if kind == "table":
        out = []
        for key, spec in op[3]:
            _, texts = make_table(spec)
            out.append([key, texts])
        return ["table", op[1], op[2], out]
    if kind in ("metrics", "hyper"):
        return [kind, op[1], op[2], [[k, str(v)] for k, v in op[3]]]
    return op


def apply_op(card, op):
    """Run one operation; returns (class of outcome, selected Section or None)."""
    kind = op[0]
    sel = None
    try:
        if kind == "add":
            card.add(folded=op[1], **dict(op[2]))
        elif kind == "plot":
            card.add_plot(description=op[1], alt_text=op[2], folded=op[3], **dict(op[4]))
        elif kind == "table":
            tabs = {}
            for key, spec in op[3]:
                tabs[key] = make_table(spec)[0]
            card.add_table(description=op[1], folded=op[2], **tabs)
        elif kind == "metrics":
            card.add_metrics(section=op[1], description=op[2], **dict(op[3]))
        elif kind == "hyper":
            card.model.params = dict(op[3])
            card.add_hyperparams(section=op[1], description=op[2])
        elif kind == "modelplot":
            HTML["next"], HTML["seen"] = op[3], None
            try:
                card.add_model_plot(section=op[1], description=op[2])
            finally:
                HTML["next"] = None
        elif kind == "realplot":
            HTML["next"], HTML["seen"] = None, None
            # get_model() caches the loaded model (cached_property _model): drop the cache around the swap
            stub, card.model = card.model, real_estimator(op[3])
            card.__dict__.pop("_model", None)
            try:
                card.add_model_plot(section=op[1], description=op[2])
            finally:
                card.model = stub
                card.__dict__.pop("_model", None)
        elif kind == "select":
            sel = card.select(op[1])
        elif kind == "chain":
            sel = card.select(op[1][0])
            for k in op[1][1:]:
                sel = sel.select(k)
        elif kind == "delete":
            card.delete(op[1])
        elif kind == "dellist":
            card.delete(list(op[1]))
        elif kind in ("vis", "fold", "title"):
            x = card.select(op[1][0])
            for k in op[1][1:]:
                x = x.select(k)
            if kind == "vis":
                x.visible = op[2]
            elif kind == "fold":
                x.folded = op[2]
            else:
                x.title = op[2]
        else:
            raise RuntimeError("unknown op " + kind)
    except KeyError:
        return "KeyError", None
    except TypeError:
        return "TypeError", None
    except ValueError:
        return "ValueError", None
    except Exception:
        return "other", None
    return ("sel" if kind in ("select", "chain") else "ok"), sel


# --------------------------------------------------------------------------- canonical observation
def show_kind(x):
    from skops.card._model_card import PlotSection, TableSection
    if isinstance(x, PlotSection):
        return [80, U + 4] + cps(str(x.path)) + [U + 4] + cps(x.alt_text)
    if isinstance(x, TableSection):
        out = [66]
        for name, vals in x.table.items():
            out += [U + 4] + cps(str(name))
            for v in vals:
                out += [U + 5] + cps(str(v))
        return out
    return [84]


def show_node(x):
    out = cps(x.title) + [U] + cps(x.content) + [U] + [49 if x.visible else 48, 49 if x.folded else 48] + [U]
    out += show_kind(x) + [U]
    for k in x.subsections:
        out += [U + 3] + cps(k)
    return out


def walk(data, pre=()):
    for k, x in data.items():
        p = pre + (k,)
        yield p, x
        yield from walk(x.subsections, p)


def path_string(p):
    return "/".join(k.replace("/", "\\/") for k in p)


def show_state(card, mode, build):
    out = []
    if mode.get("toc"):
        out += [U + 1] + cps(card.get_toc())
    if mode.get("render"):
        out += [U + 1]
        try:
            out += cps(card.render())
        except Exception:
            out += [U + 9]
    if mode.get("save"):
        out += [U + 1]
        f = Path(build) / "card_save.md"
        try:
            card.save(f)
            out += list(f.read_bytes())
        except Exception:
            out += [U + 9]
    if mode.get("nodes"):
        out += [U + 1]
        for p, x in walk(card._data):
            out += [U + 2]
            for k in p:
                out += [U + 3] + cps(k)
            out += [U] + show_node(x)
            if mode.get("addr"):
                out += [U + 6]
                try:
                    y = card.select(path_string(p))
                    out += cps("sel") + [U] + show_node(y)
                except KeyError:
                    out += cps("KeyError")
                except Exception:
                    out += cps("other")
            if mode.get("format"):
                out += [U + 6]
                try:
                    out += cps(x.format())
                except Exception:
                    out += [U + 9]
    if mode.get("metrics"):
        out += [U + 1]
        for k, v in card._metrics.items():
            out += [U + 3] + cps(k) + [U + 4] + cps(str(v))
    return out


INIT_DEFAULT = ["init", None, False, [], "", None]
INIT_SEEN = {"params": [], "html": ""}


def norm_seq(ops):
    """every sequence starts with an init pseudo-operation of full length"""
    ops = [list(o) for o in ops]
    if ops and ops[0][0] == "init":
        ops[0] = ops[0] + INIT_DEFAULT[len(ops[0]):]
        return ops
    return [list(INIT_DEFAULT)] + ops


def template_arg(spec):
    if spec is None or isinstance(spec, str):
        return spec
    return dict(spec["map"])          # a Mapping: section key -> content, in the listed order


def construct(init):
    """Card(model, template=..., model_diagram=...): (class of outcome, the card or None)."""
    from skops.card import Card
    _, tspec, dspec, params, html, real = init
    if real:
        model = real_estimator(real)
        INIT_SEEN["params"] = [[k, str(v)] for k, v in model.get_params(deep=True).items()]
        HTML["next"], HTML["seen"] = None, None
    else:
        model = StubModel()
        model.params = dict(params)
        HTML["next"], HTML["seen"] = html, None
    try:
        card = Card(model, template=template_arg(tspec), model_diagram=dspec)
    except KeyError:
        return "KeyError", None
    except TypeError:
        return "TypeError", None
    except ValueError:
        return "ValueError", None
    except Exception:
        return "other", None
    finally:
        HTML["next"] = None
        INIT_SEEN["html"] = HTML["seen"] if HTML["seen"] is not None else ""
    if real:
        # later operations drive a stub (hyper sets its params); the constructor has cached the real estimator
        card.model = StubModel()
        card.__dict__.pop("_model", None)
    return "ok", card


def trace_case(ops, mode, build):
    del RECORDED[:]
    ops = norm_seq(ops)
    cls0, card = construct(ops[0])
    expected, mops, classes = [U + 7] + cps(cls0), [model_op(ops[0])], [cls0]
    if card is not None:
        expected += show_state(card, mode, build)
    oracle = {}

    def note(h, c, out):
        key = (tuple(h), tuple(tuple(col) for col in c))
        if key in oracle and oracle[key] != out:
            raise RuntimeError(f"PrettyTable is not a function of its inputs: {key!r}")
        oracle[key] = out

    for op in (ops[1:] if card is not None else []):      # the constructor raised: there is no card to operate on
        cls, sel = apply_op(card, op)
        mo = model_op(op)
        mops.append(mo)
        if op[0] == "table":
            # the full (field names, cells) of every table handed in, with the real PrettyTable's answer
            for _, texts in mo[3]:
                h = [n for n, _ in texts]
                c = [[v.replace("\n", "<br />") for v in vals] for _, vals in texts]
                note(h, c, real_pretty(h, c))
        classes.append(cls)
        expected += [U + 7] + cps(cls)
        if sel is not None:
            expected += [U] + show_node(sel)
        expected += show_state(card, mode, build)
    for h, c, out in RECORDED:
        if out is not None or (tuple(h), tuple(tuple(x) for x in c)) not in oracle:
            if all(isinstance(v, str) for col in c for v in col) and all(isinstance(n, str) for n in h):
                note(h, c, out)
    return {"expected": expected, "ops": mops, "classes": classes,
            "oracle": [[list(h), [list(col) for col in c], out] for (h, c), out in oracle.items()]}


def dfcheck(seed, n):
    """C14 'identically for dict and DataFrame input', on the implementation: the same typed columns handed in as a
    dict of numpy arrays, as a dict of lists of the arrays' elements, and as a DataFrame must render the same table,
    and every cell must be the text of the value (str of the array element)."""
    import random
    import numpy as np
    import pandas as pd
    from skops.card import Card
    rnd = random.Random(seed)
    pools = {
        "float64": lambda k: np.array([rnd.choice([0.1, 2.5, 1e-9, -3.0, 1e22, float("inf")]) for _ in range(k)], dtype=np.float64),
        "float32": lambda k: np.array([rnd.choice([0.1, 2.5, 0.3, -7.7, 1e-9]) for _ in range(k)], dtype=np.float32),
        "float16": lambda k: np.array([rnd.choice([0.1, 2.5, 0.3]) for _ in range(k)], dtype=np.float16),
        "int64": lambda k: np.array([rnd.choice([0, 1, -7, 2 ** 40]) for _ in range(k)], dtype=np.int64),
        "int8": lambda k: np.array([rnd.choice([0, 1, -7, 100]) for _ in range(k)], dtype=np.int8),
        "uint16": lambda k: np.array([rnd.choice([0, 1, 65535]) for _ in range(k)], dtype=np.uint16),
        "bool": lambda k: np.array([rnd.random() < 0.5 for _ in range(k)], dtype=bool),
        "str": lambda k: np.array([rnd.choice(["a", "multi\nline", "é😀", "a|b", ""]) for _ in range(k)], dtype=object),
        "object": lambda k: np.array([rnd.choice([None, 1, 2.5, "x", True]) for _ in range(k)], dtype=object),
        "datetime64": lambda k: np.array([rnd.choice(["2020-01-01", "2021-02-03T04:05:06"]) for _ in range(k)], dtype="datetime64[ns]"),
        "complex128": lambda k: np.array([rnd.choice([1 + 2j, 0.5j]) for _ in range(k)], dtype=np.complex128),
    }
    out = []
    for i in range(n):
        k = rnd.randint(1, 3)
        names = rnd.sample(sorted(pools), rnd.randint(1, 3))
        cols = {nm: pools[nm](k) for nm in names}
        key = rnd.choice(["T", "A/B", "x y/T\\/U"])

        def render(table):
            c = Card(StubModel(), template=None, model_diagram=False)
            c.add_table(**{key: table})
            return c.render()
        try:
            a = render(cols)
            b = render(pd.DataFrame(cols))
            c = render({nm: list(v) for nm, v in cols.items()})
        except Exception as e:  # noqa
            out.append({"cols": names, "error": type(e).__name__ + ": " + str(e)[:100]})
            continue
        rec = {"cols": names, "rows": k, "same": a == b == c}
        if not rec["same"]:
            # which column is responsible: render each alone
            bad = []
            for nm in names:
                one = {nm: cols[nm]}
                if not (render(one) == render(pd.DataFrame(one)) == render({nm: list(cols[nm])})):
                    bad.append(nm)
            rec["bad_cols"] = bad
            rec["dict"], rec["df"] = a[-300:], b[-300:]
        # the cells of the dict rendering are the values' own texts
        want = [str(v).replace("\n", "<br />") for nm in names for v in cols[nm]]
        rec["cells_are_texts"] = all(w in a for w in want)
        out.append(rec)
    return out


def whitespace_sets():
    """the code points that the implementation's `re` matches with \\s in a str pattern (what re.sub(r"\\n\\s+") uses),
    found through the same kind of substitution the card code performs, and the str.isspace() set"""
    import re
    pat = re.compile(r"\n\s+")
    by_sub = [c for c in range(sys.maxunicode + 1) if pat.sub("", "a\n" + chr(c) + "b") == "ab"]
    by_class = [c for c in range(sys.maxunicode + 1) if re.fullmatch(r"\s", chr(c))]
    isspace = [c for c in range(sys.maxunicode + 1) if chr(c).isspace()]
    return {"re_sub": by_sub, "re_class": by_class, "isspace": isspace}


# --------------------------------------------------------------------------- main
def main():
    req = json.load(sys.stdin)
    what = req["what"]
    if what in ("trace", "oracle"):
        install_html_hook()
    if what == "trace":
        install_recorder()
        res = [trace_case(ops, req["mode"], req["build"]) for ops in req["cases"]]
    elif what == "oracle":
        import card_spec
        res = [card_spec.check_sequence(norm_seq(ops), construct, apply_op, req.get("build"), model_op) for ops in req["cases"]]
    elif what == "dfcheck":
        res = dfcheck(req["seed"], req["n"])
    elif what == "whitespace":
        res = whitespace_sets()
    else:
        raise SystemExit("unknown request " + what)
    json.dump(res, sys.stdout)


if __name__ == "__main__":
    main()
