"""bin/check <Cxx> --tier quick|thorough [--replay FILE]

One run = regenerate the snapshot from /repo, re-check the property's theorems
against it, run the model/implementation correspondence, and -- if either no
longer checks -- search for a concrete failing input (DESIGN.md section 2.5).
"""
from __future__ import annotations

import argparse
import importlib
import json
import os
import re
import sys
import time
import traceback
from pathlib import Path

sys.path.insert(0, str(Path(__file__).resolve().parent))
import common as C  # noqa: E402


class Run:
    def __init__(self, prop, tier, seed):
        self.prop, self.tier, self.seed = prop, tier, seed
        self.t0 = time.time()
        self.gen = C.BUILD / "run" / prop
        if self.gen.exists():
            import shutil
            shutil.rmtree(self.gen)
        self.gen.mkdir(parents=True)
        # replay files of earlier runs of this property are stale now
        for old in (C.VERIF / "replays").glob(f"{prop}-*.json"):
            old.unlink()
        self.theorems = []          # (name, assumptions)
        self.obligations = 0
        self.discharged = 0
        self.broken = []            # (what, detail) proof/correspondence obligations that no longer check
        self.violations = []        # dict(sig, what, replay)
        self.known_seen = []        # (finding id, what)
        self.evaluations = 0
        self.distinct = set()
        self.samples = []
        self.distribution = {}
        self.disagreements = 0
        self.notes = {}
        self.assumptions = []
        self.trusted_base = []
        self.checker_cmds = []
        self.snapshot_info = None
        ff = C.VERIF / "known_findings.json"
        self.findings = json.loads(ff.read_text())["findings"] if ff.exists() else []

    # ---------------------------------------------------------------- proofs
    def snapshot(self):
        p = C.run_impl("snapshot.py", [self.gen / "Snapshot.v", self.gen / "snapshot.json"], timeout=600)
        if p.returncode != 0:
            self.broken.append(("snapshot", "translator aborted (fail-closed): " + p.stderr.decode(errors="replace")[-1500:]))
            return None
        self.snapshot_info = json.loads((self.gen / "snapshot.json").read_text())
        if self.snapshot_info.get("emits_unresolved"):
            # the AST scan for emitted __loader__ names met a value it cannot resolve to constants: not an alarm, but the
            # per-run theorem "every emitted loader is registered" then speaks about the resolved part only
            self.notes["emits_scan_incomplete"] = self.snapshot_info["emits_unresolved"][:10]
        self.checker_cmds.append("harness/snapshot.py -> Snapshot.v (regenerated from /repo)")
        try:
            C.coqc(self.gen / "Snapshot.v", self.gen)
        except C.CoqError as e:
            self.broken.append(("snapshot", "generated Snapshot.v does not compile: " + e.out[-1500:]))
            return None
        return self.snapshot_info

    def prove(self, name=None):
        """Compile coq/props/<name>.v against this run's Snapshot.v; record theorems + assumptions."""
        name = name or self.prop
        src = C.COQ / "props" / f"{name}.v"
        txt = src.read_text()
        thms = re.findall(r"^(?:Theorem|Corollary)\s+(\w+)", txt, flags=re.M)
        self.obligations += len(thms)
        dst = self.gen / f"{name}.v"
        dst.write_text(txt)
        self.checker_cmds.append(f"coqc -R coq/* Skv -R _build/run/{self.prop} Gen {name}.v")
        try:
            out = C.coqc(dst, self.gen)
        except C.CoqError as e:
            m = re.search(r"line (\d+)", e.out)
            failing = "?"
            if m:
                ln = int(m.group(1))
                before = "\n".join(txt.splitlines()[:ln])
                names = re.findall(r"^(?:Theorem|Corollary|Lemma|Example)\s+(\w+)", before, flags=re.M)
                failing = names[-1] if names else "?"
            self.broken.append((f"theorem {failing}", e.out[-1500:]))
            return False
        blocks = re.split(r"(?m)^(?=Closed under the global context|Axioms:)", out)
        blocks = [b.strip() for b in blocks if b.strip().startswith(("Closed", "Axioms"))]
        printed = re.findall(r"Print Assumptions\s+(\w+)\.", txt)
        for i, t in enumerate(printed):
            a = blocks[i] if i < len(blocks) else "?"
            self.theorems.append((t, " ".join(a.split())))
        self.discharged += len(thms)
        return True

    # -------------------------------------------------------- correspondence
    def model_eval(self, name, body, imports=("Snapshot",), timeout=900):
        """Write Cases file(s) with `body` and return coqc stdout."""
        f = self.gen / f"{name}.v"
        f.write_text(body)
        return C.coqc(f, self.gen, timeout)

    def count(self, key, n=1):
        self.distribution[key] = self.distribution.get(key, 0) + n

    def case(self, canon, nontrivial=True):
        self.evaluations += 1
        if nontrivial:
            self.distinct.add(C.sha(canon))

    def sample(self, obj):
        if len(self.samples) < 4:
            self.samples.append(obj)

    # -------------------------------------------------------------- verdicts
    def obligation_broken(self, what, detail):
        self.broken.append((what, detail))

    def violation(self, sig, what, replay):
        """A concrete failing input against the implementation."""
        for f in self.findings:
            if f["property"] == self.prop and f.get("status") == "open" and all(sig.get(k) == v for k, v in f["match"].items()):
                if (f["id"], f["what"]) not in self.known_seen:
                    self.known_seen.append((f["id"], f["what"]))
                return f["id"]
        self.violations.append({"sig": sig, "what": what, "replay": replay})
        return None

    def finish(self):
        wall = time.time() - self.t0
        rep_dir = C.VERIF / "replays"
        lines = []
        for fid, what in self.known_seen:
            lines.append(f"KNOWN-FINDING: property={self.prop} {fid} {what}")
        nviol = 0
        seen = set()
        for v in self.violations:
            h = C.sha(v["sig"])
            if h in seen:
                continue
            seen.add(h)
            rep_dir.mkdir(exist_ok=True)
            path = rep_dir / f"{self.prop}-{h}.json"
            path.write_text(json.dumps({"property": self.prop, "kind": "input", "seed": self.seed, **v}, indent=1, default=str))
            lines.append(f"VIOLATION property={self.prop} replay={path}")
            # what failed, in one line, for logs that do not keep the replay file
            lines.append("  detail: " + " ".join(str(v["what"]).split())[:700])
            nviol += 1
        if self.broken and nviol == 0:
            rep_dir.mkdir(exist_ok=True)
            h = C.sha([b[0] for b in self.broken])
            path = rep_dir / f"{self.prop}-obligation-{h}.json"
            path.write_text(json.dumps({"property": self.prop, "kind": "obligation", "seed": self.seed,
                                        "no_longer_checks": [{"what": w, "detail": d} for w, d in self.broken],
                                        "search": self.notes.get("search", "the property's search oracle found no failing input")},
                                       indent=1, default=str))
            lines.append(f"VIOLATION property={self.prop} replay={path} no-failing-input-found")
            lines.append("  detail: no longer checks: " + "; ".join(f"{w}: {' '.join(str(d).split())[:300]}" for w, d in self.broken[:3]))
            nviol += 1
        ev = {
            "property_id": self.prop,
            "tier": self.tier,
            "seed": self.seed,
            "level": "proof",
            "coverage": {
                "obligations": max(self.obligations, 1),
                "discharged": self.discharged,
                "checker_cmd": " ; ".join(dict.fromkeys(self.checker_cmds)) or "coqc",
                "trusted_base": self.trusted_base + [f"Print Assumptions {t}: {a}" for t, a in self.theorems],
                "evaluations": self.evaluations,
                "distinct_nontrivial": len(self.distinct),
                "rule": self.notes.get("rule", ""),
                "samples": self.samples,
                "disagreements_checked": self.disagreements,
                "distribution": self.distribution,
                "broken_obligations": [w for w, _ in self.broken],
                "known_findings_seen": [f for f, _ in self.known_seen],
                **{k: v for k, v in self.notes.items() if k not in ("rule", "search")},
            },
            "assumptions": self.assumptions,
            "wall_s": round(wall, 2),
            "violations": nviol,
        }
        if self.discharged < 1:
            # schema: a proof-level coverage block needs discharged >= 1; a run that proved nothing says so differently
            ev["coverage"]["discharged_count"] = 0
            del ev["coverage"]["discharged"], ev["coverage"]["obligations"]
            ev["coverage"]["evaluations"] = max(ev["coverage"]["evaluations"], 1)
        (C.BUILD / f"last_broken_{self.prop}.json").write_text(json.dumps(self.broken, indent=1, default=str))
        # evidence/ describes /repo itself: a run against another tree (VERIF_REPO = a scratch worktree with a seeded
        # change) writes its evidence under _build/ instead
        evdir = C.VERIF / "evidence" if str(C.REPO) == "/repo" else C.BUILD / "evidence_other_tree"
        evdir.mkdir(exist_ok=True)
        (evdir / f"{self.prop}.json").write_text(json.dumps(ev, indent=1, default=str))
        for l in lines:
            print(l)
        print(f"[{self.prop}] tier={self.tier} seed={self.seed} theorems={self.discharged}/{self.obligations} "
              f"cases={self.evaluations} distinct={len(self.distinct)} broken={len(self.broken)} "
              f"violations={nviol} known={len(self.known_seen)} wall={wall:.1f}s")
        return 1 if nviol else 0


def main():
    ap = argparse.ArgumentParser()
    ap.add_argument("prop")
    ap.add_argument("--tier", default=os.environ.get("VERIF_TIER", "quick"), choices=["quick", "thorough"])
    ap.add_argument("--replay")
    a = ap.parse_args()
    seed = int(os.environ.get("VERIF_SEED", "20260929"))
    R = Run(a.prop, a.tier, seed)
    try:
        bad = C.grep_forbidden()
        if bad:
            R.obligation_broken("development hygiene", "; ".join(bad))
        C.ensure_static_build()
        if a.prop in ("C03", "C04", "C05", "C06", "C07", "C08", "C12", "C16", "C17", "C20"):
            # these checks rely on harness/absval.py to decide "same value": test the comparator first
            p = C.run_impl("selftest_absval.py", timeout=300)
            if p.returncode != 0:
                R.obligation_broken("comparator self-test (harness/selftest_absval.py)", p.stdout.decode(errors="replace")[-1500:])
            else:
                R.trusted_base.append("harness/absval.py, self-tested on this run: " + p.stdout.decode().strip().splitlines()[-1])
        mod = importlib.import_module(f"props.{a.prop.lower()}")
        if a.replay:
            mod.replay(R, json.loads(Path(a.replay).read_text()))
        else:
            mod.run(R)
    except C.CoqError as e:
        R.obligation_broken(f"coq build: {e.file}", e.out[-2000:])
    except Exception:
        R.obligation_broken("harness exception", traceback.format_exc()[-3000:])
    sys.exit(R.finish())


if __name__ == "__main__":
    main()
