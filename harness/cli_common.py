"""Parent-side helpers shared by the C16/C17/C18 checks: per-run scratch roots (one under
C.BUILD, one on /dev/shm = another file system), one subprocess per case, Coq rendering."""
from __future__ import annotations

import hashlib
import io
import json
import os
import shutil
import sys
import time
import zipfile
from concurrent.futures import ThreadPoolExecutor
from pathlib import Path

import common as C

NEW_TOKEN = [9, 9, 9, 9]


class Scratch:
    """unique per run; removed on close.  Nothing here lives under /tmp."""

    def __init__(self, prop):
        import signal
        import threading
        if threading.current_thread() is threading.main_thread():
            # a terminated check still removes its scratch directories (finally blocks run)
            signal.signal(signal.SIGTERM, lambda *a: sys.exit(143))
        self.sweep()
        tag = f"{prop}-{os.getpid()}-{time.time_ns()}"
        self.base = C.BUILD / "scratch" / tag
        self.xbase = Path("/dev/shm") / f"skv-{tag}"
        self.base.mkdir(parents=True)
        self.xbase.mkdir(parents=True)
        self.n = 0

    @staticmethod
    def sweep():
        """remove scratch roots left behind by a killed run (their pid is gone)"""
        import re
        for base, pat in ((C.BUILD / "scratch", r"^C\d\d-(\d+)-\d+$"), (Path("/dev/shm"), r"^skv-C\d\d-(\d+)-\d+$")):
            if not base.is_dir():
                continue
            for d in base.iterdir():
                m = re.match(pat, d.name)
                if m and not Path(f"/proc/{m.group(1)}").exists():
                    shutil.rmtree(d, ignore_errors=True)

    def case_dirs(self):
        self.n += 1
        d, x = self.base / f"k{self.n}", self.xbase / f"k{self.n}"
        d.mkdir()
        x.mkdir()
        return d, x

    def close(self):
        shutil.rmtree(self.base, ignore_errors=True)
        shutil.rmtree(self.xbase, ignore_errors=True)
        try:
            (C.BUILD / "scratch").rmdir()
        except OSError:
            pass


def run_case(scr, mode, case, crash=None, tmp="same", timeout=300, keep=False, cases=None):
    """One subprocess for one case.  Returns dict(rc, res | None, stderr, dirs)."""
    d, x = scr.case_dirs()
    req = {"mode": mode, "scratch": str(d), "xscratch": str(x), "case": case}
    if cases is not None:
        req["cases"] = cases
    if crash:
        req["crash"] = crash
    tmpdir = (d / "S" / "tmp") if tmp == "same" else (x / "X" / "tmp")
    tmpdir.mkdir(parents=True, exist_ok=True)
    out = {"dirs": (d, x)}
    try:
        p = C.run_impl("impl_cli.py", input_obj=req, timeout=timeout, extra_env={"TMPDIR": str(tmpdir), "OMP_NUM_THREADS": "1", "OPENBLAS_NUM_THREADS": "1", "MKL_NUM_THREADS": "1"}, cwd=str(d))
        out["rc"] = p.returncode
        out["stderr"] = p.stderr.decode(errors="replace")[-2000:]
        try:
            out["res"] = json.loads(p.stdout) if p.stdout.strip() else None
        except Exception:
            out["res"] = None
    except Exception as e:  # timeout
        out.update(rc=-1, res=None, stderr=repr(e))
    if crash:
        out["post"] = post_mortem(d)
    if not keep:
        shutil.rmtree(d, ignore_errors=True)
        shutil.rmtree(x, ignore_errors=True)
    return out


def pmap(fn, items):
    with ThreadPoolExecutor(C.NPROC) as ex:
        return list(ex.map(fn, items))


# ---------------------------------------------------------------- after a crash
def sha(b):
    return hashlib.sha256(b).hexdigest()


def zip_digest(b):
    # must agree with impl_cli.zip_entries (kept in this process: no skops import needed)
    sys.path.insert(0, str(Path(__file__).resolve().parent))
    import impl_cli
    return impl_cli.zip_entries(b)


def post_mortem(case_dir):
    """classify destination and input after the process died: absent | old | input | new | other"""
    mf = Path(case_dir) / "meta.json"
    if not mf.exists():
        return {"meta": False}
    meta = json.loads(mf.read_text())

    def classify(path):
        if path is None:
            return None
        if not os.path.exists(path):
            return "absent"
        if not os.path.isfile(path):
            return "not-a-file"
        b = Path(path).read_bytes()
        tok = meta["known"].get(sha(b))
        if tok == [1]:
            return "input"
        if tok == [2]:
            return "old"
        if tok is not None:
            return f"known{tok}"
        if meta["new_entries"] is not None and zip_digest(b) == meta["new_entries"]:
            return "new"
        return f"other(len={len(b)})"

    return {"meta": True, "dst": classify(meta.get("dst_real")), "input": classify(meta.get("in_real")),
            "dst_is_input": meta.get("dst_real") is not None and os.path.normpath(meta["dst_real"]) == os.path.normpath(meta["in_real"])}


# ---------------------------------------------------------------- Coq rendering
def cpath(p):
    comps = [c for c in p.split("/") if c]
    return C.clist((C.cstr(c) for c in comps), "pstr")


def cbytes(tok):
    return C.clist((f"{int(n)}%N" for n in tok), "N")


def cfs(state):
    files = C.clist((f"({cpath(p)}, {cbytes(t)})" for p, t in state["files"].items()), "(path * bytes)")
    dirs = C.clist((cpath(d) for d in state["dirs"]), "path")
    return f"(mkfs {files} {dirs})"


def copt(x, render):
    return f"(Some {render(x)})" if x is not None else "None"


def trace_text(timeline, final_text):
    parts = []
    for i, e in enumerate(timeline):
        nxt = timeline[i + 1]["before"] if i + 1 < len(timeline) else final_text
        parts.append(f"{e['ev']} => {nxt}")
    return " ;; ".join(parts)


def ascii_ok(t):
    return all(32 <= ord(c) < 127 and c != '"' for c in t)


# ---------------------------------------------------------------- bounded mismatch report
DIFF_DEFS = """
Fixpoint common_len (a b : pstr) : nat :=
  match a, b with
  | x :: a', y :: b' => if N.eqb x y then S (common_len a' b') else O
  | _, _ => O
  end.
(* on disagreement only the position and a window of the model's text are printed
   (the printer overflows on lists of > ~10^5 numbers) *)
Definition window (g e : pstr) : pstr :=
  let k := common_len g e in
  s "@" ++ show_N (N.of_nat k) ++ s ": " ++ firstn 220 (skipn (k - 80) g).
Definition run_checked {A} (run : A -> pstr) (c : A * pstr) : pstr :=
  let g := run (fst c) in if pstr_eqb g (snd c) then [] else window g (snd c).
"""


def model_mismatches(R, name, prelude, case_type, rows, shard=100):
    """rows: Coq terms of type (case_type * pstr).  Returns [(index, model window text)]."""
    from props.c08 import parse_mismatches
    files = []
    for i in range(0, len(rows), shard):
        body = (prelude + DIFF_DEFS + f"Definition cases : list (({case_type}) * pstr) := " + C.clist(rows[i:i + shard])
                + ".\nEval vm_compute in mismatches (run_checked run) (map (fun c => (c, @nil N)) cases).\n")
        f = R.gen / f"{name}_{i // shard}.v"
        f.write_text(body)
        files.append((i, f))
    outs = C.coqc_many([f for _, f in files], R.gen)
    bad = []
    for i, f in files:
        bad += [(i + k, m) for k, m in parse_mismatches(outs[f])]
    R.checker_cmds.append(f"coqc {name}_*.v (Eval vm_compute in mismatches ...)")
    return bad


def diff_detail(impl_text, window):
    """human-readable disagreement: position, what the implementation shows there, the model's window"""
    import re
    m = re.match(r"@(\d+): ", window)
    if not m:
        return f"model [{window}]"
    k = int(m.group(1))
    return f"first difference at char {k}: implementation [...{impl_text[max(0, k - 80):k + 140]}...] model [...{window[m.end():]}...]"
