"""Developer tool (NOT part of any check): apply one source mutation to $VERIF_REPO, run bin/check, revert with git checkout.
usage: VERIF_REPO=/path/to/worktree python harness/mutants_c06_c07.py C06 c06_clear_each c06_memo_none ...
Every mutant must end in exit=1 with concrete replays; see the table MUT for what each one breaks."""
import subprocess, sys, json, os, re, glob
HERE = os.path.dirname(os.path.dirname(os.path.abspath(__file__)))
REPO=os.environ.get('VERIF_REPO', '/repo')
MUT = {
 'c06_clear_each': ('skops/io/_utils.py', "    res = _get_state(value, save_context)\n", "    res = _get_state(value, save_context)\n    save_context.clear_memo()\n"),
 'c06_memo_none': ('skops/io/_utils.py', "            self.memo[obj_id] = obj\n", "            self.memo[obj_id] = None\n"),
 'c06_file_mod1000': ('skops/io/_numpy.py', '            f_name = f"{obj_id}.npy"\n', '            f_name = f"{obj_id % 1000}.npy"\n'),
 'c06_loadmemo_str': ('skops/io/_utils.py', "        self.memo[id] = obj\n", "        self.memo[str(id)] = obj\n"),
 'c06_gettree_nomemo': ('skops/io/_audit.py', "    if saved_id in load_context.memo:\n", "    if False and saved_id in load_context.memo:\n"),
 'c06_construct_nocache': ('skops/io/_audit.py', "        if self._constructed is not UNINITIALIZED:\n            return self._constructed\n", "        if False:\n            return self._constructed\n"),
 'c07_skip_setstate': ('skops/io/_general.py', "            if hasattr(instance, \"__setstate__\"):\n                instance.__setstate__(attrs)\n            else:\n                instance.__dict__.update(attrs)\n", "            instance.__dict__.update(attrs)\n"),
 'c07_drop_reduce3': ('skops/io/_sklearn.py', "        attrs = reduced[2]\n", "        attrs = {}\n"),
 'c07_tree_args_reordered': ('skops/io/_sklearn.py', "        instance = constructor(*args)\n", "        instance = constructor(*args[::-1])\n"),
 'c07_c_order': ('skops/io/_numpy.py', "            content = np.load(self.children[\"content\"], allow_pickle=False)\n", "            content = np.ascontiguousarray(np.load(self.children[\"content\"], allow_pickle=False))\n"),
 'c07_keytypes_lost': ('skops/io/_general.py', "            content[k_type(key)] = val.construct()\n", "            content[key] = val.construct()\n"),
}
def run(name, prop, seed='20260929'):
    f, old, new = MUT[name]
    p = os.path.join(REPO, f)
    t = open(p).read()
    assert t.count(old) == 1, (name, t.count(old))
    open(p, 'w').write(t.replace(old, new))
    try:
        env = dict(os.environ, VERIF_REPO=REPO, VERIF_SEED=seed)
        for fn in glob.glob(os.path.join(HERE, 'replays', f'{prop}-*.json')): os.remove(fn)
        r = subprocess.run(['timeout', '1500', os.path.join(HERE, 'bin', 'check'), prop, '--tier', 'quick'], env=env, capture_output=True, text=True)
        lines = r.stdout.strip().splitlines()
        kinds = {}
        for fn in glob.glob(os.path.join(HERE, 'replays', f'{prop}-*.json')):
            d = json.load(open(fn))
            k = d.get('sig', {}).get('kind', d.get('kind'))
            kinds[k] = kinds.get(k, 0) + 1
        print(f"== {name}: exit={r.returncode} {lines[-1] if lines else r.stderr[-300:]}\n   kinds={kinds}", flush=True)
    finally:
        subprocess.run(['git', 'checkout', f], cwd=REPO, check=True, capture_output=True)
if __name__ == '__main__':
    prop = sys.argv[1]
    for n in sys.argv[2:]:
        run(n, prop)
