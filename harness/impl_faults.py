#!/usr/bin/env python3
"""Implementation-side probes for the CLI properties that the file-system MODEL does not express (coq/sys/Fs.v has no
links and no permission failures): path ALIASES of the input (hard link, symlink, `..` through a symlinked directory) for
`skops convert` (C17) and FAULTS at the move step of `skops update` (C16: destination is a directory, the rename is refused).

JSON on stdin: {"scratch": dir, "probes": [name, ...]} -> JSON on stdout: {name: {...observations...}}.
Every probe works in a fresh sub-directory of the scratch directory and judges nothing itself: it reports what happened
(exception class, which files changed / appeared / vanished, whether the archive sits at the path the OS resolves);
harness/props/c16.py and c17.py hold the oracles."""
import hashlib
import io
import json
import os
import pickle
import sys
import zipfile


def sha(b):
    return hashlib.sha256(b).hexdigest()[:16]


def listing(root):
    """every regular file / symlink / directory below root -> what it holds (symlinks are not followed)"""
    out = {}
    for d, dirs, files in os.walk(root):
        for n in dirs:
            p = os.path.join(d, n)
            rel = os.path.relpath(p, root)
            out[rel] = "link->" + os.readlink(p) if os.path.islink(p) else "dir"
        for n in files:
            p = os.path.join(d, n)
            rel = os.path.relpath(p, root)
            if os.path.islink(p):
                out[rel] = "link->" + os.readlink(p)
            else:
                with open(p, "rb") as f:
                    out[rel] = "file:" + sha(f.read())
    return out


def is_archive(path):
    try:
        with zipfile.ZipFile(path) as z:
            return "schema.json" in z.namelist()
    except Exception:
        return False


def value():
    import numpy as np
    return {"a": np.arange(4.0), "b": [1, "x", None]}


def run_cli(argv):
    from skops.cli.entrypoint import main_cli
    try:
        main_cli(argv)
        return None
    except BaseException as e:   # SystemExit included
        return type(e).__name__


def diff(before, after):
    return {"changed": sorted(k for k in before if k in after and before[k] != after[k]),
            "appeared": sorted(k for k in after if k not in before),
            "vanished": sorted(k for k in before if k not in after)}


# ------------------------------------------------------------------ C17: aliases of the input / of the output directory
def convert_probe(root, kind):
    import skops.io as sio
    os.makedirs(os.path.join(root, "work"))
    os.makedirs(os.path.join(root, "store", "v2"))
    cwd = os.path.join(root, "work")
    os.chdir(cwd)
    with open("model.pkl", "wb") as f:
        pickle.dump(value(), f)
    with open("model.pkl", "rb") as f:
        in_bytes = f.read()
    expect_at = None
    if kind == "hardlink":
        os.link("model.pkl", "model.skops")
        out = "model.skops"
    elif kind == "hardlink-elsewhere":
        os.link("model.pkl", os.path.join(root, "store", "v2", "copy.skops"))
        out = os.path.join(root, "store", "v2", "copy.skops")
    elif kind == "symlink":
        os.symlink("model.pkl", "alias.skops")
        out = "alias.skops"
    elif kind == "symlink-abs":
        os.symlink(os.path.join(cwd, "model.pkl"), os.path.join(root, "store", "alias.skops"))
        out = os.path.join(root, "store", "alias.skops")
    elif kind in ("dotdot-symlinked-dir", "dotdot-symlinked-dir-abs"):
        os.symlink(os.path.join("..", "store", "v2"), "latest")
        out = os.path.join("latest", "..", "converted.skops")
        if kind.endswith("abs"):
            out = os.path.join(cwd, out)
        expect_at = os.path.join(root, "store", "converted.skops")      # what the OS resolves latest/.. to
    elif kind == "through-symlinked-dir":
        os.symlink(os.path.join("..", "store", "v2"), "latest")
        out = os.path.join("latest", "converted.skops")
        expect_at = os.path.join(root, "store", "v2", "converted.skops")
    else:
        raise KeyError(kind)
    before = listing(root)
    exc = run_cli(["convert", "model.pkl", "-o", out])
    after = listing(root)
    res = {"exc": exc, **diff(before, after), "output": out}
    with open("model.pkl", "rb") as f:
        res["input_unchanged"] = f.read() == in_bytes
    if expect_at is not None:
        res["expect_at"] = os.path.relpath(expect_at, root)
        res["archive_at_expected"] = is_archive(expect_at)
        if res["archive_at_expected"]:
            back = sio.load(expect_at, trusted=sio.get_untrusted_types(file=expect_at))
            res["loads_equal"] = sorted(back) == ["a", "b"] and back["a"].tolist() == [0.0, 1.0, 2.0, 3.0] and back["b"] == [1, "x", None]
    return res


# ------------------------------------------------------------------ C16: the move over the destination fails
def old_archive(path, proto):
    import skops.io as sio
    data = sio.dumps(value())
    zin = zipfile.ZipFile(io.BytesIO(data))
    with zipfile.ZipFile(path, "w") as zo:
        for n in zin.namelist():
            b = zin.read(n)
            if n == "schema.json":
                j = json.loads(b)
                j["protocol"] = proto
                b = json.dumps(j, indent=2).encode()
            zo.writestr(n, b)


def update_probe(root, kind):
    import shutil
    os.makedirs(os.path.join(root, "work", "updated"))
    cwd = os.path.join(root, "work")
    os.chdir(cwd)
    old_archive("old.skops", 0 if "p0" in kind else 1)
    with open("old.skops", "rb") as f:
        in_bytes = f.read()
    with open("existing.skops", "wb") as f:
        f.write(b"PREVIOUS-DESTINATION-CONTENT")
    if kind.startswith("dst-is-directory"):
        argv = ["update", "old.skops", "-o", {"dst-is-directory": "updated", "dst-is-directory-slash": "updated/",
                                               "dst-is-directory-abs": os.path.join(cwd, "updated")}[kind.replace("-p0", "")]]
        refuse = None
    else:
        # the operating system refuses the final move (EACCES / EPERM / EBUSY): injected at every primitive that can move a file
        dst = {"refused-new": "new.skops", "refused-existing": "existing.skops", "refused-inplace": None}[kind.replace("-p0", "")]
        argv = ["update", "old.skops"] + (["-o", dst] if dst else ["--inplace"])
        refuse = os.path.join(cwd, dst or "old.skops")
    before = listing(root)
    hits = []
    if refuse is not None:
        real = {"replace": os.replace, "rename": os.rename, "link": os.link, "copyfile": shutil.copyfile}

        def guard(name):
            def f(src, dst, *a, **k):
                if os.path.abspath(os.fspath(dst)) == refuse:
                    hits.append(name)
                    raise PermissionError(13, "Permission denied (injected)", os.fspath(dst))
                return real[name](src, dst, *a, **k)
            return f
        os.replace, os.rename, os.link, shutil.copyfile = guard("replace"), guard("rename"), guard("link"), guard("copyfile")
    try:
        exc = run_cli(argv)
    finally:
        if refuse is not None:
            os.replace, os.rename, os.link, shutil.copyfile = real["replace"], real["rename"], real["link"], real["copyfile"]
    after = listing(root)
    res = {"exc": exc, **diff(before, after), "argv": argv, "refused_calls": hits}
    with open("old.skops", "rb") as f:
        res["input_unchanged"] = f.read() == in_bytes
    return res


def main():
    req = json.load(sys.stdin)
    out = {}
    for i, name in enumerate(req["probes"]):
        root = os.path.join(req["scratch"], f"p{i}")
        os.makedirs(root)
        area, kind = name.split(":", 1)
        try:
            out[name] = (convert_probe if area == "convert" else update_probe)(root, kind)
        except Exception as e:   # a failure of the probe itself
            import traceback
            out[name] = {"harness_error": type(e).__name__ + ": " + str(e), "trace": traceback.format_exc()[-800:]}
    json.dump(out, sys.stdout)


if __name__ == "__main__":
    main()
