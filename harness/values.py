"""Symbolic value specs (JSON) -> real Python objects, for the dump-side correspondences.

A spec is a list [tag, ...].  ["ref", k] re-uses the k-th object built so far that has identity
(sharing).  User classes live in this module so that dumps sees a stable module name
("values") and loads can import them again.
"""
from __future__ import annotations

import collections
import datetime
import functools
import operator

import numpy as np


class Plain:
    """attribute bag persisted through __dict__"""

    def __init__(self, **kw):
        self.__dict__.update(kw)

    def fit(self, *a):
        return self

    def __eq__(self, o):
        return type(o) is type(self) and o.__dict__ == self.__dict__


class WithState:
    """__getstate__/__setstate__ pair"""

    def __init__(self, payload=None):
        self.payload = payload
        self.cache = "not persisted"

    def __getstate__(self):
        return {"payload": self.payload}

    def __setstate__(self, st):
        self.payload = st["payload"]
        self.cache = "not persisted"


class FalsyState:
    """state that is falsy but not None: __setstate__ must still be called on load"""

    def __init__(self, flag=False):
        self.flag = flag

    def __getstate__(self):
        return self.flag

    def __setstate__(self, st):
        self.flag = st


class FreshState:
    """the state is a temporary computed on demand (a float that nothing but the dump itself keeps alive): once its node is
    written the allocator may hand its address to the next object's state, so the memo has to pin it"""

    def __init__(self, db=1.5):
        self.db = db

    def __getstate__(self):
        return self.db * 2.0

    def __setstate__(self, st):
        self.db = st / 2.0

    def __eq__(self, o):
        return type(o) is type(self) and o.db == self.db


class Slotted:
    __slots__ = ("a", "b")

    def __init__(self, a=None, b=None):
        self.a, self.b = a, b


class ReduceCtor:
    """__reduce__ -> (type(self), args): ConstructorFromReduceNode path"""

    def __init__(self, x, y=0):
        self.x, self.y = x, y

    def __reduce__(self):
        return (ReduceCtor, (self.x, self.y))


class RaisingState:
    def __getstate__(self):
        raise RuntimeError("no state for you")


class MyList(list):
    pass


class MyDict(dict):
    pass


class MyDefaultDict(collections.defaultdict):
    pass


class MyInt(int):
    pass


class MyStr(str):
    pass


class MyTuple(tuple):
    pass


class MyBytes(bytes):
    pass


class MyByteArray(bytearray):
    pass


Point = collections.namedtuple("Point", ["x", "y"])

USER_CLASSES = {"FalsyState": FalsyState, "Plain": Plain, "WithState": WithState, "Slotted": Slotted, "ReduceCtor": ReduceCtor, "RaisingState": RaisingState, "FreshState": FreshState}

TYPES = {"int": int, "float": float, "str": str, "list": list, "dict": dict, "tuple": tuple, "set": set, "bool": bool,
         "np.float64": np.float64, "np.int32": np.int32, "np.ndarray": np.ndarray, "Plain": Plain, "bytes": bytes, "map": map}
FUNCS = {"np.sqrt": np.sqrt, "np.add": np.add, "np.log": np.log, "len": len, "sorted": sorted, "np.mean": np.mean,
         "operator.add": operator.add}
try:
    import scipy.special
    FUNCS["scipy.special.expit"] = scipy.special.expit
except Exception:  # pragma: no cover
    pass


def build(spec, made=None):
    if made is None:
        made = []
    tag = spec[0]

    def B(s):
        return build(s, made)

    def keep(o):
        made.append(o)
        return o
    if tag == "none":
        return None
    if tag in ("int", "bool", "str"):
        return spec[1]
    if tag == "strcp":
        # a str given by its code points (lone surrogates do not survive the JSON channel of the harness)
        return "".join(chr(c) for c in spec[1])
    if tag == "mytuple":
        return MyTuple(B(x) for x in spec[1])
    if tag == "bigint":
        return int(spec[1])
    if tag == "float":
        return float.fromhex(spec[1])
    if tag == "complex":
        return complex(float.fromhex(spec[1]), float.fromhex(spec[2]))
    if tag == "bytes":
        return bytes.fromhex(spec[1])
    if tag == "bytearray":
        return keep(bytearray.fromhex(spec[1]))
    if tag == "mybytes":
        return keep({"MyBytes": MyBytes, "MyByteArray": MyByteArray, "np.bytes_": np.bytes_}[spec[1]](bytes.fromhex(spec[2])))
    if tag == "ref":
        return made[spec[1] % len(made)] if made else None
    # containers are registered for sharing only once complete: the grammar produces DAGs, not cycles
    if tag == "list":
        return keep([B(x) for x in spec[1]])
    if tag == "mylist":
        return keep(MyList([B(x) for x in spec[1]]))
    if tag == "tuple":
        return tuple(B(x) for x in spec[1])
    if tag == "namedtuple":
        return Point(B(spec[1]), B(spec[2]))
    if tag == "set":
        return keep(set(B(x) for x in spec[1]))
    if tag == "frozenset":
        return frozenset(B(x) for x in spec[1])
    if tag == "deque":
        return keep(collections.deque(B(x) for x in spec[1]))
    if tag == "range":
        return range(*spec[1])
    if tag in ("dict", "odict", "mydict", "counter"):
        o = {"dict": dict, "odict": collections.OrderedDict, "mydict": MyDict, "counter": collections.Counter}[tag]()
        for k, v in spec[1]:
            o[B(k)] = B(v)
        return keep(o)
    if tag in ("defaultdict", "mydefaultdict"):
        fac = {"list": list, "int": int, "none": None, "dict": dict}[spec[1]]
        o = (collections.defaultdict if tag == "defaultdict" else MyDefaultDict)(fac)
        for k, v in spec[2]:
            o[B(k)] = B(v)
        return keep(o)
    if tag == "slice":
        return slice(B(spec[1]), B(spec[2]), B(spec[3]))
    if tag == "ndarray":
        _, dtype, shape, order, seed = spec[:5]
        rng = np.random.RandomState(seed)
        n = int(np.prod(shape)) if shape else 1
        dt = np.dtype(dtype)
        if dt.kind in "iu":
            a = rng.randint(0, 100, size=n).astype(dt)
        elif dt.kind == "b":
            a = (rng.rand(n) > 0.5)
        elif dt.kind == "f":
            a = rng.randn(n).astype(dt)
            if n > 2 and len(spec) > 5 and spec[5]:
                a[0], a[1] = np.nan, -0.0
                if n > 3:
                    a[2] = np.inf
        elif dt.kind == "c":
            a = (rng.randn(n) + 1j * rng.randn(n)).astype(dt)
        elif dt.kind in "US":
            a = np.array([("s%d" % i) for i in rng.randint(0, 50, size=n)], dtype=dt)
        elif dt.kind in "mM":
            a = rng.randint(0, 1000, size=n).astype(dt)
        else:
            a = np.zeros(n, dtype=dt)
        a = a.reshape(shape)
        if order == "F":
            a = np.asfortranarray(a)
        return keep(a)
    if tag == "zeros":
        # a large, highly compressible member (compression ratio far above 200:1)
        return np.zeros(int(spec[2]), dtype=np.dtype(spec[1]))
    if tag == "objarray":
        cells = [B(x) for x in spec[2]]
        a = np.empty(len(cells), dtype=object)
        for i, c in enumerate(cells):
            a[i] = c
        return keep(a.reshape(spec[1]))
    if tag == "npscalar":
        return np.array([spec[2]]).astype(np.dtype(spec[1]))[0]
    if tag == "dtype":
        return np.dtype(spec[1])
    if tag == "structdtype":
        return np.dtype([("a", "<i4"), ("b", "<f8")])
    if tag == "masked":
        a = B(spec[1])
        rng = np.random.RandomState(spec[2])
        if len(spec) > 3:     # optional 4th field: {"fill": number, "hard": bool}
            return keep(np.ma.MaskedArray(a, mask=rng.rand(*a.shape) > 0.5, fill_value=spec[3].get("fill"), hard_mask=bool(spec[3].get("hard"))))
        return keep(np.ma.MaskedArray(a, mask=rng.rand(*a.shape) > 0.5))
    if tag == "matrix":
        return keep(np.matrix(B(spec[1])))
    if tag == "randomstate":
        # optional 4th field: the bit generator the RandomState is created over (default: MT19937, as RandomState(seed))
        r = np.random.RandomState(getattr(np.random, spec[3])(spec[1])) if len(spec) > 3 else np.random.RandomState(spec[1])
        for _ in range(spec[2]):
            r.rand()
        if len(spec) > 3 and spec[2] % 2:
            r.normal()       # leaves a cached gaussian behind (has_gauss)
        return keep(r)
    if tag == "generator":
        bg = getattr(np.random, spec[1])(spec[2])
        g = np.random.Generator(bg)
        for _ in range(spec[3]):
            g.random()
        # optional 5th field: how many child generators were spawned (part of the seed sequence's state)
        if len(spec) > 4 and spec[4]:
            g.bit_generator.seed_seq.spawn(spec[4])
        return keep(g)
    if tag == "sparse":
        import scipy.sparse as sp
        rng = np.random.RandomState(spec[3])
        m = sp.random(spec[2][0], spec[2][1], density=0.3, random_state=rng, format="coo")
        if len(spec) > 4 and spec[4] == "noncanonical":
            # repeated coordinates / unsorted indices: a legal matrix that is not in canonical form
            r0 = np.concatenate([m.row, m.row[:2], [0, 0]]).astype(m.row.dtype)
            c0 = np.concatenate([m.col, m.col[:2], [0, 0]]).astype(m.col.dtype)
            d0 = np.concatenate([m.data, m.data[:2] + 1.0, [1.0, 2.0]])
            order = rng.permutation(len(d0))
            m = sp.coo_matrix((d0[order], (r0[order], c0[order])), shape=m.shape)
            if spec[1] in ("csr", "csc"):
                # build the compressed form by hand so that duplicates and the unsorted order survive
                cls = sp.csr_matrix if spec[1] == "csr" else sp.csc_matrix
                major, minor = (m.row, m.col) if spec[1] == "csr" else (m.col, m.row)
                o2 = np.argsort(major, kind="stable")
                n_major = m.shape[0] if spec[1] == "csr" else m.shape[1]
                indptr = np.concatenate([[0], np.cumsum(np.bincount(major, minlength=n_major))]).astype(np.int32)
                return keep(cls((m.data[o2], minor[o2].astype(np.int32), indptr), shape=m.shape))
            return keep(m)
        if spec[1].endswith("_array"):
            cls = getattr(sp, spec[1])
            return keep(cls(m))
        return keep(m.asformat(spec[1]))
    if tag == "ufunc":
        return FUNCS[spec[1]]
    if tag == "type":
        return TYPES[spec[1]]
    if tag == "partial":
        return keep(functools.partial(FUNCS[spec[1]], *[B(x) for x in spec[2]], **{k: B(v) for k, v in spec[3]}))
    if tag == "attrgetter":
        return operator.attrgetter(*spec[1])
    if tag == "itemgetter":
        return operator.itemgetter(*[B(x) for x in spec[1]])
    if tag == "methodcaller":
        return operator.methodcaller(spec[1], *[B(x) for x in spec[2]])
    if tag == "userobj":
        cls = USER_CLASSES[spec[1]]
        if cls is Plain:
            o = Plain()
            for k, v in spec[2]:
                setattr(o, k, B(v))
            return keep(o)
        if cls is WithState:
            # the payload first: a reference inside it must not resolve to the object under construction (a cyclic value is
            # outside every grammar here: dumps raises RecursionError on it)
            payload = B(spec[2][0][1]) if spec[2] else None
            o = keep(WithState())
            o.payload = payload
            return o
        if cls is FalsyState:
            return keep(FalsyState(B(spec[2][0][1]) if spec[2] else False))
        if cls is FreshState:
            return keep(FreshState(B(spec[2][0][1]) if spec[2] else 1.5))
        if cls is Slotted:
            return keep(Slotted(*[B(v) for _, v in spec[2][:2]]))
        if cls is ReduceCtor:
            return keep(ReduceCtor(*[B(v) for _, v in spec[2][:2]] or [1]))
        return keep(cls())
    if tag == "method":
        return B(spec[1]).fit
    if tag == "date":
        return datetime.date(*spec[1])
    if tag == "myint":
        return MyInt(spec[1])
    if tag == "mystr":
        return MyStr(spec[1])
    if tag == "lambda":
        return lambda x: x
    if tag == "generatorobj":
        return (i for i in range(3))
    if tag == "estimator":
        return build_estimator(spec[1], spec[2] if len(spec) > 2 else 0, fitted=spec[3] if len(spec) > 3 else True)
    if tag == "property":
        return property(lambda self: 1)
    if tag == "estjob":
        return build_estjob(spec[1])
    raise ValueError(f"unknown spec tag {tag}")


def build_estjob(job):
    """the estimator of one job of the C07 sweep, built exactly as harness/impl_estimators.py:one_job builds it (same instance
    generator, parameter draw, composition, data and fit fallbacks): the value whose abstraction the codec model is evaluated on"""
    import impl_estimators as IE
    from sklearn.base import clone
    data_kind = job.get("data", "dense")
    if job.get("comp"):
        est, _kind, dk = IE.build_composition(job["comp"], job["seed"])
        data_kind = dk if data_kind == "dense" else data_kind
    else:
        est = IE.base_instance(job["name"])
        params = IE.draw_params(est, job.get("draw", 0), job["seed"])
        if params:
            est = clone(est).set_params(**params)
    if job.get("fitted", True):
        IE.try_fit(est, est.__sklearn_tags__(), data_kind, job["seed"])
    return est


def build_estimator(name, seed=0, fitted=True):
    import warnings
    from sklearn.utils import all_estimators
    ests = dict(all_estimators())
    rng = np.random.RandomState(seed)
    X = np.abs(rng.randn(30, 4))
    y = (rng.rand(30) > 0.5).astype(int)
    est = ests[name]()
    if fitted:
        with warnings.catch_warnings():
            warnings.simplefilter("ignore")
            try:
                est.fit(X, y)
            except Exception:
                est.fit(X)
    return est
