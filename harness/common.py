"""Shared plumbing for the skops Coq verification harness."""
from __future__ import annotations

import fcntl
import hashlib
import json
import os
import re
import shutil
import subprocess
import sys
import time
from pathlib import Path

VERIF = Path(__file__).resolve().parent.parent
REPO = Path(os.environ.get("VERIF_REPO", "/repo"))
COQ = VERIF / "coq"
BUILD = VERIF / "_build"
PY = os.environ.get("VERIF_PY", "/venv/bin/python")
NPROC = min(16, os.cpu_count() or 4)

COQ_RFLAGS = []
for d in ("base", "io", "card", "sys"):
    COQ_RFLAGS += ["-R", str(COQ / d), "Skv"]


def impl_env(extra=None):
    env = dict(os.environ)
    env["PYTHONPATH"] = f"{REPO}:{VERIF / 'harness'}"
    env["PYTHONHASHSEED"] = "0"
    env["PYTHONDONTWRITEBYTECODE"] = "1"
    env["SKOPS_VERIF"] = "1"
    env.pop("PYTHONSTARTUP", None)
    if extra:
        env.update(extra)
    return env


def run_impl(script, args=(), input_obj=None, timeout=600, extra_env=None, cwd=None):
    """Run a harness script against /repo in a fresh interpreter; JSON in, JSON out."""
    cmd = [PY, str(VERIF / "harness" / script), *map(str, args)]
    p = subprocess.run(
        cmd,
        input=json.dumps(input_obj).encode() if input_obj is not None else None,
        stdout=subprocess.PIPE,
        stderr=subprocess.PIPE,
        env=impl_env(extra_env),
        timeout=timeout,
        cwd=cwd,
    )
    return p


# --------------------------------------------------------------------------
# Coq text emission
def cstr(t: str) -> str:
    """A Python str as a Coq term of type pstr (list N of code points)."""
    if t and all(32 <= ord(c) < 127 and c != '"' for c in t):
        return f'(s "{t}")'
    if not t:
        return "(@nil N)"
    return "[" + ";".join(str(ord(c)) for c in t) + "]%N"


def clist(items, empty_type=None) -> str:
    items = list(items)
    if not items:
        return f"(@nil {empty_type})" if empty_type else "[]"
    return "[" + "; ".join(items) + "]"


def cbool(b) -> str:
    return "true" if b else "false"


def cz(n: int) -> str:
    return f"({n})%Z"


def cjson(j) -> str:
    """A Python value (as produced by json.loads) as a Coq term of type json."""
    if j is None:
        return "JNull"
    if j is True:
        return "(JBool true)"
    if j is False:
        return "(JBool false)"
    if isinstance(j, int):
        return f"(JInt {cz(j)})"
    if isinstance(j, float):
        t = j * 2
        if t != int(t):
            raise ValueError(f"float {j} is not a half-integer")
        return f"(JFloat {cz(int(t))})"
    if isinstance(j, str):
        return f"(JStr {cstr(j)})"
    if isinstance(j, list):
        return "(JArr " + clist((cjson(x) for x in j), "json") + ")"
    if isinstance(j, dict):
        return "(JObj " + clist((f"({cstr(k)}, {cjson(v)})" for k, v in j.items()), "(pstr * json)") + ")"
    raise TypeError(type(j))


# --------------------------------------------------------------------------
# Coq compilation
class CoqError(Exception):
    def __init__(self, file, out):
        super().__init__(f"coqc failed on {file}:\n{out[-3000:]}")
        self.file = file
        self.out = out


def ensure_static_build(timeout=1500):
    """make the hand-written theories (full .vo build); serialised by a lock."""
    BUILD.mkdir(exist_ok=True)
    with open(BUILD / ".lock", "w") as lk:
        fcntl.flock(lk, fcntl.LOCK_EX)
        subprocess.run([str(VERIF / "bin" / "mkcoqproject")], check=True)
        if not (COQ / "Makefile").exists() or (COQ / "_CoqProject").stat().st_mtime > (COQ / "Makefile").stat().st_mtime:
            subprocess.run(["coq_makefile", "-f", "_CoqProject", "-o", "Makefile"], cwd=COQ, check=True,
                           stdout=subprocess.PIPE, stderr=subprocess.STDOUT)
        p = subprocess.run(["timeout", str(timeout), "make", f"-j{NPROC}"], cwd=COQ,
                           stdout=subprocess.PIPE, stderr=subprocess.STDOUT)
        if p.returncode != 0:
            raise CoqError("static theories (make)", p.stdout.decode(errors="replace"))
    return True


def coqc(vfile: Path, gen_dir: Path, timeout=600) -> str:
    """Compile one generated/props file; returns coqc's stdout (Print/Eval output)."""
    cmd = ["timeout", str(timeout), "coqc", "-q", *COQ_RFLAGS, "-R", str(gen_dir), "Gen", str(vfile)]
    p = subprocess.run(cmd, stdout=subprocess.PIPE, stderr=subprocess.STDOUT, cwd=gen_dir)
    out = p.stdout.decode(errors="replace")
    if p.returncode != 0:
        raise CoqError(str(vfile), out)
    return out


def coqc_many(vfiles, gen_dir: Path, timeout=900):
    """Compile independent files in parallel; returns {file: stdout}; raises CoqError on first failure."""
    from concurrent.futures import ThreadPoolExecutor

    def one(f):
        return f, coqc(f, gen_dir, timeout)

    res = {}
    with ThreadPoolExecutor(NPROC) as ex:
        for f, out in ex.map(one, list(vfiles)):
            res[f] = out
    return res


FORBIDDEN = re.compile(
    r"\b(Admitted|admit|Axiom|Axioms|Parameter|Parameters|Conjecture|Admit Obligations|"
    r"Unset Guard Checking|bypass_check|Unset Positivity Checking|Unset Universe Checking|"
    r"native_compute)\b"
)


def grep_forbidden():
    """Fail closed if the development declares an axiom or disables a kernel check."""
    bad = []
    for f in sorted(COQ.rglob("*.v")):
        if "gen" in f.parts:
            continue
        txt = re.sub(r"\(\*.*?\*\)", "", f.read_text(), flags=re.S)
        for m in FORBIDDEN.finditer(txt):
            bad.append(f"{f.relative_to(VERIF)}: {m.group(0)}")
        if re.search(r"^\s*(Variable|Variables|Hypothesis|Hypotheses)\b", txt, flags=re.M):
            # allowed only inside a Section
            depth = 0
            for line in txt.splitlines():
                if re.match(r"\s*Section\b", line):
                    depth += 1
                elif re.match(r"\s*End\b", line) and depth > 0:
                    depth -= 1
                elif re.match(r"\s*(Variable|Variables|Hypothesis|Hypotheses)\b", line) and depth == 0:
                    bad.append(f"{f.relative_to(VERIF)}: top-level {line.strip()[:40]}")
    return bad


def parse_assumptions(out: str):
    """Split coqc output of a props file into {theorem: assumptions text}."""
    res = {}
    # our props files print a marker before each Print Assumptions
    parts = re.split(r"^ASSUMPTIONS-OF (\S+)\s*$", out, flags=re.M)
    return parts


# --------------------------------------------------------------------------
def sha(obj) -> str:
    return hashlib.sha256(json.dumps(obj, sort_keys=True, default=str).encode()).hexdigest()[:16]


def decode_pstr_lists(text: str) -> str:
    """Render Coq-printed code-point lists back as text for diagnostics."""
    def rep(m):
        try:
            return repr("".join(chr(int(x)) for x in re.findall(r"\d+", m.group(0))))
        except Exception:
            return m.group(0)
    return re.sub(r"\[(\d+%?N?;\s*)*\d+%?N?\]", rep, text)
