"""Regenerate the machine-maintained tables at the end of DESIGN.md (between the AUTO markers):
fix commits in /repo, open findings, seeded changes and which check caught them."""
import json
import subprocess
from pathlib import Path

V = Path(__file__).resolve().parent.parent
BEGIN, END = "<!-- AUTO-TABLES BEGIN -->", "<!-- AUTO-TABLES END -->"


def main():
    out = [BEGIN, ""]
    out.append("### 11.1 Defects repaired in /repo (`fix:` commits, oldest first)\n")
    log = subprocess.run(["git", "-C", "/repo", "log", "--reverse", "--format=%h %s"], stdout=subprocess.PIPE, text=True).stdout.splitlines()
    out.append("| commit | subject |\n|---|---|")
    for l in log:
        h, _, s = l.partition(" ")
        if s.startswith("fix:"):
            out.append(f"| `{h}` | {s} |")
    out.append("")
    out.append("### 11.2 Open findings (known_findings.json; each has a fixed witness replayed on every run)\n")
    out.append("| property | id | what fails |\n|---|---|---|")
    kf = json.loads((V / "known_findings.json").read_text())["findings"]
    for f in sorted(kf, key=lambda f: (f["property"], f["id"])):
        if f.get("status") == "open":
            out.append(f"| {f['property']} | {f['id']} | {f['what'][:330].replace('|', '/')} |")
    out.append("")
    out.append("### 12.1 Seeded changes (written by fresh sub-agents that saw only the property text) and what catches them\n")
    out.append("| id | what it breaks / what it needs to manifest | caught by | how it surfaced |\n|---|---|---|---|")
    for d in sorted((V / "seeded").glob("*/meta.json")):
        m = json.loads(d.read_text())
        res = m.get("verif_result", {})
        how = []
        for p, v in res.items():
            if v["exit"] != 0:
                summ = [l for l in v["lines"] if l.startswith("[")]
                nf = any("no-failing-input-found" in l for l in v["lines"])
                how.append(f"{p}: " + ("broken obligation, no-failing-input-found" if nf else "concrete replay") + (" (" + summ[0].split("theorems=")[1].split(" cases")[0] + " theorems)" if summ else ""))
        title = (m.get("title") or m.get("what_breaks") or "")[:140].replace("|", "/")
        need = (m.get("needs_to_manifest") or "")[:160].replace("|", "/")
        out.append(f"| {d.parent.name} | {title} — needs: {need} | {', '.join(m.get('caught_by', [])) or '**missed**'} | {'; '.join(how)} |")
    out.append("")
    out.append(END)
    p = V / "DESIGN.md"
    s = p.read_text()
    block = "\n".join(out)
    if BEGIN in s:
        s = s[: s.index(BEGIN)] + block + s[s.index(END) + len(END):]
    else:
        s = s.rstrip() + "\n\n" + block + "\n"
    p.write_text(s)


if __name__ == "__main__":
    main()
