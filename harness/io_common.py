"""Shared correspondence driver for the load-side properties (C01 C02 C03 C11 C13 C19):
run generated archives through the implementation (harness/impl_io.py, mode inspect) and through
the Coq model (Show.v run_* functions, vm_compute) and report the aspects on which they differ."""
from __future__ import annotations

import json
import re
from concurrent.futures import ThreadPoolExecutor

import common as C
import gen_archives as G

ASPECTS = ("gut", "init", "audit", "vis", "rows")
SHOW = {"all": "ShowAll", "untrusted": "ShowUntrusted", "trusted": "ShowTrusted"}


def parse_all_mismatches(out):
    res = []
    for m in re.finditer(r"=\s*(\[.*?\]|nil)\s*:\s*list N", out, flags=re.S):
        nums = [int(x) for x in re.findall(r"\d+", m.group(1))] if m.group(1) != "nil" else []
        cur, i = [], 0
        while i < len(nums):
            idx, n = nums[i], nums[i + 1]
            cur.append((idx, "".join(chr(c) for c in nums[i + 2: i + 2 + n])))
            i += 2 + n
        res.append(cur)
    return res


def canon_bytes(text):
    text = re.sub(r"(?m)(\||: )bytearray\(b(['\"]).*?\2\)", r"\1bytearray(<bytes>)", text)
    text = re.sub(r"(?m)(\||: )b(['\"]).*?\2", r"\1<bytes>", text)
    return text


def resolve_table(R):
    p = C.run_impl("impl_io.py", input_obj={"mode": "resolve_table", "cases": [list(x) for x in G.LOSS_POOL]})
    if p.returncode != 0:
        raise RuntimeError("resolve_table failed: " + p.stderr.decode()[-800:])
    return json.loads(p.stdout)


def run_impl_cases(cases, shards=8, mode="inspect"):
    """Implementation side, in parallel fresh interpreters."""
    shards = max(1, min(shards, len(cases)))
    chunks = [cases[i::shards] for i in range(shards)]

    def one(chunk):
        p = C.run_impl("impl_io.py", input_obj={"mode": mode, "cases": chunk}, timeout=1200)
        if p.returncode != 0:
            raise RuntimeError(f"impl runner exit {p.returncode}: " + p.stderr.decode(errors="replace")[-1500:])
        return json.loads(p.stdout)
    with ThreadPoolExecutor(shards) as ex:
        outs = list(ex.map(one, chunks))
    res = [None] * len(cases)
    for s, o in enumerate(outs):
        for k, r in enumerate(o):
            res[s + k * shards] = r
    return res


def coq_trust(T):
    if T is None:
        return "None"
    return "(Some " + C.clist((C.cstr(x) for x in T), "pstr") + ")"


def expected(case, rec):
    """canonical implementation outputs per aspect"""
    return {
        "gut": rec["gut"],
        "init": None,   # filled below: depends on gut outcome
        "audit": "match",
        "vis": canon_bytes(rec["vis"]),
        "rows": canon_bytes(rec["rows"]),
    }


def model_compare(R, cases, recs, rt, aspects=ASPECTS, shard=120, tag="io"):
    """Returns list of (case index, aspect, model_output). Cases whose model output is DOMAIN are
    counted in R.distribution['outside_domain'] and not compared."""
    pre = ["From Skv Require Import IoShow.", "From Gen Require Import Snapshot.",
           "Definition RT : list (pstr * res (pstr * pstr)) := " + C.clist(
               (f"({C.cstr(k)}, " + (f"Ok ({C.cstr(v[0])}, {C.cstr(v[1])})" if isinstance(v, list) else f"Raise {v}") + ")"
                for k, v in rt.items()), "(pstr * res (pstr * pstr))") + ".",
           "Definition mkE (members : list pstr) : env := {| e_reg := registry; e_cur := current; e_classes := classes;"
           " e_unavailable := unavailable; e_members := members; e_resolve := RT |}."]
    files, index = [], []
    for s0 in range(0, len(cases), shard):
        body = list(pre)
        idxs = list(range(s0, min(s0 + shard, len(cases))))
        for i in idxs:
            c, r = cases[i], recs[i]
            body.append(f"Definition c{i} : icase := {{| ic_env := mkE {C.clist((C.cstr(m) for m in c['members']), 'pstr')};"
                        f" ic_skipped := skipped; ic_schema := {C.cjson(c['schema'])}; ic_trust := {coq_trust(r['T'])};"
                        f" ic_show := {SHOW[c['show']]} |}}.")
        for a in aspects:
            if a == "gut":
                body.append("Eval vm_compute in mismatches run_untrusted " + C.clist(f"(c{i}, {C.cstr(recs[i]['gut'])})" for i in idxs) + ".")
            elif a == "init":
                # what get_tree resolved while building: only defined when the tree was built
                def exp_init(r):
                    if r["gut"].startswith("ok:"):
                        return "ok:" + "\n".join(r["init_events"])
                    return None
                body.append("Eval vm_compute in mismatches (fun c => match get_untrusted_types (ic_env c) (ic_schema c) with Ok _ => run_init_events c | Raise _ => s \"-\" end) "
                            + C.clist(f"(c{i}, {C.cstr(exp_init(recs[i]) if exp_init(recs[i]) is not None else '-')})" for i in idxs) + ".")
            elif a == "audit":
                body.append("Eval vm_compute in mismatches (fun x => run_audit_cmp (fst (fst x)) (snd (fst x)) (snd x)) "
                            + C.clist(f"((c{i}, {C.cstr(recs[i]['load'])}, {C.clist((C.cstr(e) for e in recs[i]['load_events']), 'pstr')}), (s \"match\"))" for i in idxs) + ".")
            elif a == "vis":
                body.append("Eval vm_compute in mismatches run_visualize " + C.clist(f"(c{i}, {C.cstr(canon_bytes(recs[i]['vis']))})" for i in idxs) + ".")
            elif a == "rows":
                body.append("Eval vm_compute in mismatches run_rows " + C.clist(f"(c{i}, {C.cstr(canon_bytes(recs[i]['rows']))})" for i in idxs) + ".")
        f = R.gen / f"Cases_{tag}_{s0}.v"
        f.write_text("\n".join(body) + "\n")
        files.append(f)
        index.append(idxs)
    outs = C.coqc_many(files, R.gen, timeout=1500)
    bad = []
    for f, idxs in zip(files, index):
        per_aspect = parse_all_mismatches(outs[f])
        if len(per_aspect) != len(aspects):
            raise RuntimeError(f"{f.name}: expected {len(aspects)} result lists, got {len(per_aspect)}: {outs[f][-400:]}")
        for a, lst in zip(aspects, per_aspect):
            for k, model in lst:
                if model.startswith("DOMAIN") or model == "ok:DOMAIN":
                    R.count("outside_domain:" + a)
                    continue
                bad.append((idxs[k], a, model))
    return bad


def describe(case, rec, aspect, model):
    impl = {"gut": rec["gut"], "init": rec["init_events"], "audit": [rec["load"], rec["load_events"]],
            "vis": rec["vis"], "rows": rec["rows"]}[aspect]
    return {"aspect": aspect, "schema": case["schema"], "members": case["members"], "trusted": rec["T"], "show": case["show"],
            "implementation": impl, "model": model, "notes": case.get("notes")}


# --------------------------------------------------------------------------------------------
def loss_pairs(cases):
    pairs = set(map(tuple, G.LOSS_POOL))
    for c in cases:
        for _, v in G.all_paths(c["schema"]):
            if isinstance(v, dict) and v.get("__loader__") == "LossNode" and isinstance(v.get("__module__"), str) and isinstance(v.get("__class__"), str) and v["__module__"] and v["__class__"]:
                pairs.add((v["__module__"], v["__class__"]))
    return sorted(pairs)


def run_batch(R, cases, aspects=ASPECTS, tag="io", entry=False):
    """implementation + model on `cases`; records evidence counters; returns (recs, bad)."""
    scratch = C.BUILD / "scratch" / R.prop
    for c in cases:
        if entry:
            c["entry"] = True
            c["scratch"] = str(scratch)
    p = C.run_impl("impl_io.py", input_obj={"mode": "resolve_table", "cases": [list(x) for x in loss_pairs(cases)]})
    if p.returncode != 0:
        raise RuntimeError("resolve_table failed: " + p.stderr.decode()[-800:])
    rt = json.loads(p.stdout)
    # LossNode states naming an object whose module skops can only guess by scanning sys.modules are outside the model
    skip = {k for k, v in rt.items() if v == "SKIP"}
    if skip:
        keep = [c for c in cases if not any(f"{m}.{k}" in skip for m, k in loss_pairs([c]))]
        R.count("dropped:loss-name-without-__module__", len(cases) - len(keep))
        cases[:] = keep
        rt = {k: v for k, v in rt.items() if v != "SKIP"}
    recs = run_impl_cases(cases)
    bad = model_compare(R, cases, recs, rt, aspects=aspects, tag=tag)
    for c, r in zip(cases, recs):
        nontrivial = r["gut"].startswith("ok:") or r["load"] == "returned"
        R.case({"schema": c["schema"], "T": r["T"], "show": c["show"]}, nontrivial=nontrivial)
        R.count("stream:" + ("malformed" if c.get("malformed") else "structured"))
        R.count("gut:" + r["gut"].split(":")[0] + (":" + r["gut"].split(":")[1] if r["gut"].startswith("err") else ""))
        R.count("load:" + (r["load"] if not r["load"].startswith("err:Untrusted") else "err:Untrusted").split(",")[0][:40])
        R.count("tspec:" + c.get("tspec", "explicit"))
        for k, n in G.kinds_in(c["schema"]).items():
            R.count("kind:" + k, n)
        R.count("depth:" + str(min(G.depth_of(c["schema"]) // 4, 6)))
    R.disagreements += len(bad)
    import shutil
    shutil.rmtree(scratch, ignore_errors=True)
    return recs, bad, rt


def report_disagreements(R, cases, recs, bad, what):
    for i, a, model in bad[:20]:
        d = describe(cases[i], recs[i], a, model)
        R.obligation_broken(f"correspondence {what}/{a}",
                            json.dumps({"schema": d["schema"], "members": d["members"], "trusted": d["trusted"], "show": d["show"],
                                        "implementation": d["implementation"], "model": d["model"]})[:3000])


def uncovered_kinds(R, snap):
    seen = {k[5:] for k in R.distribution if k.startswith("kind:")}
    return sorted({l for l, _, _ in snap["registry"]} - seen)
