"""Implementation-side runner for the skops.io correspondences.
Reads {"mode":..., "cases":[...]} on stdin, writes a JSON list of canonical outcomes."""
from __future__ import annotations

import io
import json
import sys
import warnings
import zipfile
from pathlib import Path

sys.path.insert(0, str(Path(__file__).resolve().parent))
warnings.simplefilter("ignore")


def probe_zip():
    buf = io.BytesIO()
    with zipfile.ZipFile(buf, "w") as z:
        for n in ("probe.bin", "probe.npy", "probe.npz"):
            z.writestr(n, b"x")
    return zipfile.ZipFile(io.BytesIO(buf.getvalue()))


def mode_dispatch(cases):
    from snapshot import PROBES, class_tag, hdr
    import skops.io  # noqa
    from skops.io import _audit, _utils
    zf = probe_zip()
    out = []
    for loader, proto in cases:
        state = PROBES[loader]() if isinstance(loader, str) and loader in PROBES else hdr("c", "m", loader)
        state["__loader__"] = loader
        try:
            node = _audit.get_tree(state, _utils.LoadContext(src=zf, protocol=proto), trusted=None)
            out.append("ok:" + class_tag(type(node)))
        except TypeError as e:
            out.append("noloader" if "Can't find loader" in str(e) else "error")
        except ImportError:
            # constructor of an optional-dependency loader: dispatch did select it
            out.append("ok:_quantile_forest.QuantileForestNode" if loader == "QuantileForestNode" else "error")
        except Exception:
            out.append("error")
    return out


MODES = {"dispatch": mode_dispatch}


# ----------------------------------------------------------------------------------------------
# mode "inspect": everything observable about get_untrusted_types / loads / visualize on one archive
import ast
import builtins
import contextlib
import importlib
import random
import os

CANARY_DIR = str(Path(__file__).resolve().parent / "canary")


def exc_enum(e):
    from skops.io.exceptions import UnsupportedTypeException, UntrustedTypesFoundException
    if isinstance(e, UntrustedTypesFoundException):
        msg = str(e)
        try:
            names = ast.literal_eval(msg[msg.index("["): msg.rindex("]") + 1])
        except Exception:
            names = ["?unparsable?"]
        return "Untrusted:" + ",".join(names)
    if isinstance(e, UnsupportedTypeException):
        return "Unsupported"
    if isinstance(e, TypeError):
        s = str(e)
        if "Can't find loader" in s:
            m = s.split("Can't find loader ", 1)[1].split(" for type", 1)[0]
            return "NoLoader:" + m
        if "trusted must be a list of strings" in s:
            return "TrustedTrue"
        return "TypeError"
    for cls, name in ((KeyError, "KeyError"), (RecursionError, "RecursionError"), (ValueError, "ValueError"),
                      (AttributeError, "AttributeError"), (ImportError, "ImportError")):
        if isinstance(e, cls):
            return name
    return "Other"


def build_zip(schema, members, big=None):
    """members hold b"x"; `big` = {name: size} makes that member a valid .npy of about `size` bytes of zeros (deflated)"""
    buf = io.BytesIO()
    with zipfile.ZipFile(buf, "w", compression=zipfile.ZIP_DEFLATED if big else zipfile.ZIP_STORED) as z:
        z.writestr("schema.json", json.dumps(schema))
        for n in members:
            if big and n in big:
                import numpy as _np
                b = io.BytesIO()
                _np.save(b, _np.zeros(big[n] // 8))
                z.writestr(n, b.getvalue())
            else:
                z.writestr(n, b"x")
    return buf.getvalue()


class Tracer:
    """Wrap the name-resolution sites of skops.io from outside (no source hooks)."""

    def __init__(self):
        import operator
        import skops.io  # noqa
        from skops.io import _audit, _general, _numpy, _persist, _scipy, _sklearn, _utils, _visualize, _quantile_forest
        from skops.io.old import _general_v0, _numpy_v0, _numpy_v1
        self.events = []
        self.imports = []
        self.on = False
        mods = [_audit, _general, _numpy, _persist, _scipy, _sklearn, _visualize, _quantile_forest, _general_v0, _numpy_v0, _numpy_v1]
        tr = self

        import numpy as _np

        def wrap(orig):
            def w(module, name, *a, **k):
                if tr.on:
                    tr.events.append(("R", module, name))
                res = orig(module, name, *a, **k)
                # a numpy.random attribute named by the archive: if it is not a bit generator class, report any call of it
                if tr.on and module == "numpy.random" and callable(res) and not (isinstance(res, type) and issubclass(res, _np.random.BitGenerator)):
                    def called(*aa, **kk):
                        tr.events.append(("C", "numpy.random", name))
                        return res(*aa, **kk)
                    return called
                return res
            return w
        # every module of skops.io (whatever it is called) and every global that IS one of the two resolvers (whatever name
        # it was imported under)
        import sys as _sys
        mods = list(dict.fromkeys(mods + [m for n, m in sorted(_sys.modules.items())
                                          if n.startswith("skops.io.") and m is not None and m is not _utils and ".tests" not in n]))
        resolvers = {id(getattr(_utils, fn)): getattr(_utils, fn) for fn in ("gettype", "_import_obj") if hasattr(_utils, fn)}
        for m in mods:
            for gname, gval in list(vars(m).items()):
                if id(gval) in resolvers:
                    setattr(m, gname, wrap(resolvers[id(gval)]))
        orig_import_module = importlib.import_module

        def import_module(name, package=None):
            if tr.on:
                tr.imports.append(name)
            return orig_import_module(name, package)
        importlib.import_module = import_module
        real_getattr = builtins.getattr

        def traced_getattr(obj, name, *default):
            if tr.on:
                if obj is operator:
                    tr.events.append(("M", "operator", name))
                else:
                    import sys as _s
                    # an attribute fetched while a node is being constructed: the calling frame or one of its near callers
                    # is a _construct method (helpers extracted from it still count)
                    f, hit = _s._getframe(1), False
                    for _ in range(4):
                        if f is None:
                            break
                        if f.f_code.co_name == "_construct":
                            hit = True
                            break
                        f = f.f_back
                    if hit:
                        tr.events.append(("A", name))
            return real_getattr(obj, name, *default)
        _general.getattr = traced_getattr

    @contextlib.contextmanager
    def tracing(self):
        self.events, self.imports = [], []
        self.on = True
        try:
            yield self
        finally:
            self.on = False


def fmt_short(v):
    if isinstance(v, str):
        return v
    if v is None or isinstance(v, (bool, int, float)):
        return str(v)
    if isinstance(v, (list, dict, tuple)):
        # names that are JSON containers: skops formats them with str() when it reports them, so do we
        return str(v)[:60]
    return "?"


def canon_events(evs):
    out = []
    for e in evs:
        if e[0] == "C":
            continue        # calls are reported separately (load_calls), they are not resolutions
        elif e[0] == "R":
            if e[1] == "numpy.random":
                out.append("M:numpy.random|*")
            else:
                out.append(f"R:{fmt_short(e[1])}|{fmt_short(e[2])}")
        elif e[0] == "M":
            out.append(f"M:{e[1]}|{fmt_short(e[2])}")
        else:
            out.append(f"A:{fmt_short(e[1])}")
    return out


def concretize_T(case, reported):
    r = random.Random(case["tseed"])
    spec = case["tspec"]
    extra = ["verif_canary_pkg.Probe", "os.getcwd", "builtins.list", "x.y", "numpy.ndarray"]
    if spec == "none":
        return None
    if spec == "empty":
        return []
    if spec == "reported":
        return list(reported)
    if spec == "subset":
        return [n for n in reported if r.random() < 0.5]
    if spec == "superset":
        t = list(reported) + r.sample(extra, r.randint(1, 3))
        r.shuffle(t)
        return t + t[:1]
    if spec == "misleading":
        t = []
        for n in reported:
            k = r.random()
            t.append(n[1:] if k < 0.3 else n + " " if k < 0.5 else n.replace(".", "", 1) if k < 0.7 else n.upper() if k < 0.8 else n)
        return t
    raise ValueError(spec)


def outcome_of(fn):
    import hashlib
    from absval import fingerprint
    try:
        obj = fn()
        return "returned:" + hashlib.sha256(fingerprint(obj).encode()).hexdigest()[:12]
    except BaseException as e:  # noqa
        if not isinstance(e, Exception):
            return "BASEEXC:" + type(e).__name__
        return "err:" + exc_enum(e)


def entry_variants(sio, case, data, T, rec):
    """The three entry points and the admissible spellings of T must agree (C03)."""
    import collections
    import numpy as np
    import verif_canary_pkg
    scratch = Path(case["scratch"])
    scratch.mkdir(parents=True, exist_ok=True)
    f = scratch / f"a{os.getpid()}.skops"
    f.write_bytes(data)
    pool = {"builtins.list": list, "builtins.dict": dict, "verif_canary_pkg.Probe": verif_canary_pkg.Probe,
            "numpy.ndarray": np.ndarray, "collections.OrderedDict": collections.OrderedDict, "builtins.int": int}
    r = random.Random(case["tseed"] + 1)
    out = {}
    try:
        out["loads"] = outcome_of(lambda: sio.loads(data, trusted=T))
        out["load_str"] = outcome_of(lambda: sio.load(str(f), trusted=T))
        out["load_path"] = outcome_of(lambda: sio.load(f, trusted=T))
        if T is not None:
            out["tuple"] = outcome_of(lambda: sio.loads(data, trusted=tuple(T)))
            sh = list(T) + list(T[:2])
            r.shuffle(sh)
            out["shuffled_dups"] = outcome_of(lambda: sio.loads(data, trusted=sh))
            ty = [pool.get(n, n) for n in T]
            out["type_objects"] = outcome_of(lambda: sio.loads(data, trusted=ty))
            sup = list(T) + ["zz.unrelated", "os.getcwd"]
            out["superset"] = outcome_of(lambda: sio.loads(data, trusted=sup))
            if T:
                # the caller owns its trusted list: it may edit the SAME list object in place between two loads (here:
                # every name revoked, length unchanged); the second load must behave as with a fresh list of those names
                L = list(T)
                sio.loads(data, trusted=L) if out["loads"].startswith("returned") else None
                for i in range(len(L)):
                    L[i] = f"zz.revoked{i}"
                out["inplace_edit_same_object"] = outcome_of(lambda: sio.loads(data, trusted=L))
                out["inplace_edit_fresh_object"] = outcome_of(lambda: sio.loads(data, trusted=list(L)))
        out["true_loads"] = outcome_of(lambda: sio.loads(data, trusted=True))
        out["true_load"] = outcome_of(lambda: sio.load(f, trusted=True))
        try:
            g = sio.get_untrusted_types(file=f)
            out["gut_file"] = "ok:" + ",".join(g)
            out["gut_sorted_unique"] = (g == sorted(set(g)))
            g2 = sio.get_untrusted_types(file=str(f))
            out["gut_file_str"] = "ok:" + ",".join(g2)
            # the caller owns the returned list: editing it must not influence later audits of the same bytes
            g3 = sio.get_untrusted_types(data=data)
            g3.append("zz.injected")
            g3.reverse()
            g4 = sio.get_untrusted_types(data=data)
            out["gut_after_caller_edit"] = "ok:" + ",".join(g4)
        except Exception as e:
            out["gut_file"] = out["gut_file_str"] = "err:" + exc_enum(e)
            out["gut_sorted_unique"] = True
    finally:
        try:
            f.unlink()
        except OSError:
            pass
    return out


def mode_inspect(cases):
    import sys
    sys.path.insert(0, CANARY_DIR)
    builtins._verif_ledger = []
    import skops.io as sio
    tr = Tracer()
    out = []
    for case in cases:
        data = build_zip(case["schema"], case["members"])
        rec = {}
        builtins._verif_ledger.clear()
        # 1. get_untrusted_types (also: what get_tree resolves/imports while building)
        with tr.tracing():
            try:
                gut = sio.get_untrusted_types(data=data)
                rec["gut"] = "ok:" + ",".join(gut)
            except RecursionError as e:
                gut, rec["gut"] = [], "err:RecursionError"
            except Exception as e:
                gut, rec["gut"] = [], "err:" + exc_enum(e)
        rec["init_events"] = canon_events(tr.events)
        rec["init_imports"] = list(tr.imports)
        rec["init_ledger"] = [list(x) for x in builtins._verif_ledger]
        T = case["T"] if "T" in case else concretize_T(case, gut)
        rec["T"] = T
        # 2. loads
        builtins._verif_ledger.clear()
        with tr.tracing():
            try:
                obj = sio.loads(data, trusted=T)
                rec["load"] = "returned"
                rec["load_type"] = f"{type(obj).__module__}.{type(obj).__qualname__}"
                import types as _t
                import numpy as _np
                # a type / function / ufunc handed back is judged by the name it was resolved under, not by type(obj)
                rec["load_named_object"] = isinstance(obj, (type, _t.FunctionType, _t.BuiltinFunctionType, _np.ufunc))
            except BaseException as e:  # noqa
                if not isinstance(e, Exception):
                    rec["load"] = "BASEEXC:" + type(e).__name__
                else:
                    rec["load"] = "err:" + exc_enum(e)
                    rec["load_exc"] = type(e).__name__
        rec["load_events"] = canon_events(tr.events)
        rec["load_calls"] = [f"{e[1]}.{fmt_short(e[2])}" for e in tr.events if e[0] == "C"]
        rec["load_imports"] = list(tr.imports)
        rec["load_ledger"] = [list(x) for x in builtins._verif_ledger]
        if case.get("entry"):
            rec["entry"] = entry_variants(sio, case, data, T, rec)
        # 3. visualize, default sink, stdout captured the way a terminal or a file receives it: a UTF-8 text stream over
        # bytes (a text that cannot be encoded makes print raise, as it does on a real stdout)
        rec["vis"] = run_default_sink(lambda: sio.visualize(data, trusted=T, show=case["show"]))
        # 4. raw rows
        rows = []
        try:
            sio.visualize(data, trusted=T, show=case["show"], sink=lambda nodes, show, **kw: rows.extend(nodes))
            rec["rows"] = "ok:" + "\n".join(
                f"{r.level}|{r.key}|{r.val}|{int(r.is_self_safe)}{int(r.is_safe)}{int(r.is_last)}" for r in rows)
            # the same rows field by field (a key or a type name may hold a line break or a bar)
            rec["rowlist"] = [rowrec(r) for r in rows]
        except Exception as e:
            rec["rows"] = "err:" + exc_enum(e)
        out.append(rec)
    return out


def rowrec(r):
    return [r.level, str(r.key), str(r.val), bool(r.is_self_safe), bool(r.is_safe), bool(r.is_last)]


def run_default_sink(fn):
    """fn prints to sys.stdout; returns "ok:<text>" or "err:<enum>" (UnicodeEncodeError under its own name: it is what a
    UTF-8 stdout raises when the text holds a lone surrogate)"""
    raw = io.BytesIO()
    stream = io.TextIOWrapper(raw, encoding="utf-8", errors="strict", newline="\n", write_through=True)
    try:
        with contextlib.redirect_stdout(stream):
            fn()
        stream.flush()
        return "ok:" + raw.getvalue().decode("utf-8").rstrip("\n")
    except UnicodeEncodeError:
        return "err:UnicodeEncodeError"
    except Exception as e:
        return "err:" + exc_enum(e)


def mode_charset(req):
    """C13: the model's table of printable code points against str.isprintable of THIS interpreter (the one that runs
    skops), on the whole charset on which the model claims to be exact; and the escape of every unprintable one"""
    import unicodedata
    cfg = req[0]
    pr, cs = cfg["printable"], cfg["charset"]
    bad, n = [], 0
    for lo, hi in cs:
        for c in range(lo, hi + 1):
            n += 1
            model = any(a <= c <= b for a, b in pr)
            if chr(c).isprintable() != model:
                bad.append(c)
    outside = [c for a, b in pr for c in (a, b) if not any(lo <= c <= hi for lo, hi in cs)]
    return [{"python": sys.version.split()[0], "unidata": unicodedata.unidata_version, "checked": n, "disagree": bad[:40],
             "printable_outside_charset": outside}]


def mode_dumpvis(req):
    """C13, the text on real dumps: dumps(value) is visualized in all nine (show x trusted) combinations through the default
    sink over a UTF-8 byte stream; the row stream (custom sink) is recorded once per trusted list"""
    import skops.io as sio
    from values import build
    out = []
    for spec in req:
        rec = {}
        try:
            obj = build(spec)
        except Exception as e:
            out.append({"build": "err:" + type(e).__name__})
            continue
        try:
            data = sio.dumps(obj)
        except BaseException as e:  # noqa
            out.append({"build": "ok", "dump": "raises:" + type(e).__name__})
            continue
        rec["build"], rec["dump"] = "ok", "ok"
        try:
            gut = sio.get_untrusted_types(data=data)
        except Exception:
            gut = []
        rec["combos"], rec["rows"] = {}, {}
        for tname, T in (("none", None), ("full", gut), ("half", gut[: len(gut) // 2])):
            rows = []
            try:
                sio.visualize(data, trusted=T, show="all", sink=lambda nodes, show, **kw: rows.extend(nodes))
                rec["rows"][tname] = [rowrec(r) for r in rows]
            except Exception as e:
                rec["rows"][tname] = "raises:" + type(e).__name__ + ":" + str(e)[:60]
            for show in ("all", "untrusted", "trusted"):
                def call(show=show, T=T):
                    sio.visualize(data, show=show, trusted=T)
                raw = io.BytesIO()
                stream = io.TextIOWrapper(raw, encoding="utf-8", errors="strict", newline="\n", write_through=True)
                try:
                    with contextlib.redirect_stdout(stream):
                        call()
                    stream.flush()
                    rec["combos"][f"{show}/{tname}"] = {"vis": "ok", "text": raw.getvalue().decode("utf-8").rstrip("\n")}
                except Exception as e:
                    rec["combos"][f"{show}/{tname}"] = {"vis": "raises:" + type(e).__name__ + ":" + str(e)[:80]}
        out.append(rec)
    return out


def mode_resolve_table(pairs):
    """What gettype(module, name) finds for the fixed pool of names the generator puts into LossNode
    states -- computed with importlib directly, not through skops."""
    import sys
    sys.path.insert(0, CANARY_DIR)
    out = {}
    for m, c in pairs:
        try:
            mod = importlib.import_module(m)
            out.setdefault(m, ["", ""])
        except ImportError:
            out[m + "." + c] = "EImport"
            out[m] = "EImport"
            continue
        try:
            obj = getattr(mod, c)
            if getattr(obj, "__module__", None) is None or not isinstance(getattr(obj, "__name__", None), str):
                out[m + "." + c] = "SKIP"      # skops would scan sys.modules (process-state dependent) or fail: not modelled
            else:
                out[m + "." + c] = [obj.__module__, obj.__name__]
        except AttributeError:
            out[m + "." + c] = "EAttr"
    return out


UNIVERSE_MODULES = ["builtins", "os", "posix", "sys", "subprocess", "shutil", "importlib", "pickle", "marshal", "ctypes", "socket",
                    "io", "pathlib", "tempfile", "operator", "functools", "types", "code", "runpy",
                    "numpy", "numpy.random", "numpy.linalg", "numpy.ma", "numpy.lib", "scipy", "scipy.special", "scipy.sparse", "scipy.linalg",
                    "sklearn", "sklearn.base", "sklearn.utils", "sklearn.pipeline", "sklearn.metrics", "sklearn.tree._tree",
                    "sklearn.linear_model._sgd_fast", "sklearn._loss._loss", "joblib"]


def mode_universe(_):
    """Enumerate the public names of the modules the property lists (installed versions) with their family tag."""
    from families import family_tag
    out = []
    with warnings.catch_warnings():
        warnings.simplefilter("ignore")
        for m in UNIVERSE_MODULES:
            try:
                mod = importlib.import_module(m)
            except Exception:
                continue
            for a in sorted(dir(mod)):
                if a.startswith("__"):
                    continue
                try:
                    getattr(mod, a)
                except Exception:
                    continue
                out.append([m, a, family_tag(f"{m}.{a}")])
    return out


def mode_inert(req_cases):
    """C02: run every inspection entry point on archives whose name slots mention importable-but-not-imported
    canary modules; report anything that was imported, resolved, opened or executed on the archive's behalf."""
    import sys
    cfg, cases = req_cases[0], req_cases[1:]
    sys.path.insert(0, cfg["canary_dir"])
    sys.path.insert(0, CANARY_DIR)
    builtins._verif_ledger = []
    import skops.io as sio
    tr = Tracer()
    scratch = Path(cfg["scratch"])
    scratch.mkdir(parents=True, exist_ok=True)
    hook_events = []
    state = {"on": False, "allowed": None}

    def hook(ev, args):
        if not state["on"]:
            return
        if ev == "import":
            if str(args[0]).startswith(("verif_cm_", "verif_canary")):
                hook_events.append(["import", str(args[0])])
        elif ev == "open":
            if str(args[0]) != state["allowed"] and not str(args[0]).endswith((".pyc", ".py", ".so")):
                hook_events.append(["open", str(args[0]), str(args[1])])
        elif ev in ("tempfile.mkdtemp", "tempfile.mkstemp", "os.mkdir"):
            hook_events.append([ev, str(args)[:80]])
        elif ev in ("exec", "compile"):
            # compile/exec happen inside the import of a module: judged by the import event itself
            pass
        elif ev.startswith(("os.", "subprocess.", "socket.", "ctypes.", "shutil.", "tempfile.", "pty.", "webbrowser.")) and ev not in ("os.listdir", "os.scandir", "os.putenv"):
            hook_events.append([ev, str(args)[:80]])
    sys.addaudithook(hook)
    # dynamic call edges between functions of skops.io, to validate the static call graph (harness/callgraph.py):
    # every edge observed here must be an edge of the translated graph
    io_dir = os.path.join(os.path.dirname(os.path.abspath(sio.__file__)), "")
    dyn_edges = set()

    def key_of(code):
        fn = code.co_filename
        if not fn.startswith(io_dir):
            return None
        return fn[len(io_dir):-3].replace(os.sep, ".") + "." + code.co_qualname.split(".<locals>")[0]

    def prof(frame, event, arg):
        if event != "call":
            return
        code = frame.f_code
        if code.co_flags & 0x20:        # generator: 'call' also fires on every resumption, attributed to the resumer
            return
        k = key_of(code)
        if k is None:
            return
        b = frame.f_back
        while b is not None and key_of(b.f_code) is None:
            b = b.f_back
        if b is not None:
            dyn_edges.add((key_of(b.f_code), k))
    out = []
    import tempfile
    for case in cases:
        data = build_zip(case["schema"], case["members"], case.get("big"))
        tmp_before = set(os.listdir(tempfile.gettempdir()))
        f = scratch / f"inert{os.getpid()}.skops"
        f.write_bytes(data)
        state["allowed"] = str(f)
        rec = {"steps": {}}
        before = set(sys.modules)

        def step(name, fn):
            builtins._verif_ledger.clear()
            del hook_events[:]
            state["on"] = True
            try:
                with tr.tracing():
                    sys.setprofile(prof)
                    try:
                        fn()
                        res = "ok"
                    except BaseException as e:  # noqa
                        res = "err:" + (exc_enum(e) if isinstance(e, Exception) else "BASEEXC")
                    finally:
                        sys.setprofile(None)
            finally:
                state["on"] = False
            new_mods = sorted(m for m in set(sys.modules) - before if m.startswith(("verif_cm_", "verif_canary")))
            rec["steps"][name] = {"result": res.split(",")[0][:60], "resolved": canon_events(tr.events), "import_module": list(tr.imports),
                                  "ledger": [list(x) for x in builtins._verif_ledger], "hook": [list(x) for x in hook_events], "new_modules": new_mods}
        step("get_untrusted_types(data)", lambda: sio.get_untrusted_types(data=data))
        step("get_untrusted_types(file)", lambda: sio.get_untrusted_types(file=f))
        step("visualize(all)", lambda: sio.visualize(data, sink=lambda nodes, show, **kw: list(nodes)))
        step("visualize(file,default sink)", lambda: sio.visualize(f, show="untrusted"))
        # the part of load before the trust decision: with an empty trusted list every canary name is refused
        step("loads(trusted=[])", lambda: sio.loads(data, trusted=[]))
        step("load(file,trusted=None)", lambda: sio.load(f, trusted=None))
        left = sorted(set(os.listdir(tempfile.gettempdir())) - tmp_before)
        if left:
            rec["steps"]["(after all steps)"] = {"result": "ok", "resolved": [], "import_module": [], "ledger": [], "new_modules": [],
                                                 "hook": [["left-in-tempdir", x] for x in left[:5]]}
        # modules imported by a legitimate construct (audit passed) would show up here: drop them from the baseline
        for m in list(sys.modules):
            if m.startswith("verif_cm_"):
                del sys.modules[m]
        try:
            f.unlink()
        except OSError:
            pass
        out.append(rec)
    out.append({"dyn_edges": sorted(list(e) for e in dyn_edges)})
    return out


MODES["inert"] = mode_inert
def mode_robust(req_cases):
    """C19: each archive (given as schema+members, or as hex bytes) goes through load / get_untrusted_types / visualize
    under an alarm; afterwards process-wide state must be what it was and no file may have appeared."""
    import hashlib
    import signal
    import sys
    import numpy as np
    cfg, cases = req_cases[0], req_cases[1:]
    sys.path.insert(0, CANARY_DIR)
    import skops.io as sio
    scratch = Path(cfg["scratch"]) / f"w{os.getpid()}"
    scratch.mkdir(parents=True, exist_ok=True)
    os.chdir(scratch)

    class Hang(BaseException):
        pass

    def on_alarm(signum, frame):
        raise Hang()
    signal.signal(signal.SIGALRM, on_alarm)

    def world():
        return {"cwd": os.getcwd(), "env": hashlib.sha256(repr(sorted(os.environ.items())).encode()).hexdigest()[:12],
                "sys.path": hashlib.sha256(repr(sys.path).encode()).hexdigest()[:12],
                "np.random": hashlib.sha256(repr(np.random.get_state()[1][:8].tolist()).encode() + str(np.random.get_state()[2]).encode()).hexdigest()[:12],
                "files": sorted(os.listdir(scratch)), "recursionlimit": sys.getrecursionlimit()}
    out = []
    import tempfile
    fdir = tempfile.mkdtemp(prefix="c19files_", dir=os.path.dirname(str(scratch)) or None)   # beside, not inside, the watched directory
    fpath = os.path.join(fdir, "archive.skops")
    for case in cases:
        data = bytes.fromhex(case["hex"]) if "hex" in case else build_zip(case["schema"], case["members"])
        with open(fpath, "wb") as fh:
            fh.write(data)
        before = world()
        rec = {"calls": {}}

        def call(name, fn):
            import time
            t0 = time.time()
            signal.alarm(cfg.get("alarm", 20))
            try:
                fn()
                r = "ok"
            except Hang:
                r = "HANG"
            except Exception as e:
                r = "exc:" + type(e).__name__
            except BaseException as e:  # noqa
                r = "BASEEXC:" + type(e).__name__
            finally:
                signal.alarm(0)
            rec["calls"][name] = [r, round(time.time() - t0, 3)]
        gut = []

        def do_gut():
            gut[:] = sio.get_untrusted_types(data=data)
        call("get_untrusted_types", do_gut)
        if cfg.get("only_audit"):
            rec["changed"] = {}
            out.append(rec)
            continue
        call("loads(None)", lambda: sio.loads(data, trusted=None))
        loaded = []
        call("loads(reported)", lambda: loaded.append(sio.loads(data, trusted=list(gut))))
        if loaded:
            # what load handed back must be a usable object: looking at it must not take the interpreter down either
            def use():
                from absval import fingerprint
                repr(loaded[0])[:10]
                fingerprint(loaded[0])
            call("use(loaded)", use)
            del loaded[:]
        buf = io.StringIO()

        def do_vis():
            with contextlib.redirect_stdout(buf):
                sio.visualize(data)
        call("visualize", do_vis)
        # the same archive through its path: the file entry points must leave the process as they found it as well
        # (whether they succeed or refuse)
        call("get_untrusted_types(file)", lambda: sio.get_untrusted_types(file=fpath))
        call("load(file,None)", lambda: sio.load(fpath, trusted=None))
        call("load(file,reported)", lambda: sio.load(fpath, trusted=list(gut)))

        def do_vis_file():
            with contextlib.redirect_stdout(buf):
                sio.visualize(fpath)
        call("visualize(file)", do_vis_file)
        after = world()
        rec["changed"] = {k: [before[k], after[k]] for k in before if before[k] != after[k]}
        if after["cwd"] != str(scratch):
            os.chdir(scratch)
        out.append(rec)
    import shutil
    os.chdir("/")
    shutil.rmtree(scratch, ignore_errors=True)
    shutil.rmtree(fdir, ignore_errors=True)
    return out


MODES["robust"] = mode_robust
MODES["universe"] = mode_universe
MODES["inspect"] = mode_inspect
MODES["charset"] = mode_charset
MODES["dumpvis"] = mode_dumpvis


def mode_visfile(req):
    """C13 on ONE path that is rewritten between the calls (what a user inspecting successive versions of a model file does):
    after every dump the file is audited and visualized through the path (str and Path), with no trusted list and with the
    reported one; the rows must describe the file as it is NOW"""
    import shutil
    import tempfile
    import skops.io as sio
    from values import build
    d = tempfile.mkdtemp(prefix="c13file_")
    p = os.path.join(d, "model.skops")
    out = []
    try:
        for spec in req:
            sio.dump(build(spec), p)
            gut = sio.get_untrusted_types(file=p)
            rec = {"gut": gut, "views": {}}
            for pname, path in (("str", p), ("Path", Path(p))):
                for tname, T in (("none", None), ("reported", gut)):
                    rows = []
                    try:
                        sio.visualize(path, trusted=T, show="all", sink=lambda nodes, show, **kw: rows.extend(nodes))
                        rec["views"][f"{pname}/{tname}"] = {"root_safe": bool(rows[0].is_safe), "n": len(rows),
                                                          "unsafe_vals": sorted({r.val for r in rows if not r.is_self_safe})}
                    except Exception as e:  # noqa
                        rec["views"][f"{pname}/{tname}"] = {"raises": type(e).__name__ + ":" + str(e)[:80]}
            out.append(rec)
    finally:
        shutil.rmtree(d, ignore_errors=True)
    return out


MODES["visfile"] = mode_visfile
MODES["resolve_table"] = mode_resolve_table


if __name__ == "__main__":
    req = json.load(sys.stdin)
    real_stdout = sys.stdout
    sys.stdout = sys.stderr          # nothing the implementation prints may corrupt the JSON reply
    res = MODES[req["mode"]](req["cases"])
    json.dump(res, real_stdout)
