"""Implementation-side runner for the skops.io correspondences.
Reads {"mode":..., "cases":[...]} on stdin, writes a JSON list of canonical outcomes."""
from __future__ import annotations

import io
import json
import sys
import warnings
import zipfile
from pathlib import Path

sys.path.insert(0, str(Path(__file__).resolve().parent))
warnings.simplefilter("ignore")


def probe_zip():
    buf = io.BytesIO()
    with zipfile.ZipFile(buf, "w") as z:
        for n in ("probe.bin", "probe.npy", "probe.npz"):
            z.writestr(n, b"x")
    return zipfile.ZipFile(io.BytesIO(buf.getvalue()))


def mode_dispatch(cases):
    from snapshot import PROBES, class_tag, hdr
    import skops.io  # noqa
    from skops.io import _audit, _utils
    zf = probe_zip()
    out = []
    for loader, proto in cases:
        state = PROBES[loader]() if isinstance(loader, str) and loader in PROBES else hdr("c", "m", loader)
        state["__loader__"] = loader
        try:
            node = _audit.get_tree(state, _utils.LoadContext(src=zf, protocol=proto), trusted=None)
            out.append("ok:" + class_tag(type(node)))
        except TypeError as e:
            out.append("noloader" if "Can't find loader" in str(e) else "error")
        except ImportError:
            # constructor of an optional-dependency loader: dispatch did select it
            out.append("ok:_quantile_forest.QuantileForestNode" if loader == "QuantileForestNode" else "error")
        except Exception:
            out.append("error")
    return out


MODES = {"dispatch": mode_dispatch}

if __name__ == "__main__":
    req = json.load(sys.stdin)
    res = MODES[req["mode"]](req["cases"])
    json.dump(res, sys.stdout)
