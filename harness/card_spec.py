"""Search oracle for C09 / C10 / C14: the properties' observable statements, written from the property
texts as an independent reference (an insertion-ordered tree), and compared with the real Card step by step.
Used only after a theorem or the model correspondence stopped checking (CONVENTIONS, protocol step 4), and by
the finding probes.  Runs inside the implementation subprocess (imports skops via the caller)."""
from __future__ import annotations

from pathlib import Path


def spec_split(key):
    """a path splits on unescaped '/', parts are stripped and '\\/' yields a literal slash"""
    parts, cur, i = [], [], 0
    while i < len(key):
        if key[i] == "\\" and i + 1 < len(key) and key[i + 1] == "/":
            cur.append("/")
            i += 2
        elif key[i] == "/":
            parts.append("".join(cur))
            cur = []
            i += 1
        else:
            cur.append(key[i])
            i += 1
    parts.append("".join(cur))
    return [p.strip() for p in parts]


class Node:
    def __init__(self, title, content="", folded=False, kind="T", extra=None):
        self.title, self.content, self.visible, self.folded = title, content, True, folded
        self.kind, self.extra, self.subs = kind, extra, {}

    def shallow(self):
        return (self.title, self.content, self.visible, self.folded, self.kind, self.extra)


def details(text, folded):
    return f"<details>\n<summary> Click to expand </summary>\n\n{text}\n\n</details>" if folded else text


def real_table(cols):
    from prettytable import PrettyTable, TableStyle
    t = PrettyTable()
    t.set_style(TableStyle.MARKDOWN)
    for name, cells in cols:
        t.add_column(name, [c.replace("\n", "<br />") for c in cells])
    return t.get_string()


def spec_strip_indent(t):
    """every line feed that is directly followed by whitespace disappears together with the whole whitespace run
    behind it (leftmost first); nothing else changes.  Written without `re`."""
    out, i, n = [], 0, len(t)
    while i < n:
        if t[i] == "\n" and i + 1 < n and t[i + 1].isspace():
            i += 1
            while i < n and t[i].isspace():
                i += 1
        else:
            out.append(t[i])
            i += 1
    return "".join(out)


def spec_plot_div(html):
    """the diagram's HTML without its indentation; when the class name occurs exactly once the style attribute follows it.
    Written without str.count / str.replace."""
    t = spec_strip_indent(html)
    parts = t.split("sk-top-container")
    if len(parts) == 2:
        return parts[0] + 'sk-top-container" style="overflow: auto;' + parts[1]
    return t


class Ref:
    """The card as the properties describe it."""

    def __init__(self):
        self.root = {}
        self.metrics = {}

    # -- C09
    def find(self, parts):
        d, node = self.root, None
        for p in parts:
            node = d[p]            # KeyError when missing
            d = node.subs
        return node

    def put(self, parts, node):
        d = self.root
        for p in parts[:-1]:
            if p not in d:
                d[p] = Node(p)     # missing ancestors: empty content, appended
            d = d[p].subs
        old = d.get(parts[-1])
        if old is not None:
            node.subs = old.subs   # keeps its subsections (and, by dict assignment, its position)
        d[parts[-1]] = node

    def names(self, key):
        if not key:
            raise KeyError(key)
        parts = spec_split(key)
        if not all(parts):
            raise KeyError(key)    # an empty name anywhere
        return parts

    def select(self, key):
        return self.find(self.names(key))

    def chain(self, keys):
        parts = []
        for k in keys:
            parts += self.names(k)
        return self.find(parts)

    def delete(self, parts):
        if not parts or not all(parts):
            raise KeyError(parts)
        self.find(parts)
        d = self.root
        for p in parts[:-1]:
            d = d[p].subs
        del d[parts[-1]]

    # -- construction (class docstring of Card: template / model_diagram)
    DEFAULT_HYPER = "Model description/Training Procedure/Hyperparameters"      # as documented, not read from the signatures
    DEFAULT_PLOT = "Model description/Training Procedure/Model Plot"

    def init(self, tspec, dspec, params, html):
        """`template`: "skops" (the only predefined name) prefills the documented default sections, a dict prefills its own
        sections (keys = sections, values = contents), None prefills nothing; any other string is not a template.
        The skops template also gets the hyperparameter table and -- for model_diagram True or "auto" -- the diagram in
        its default section; a string other than "auto" names the section of the diagram for every template;
        False: no diagram; "auto" without the skops template: no diagram.  True without the skops template: the code puts
        the diagram at the default path (its comment announces an error that does not happen; the docstring is silent)."""
        from skops.card._templates import SKOPS_TEMPLATE
        if isinstance(tspec, str) and tspec != "skops":
            raise ValueError(tspec)
        skops = tspec == "skops"
        if skops:
            self.apply(["add", False, [[k, v] for k, v in SKOPS_TEMPLATE.items()]])
            self.apply(["hyper", self.DEFAULT_HYPER, None, params])
        elif tspec is not None:
            items = tspec["map"]
            if any(k in ("self", "folded") for k, _ in items):
                raise TypeError("a section named like a parameter of Card.add cannot be passed as a keyword")
            self.apply(["add", False, items])
        if isinstance(dspec, str) and dspec != "auto":
            self.apply(["modelplot", dspec, None, html])
        elif dspec is True or (skops and dspec == "auto"):
            self.apply(["modelplot", self.DEFAULT_PLOT, None, html])

    def apply(self, op):
        kind = op[0]
        if kind == "init":
            return self.init(op[1], op[2], op[3], op[4])
        if kind == "add":
            for key, val in op[2]:
                self.put(spec_split(key), Node(spec_split(key)[-1], val, folded=op[1]))
        elif kind == "plot":
            for key, path in op[4]:
                if not path:
                    raise TypeError("path")
                title = spec_split(key)[-1]
                self.put(spec_split(key), Node(title, op[1] or "", op[3], "P", (path, op[2] or title)))
        elif kind == "table":
            for key, cols in op[3]:
                if not cols:
                    raise ValueError("no columns")
                self.put(spec_split(key), Node(spec_split(key)[-1], op[1] or "", op[2], "B",
                                               tuple((n, tuple(c)) for n, c in cols)))
        elif kind == "metrics":
            for n, v in op[3]:
                self.metrics[n] = v            # first-seen order, latest value
            cols = (("Metric", tuple(self.metrics)), ("Value", tuple(self.metrics.values())))
            self.put(spec_split(op[1]), Node(spec_split(op[1])[-1], op[2] or "", False, "B", cols))
        elif kind == "hyper":
            cols = (("Hyperparameter", tuple(n for n, _ in op[3])), ("Value", tuple(v for _, v in op[3])))
            self.put(spec_split(op[1]), Node(spec_split(op[1])[-1], op[2] or "", True, "B", cols))
        elif kind == "modelplot":
            # a plain section under the last path part: description (if any), blank line, the diagram
            div = spec_plot_div(op[3])
            self.put(spec_split(op[1]), Node(spec_split(op[1])[-1], f"{op[2]}\n\n{div}" if op[2] else div))
        elif kind == "select":
            return self.select(op[1])
        elif kind == "chain":
            return self.chain(op[1])
        elif kind == "delete":
            self.delete(self.names(op[1]))
        elif kind == "dellist":
            self.delete(list(op[1]))
        elif kind == "vis":
            self.chain(op[1]).visible = op[2]
        elif kind == "fold":
            self.chain(op[1]).folded = op[2]
        elif kind == "title":
            self.chain(op[1]).title = op[2]
        return None

    # -- C10 / C14
    def fmt(self, n):
        if n.kind == "T":
            return details(n.content, n.folded)
        if n.kind == "P":
            path, alt = n.extra
            val = details(f"![{alt or path}]({path})", n.folded)
        else:
            val = details(real_table(n.extra), n.folded)
        return f"{n.content}\n\n{val}" if n.content else val

    def shown(self, d=None, depth=1):
        """visible sections without an invisible or folded ancestor, in tree order, with depth"""
        for n in (self.root if d is None else d).values():
            if not n.visible:
                continue
            yield depth, n
            if not n.folded:
                yield from self.shown(n.subs, depth + 1)

    def render(self):
        out = []
        for depth, n in self.shown():
            out.append("\n" + "#" * depth + " " + n.title + "\n")
            body = self.fmt(n)
            if body:
                out.append("\n" + body + "\n")
        return "".join(out)

    def toc(self):
        return "\n".join("  " * (depth - 1) + "- " + n.title for depth, n in self.shown())

    def dump(self, d=None, pre=()):
        for k, n in (self.root if d is None else d).items():
            yield pre + (k,), n.shallow()
            yield from self.dump(n.subs, pre + (k,))


def impl_shallow(x):
    from skops.card._model_card import PlotSection, TableSection
    if isinstance(x, PlotSection):
        kind, extra = "P", (str(x.path), x.alt_text)
    elif isinstance(x, TableSection):
        kind, extra = "B", tuple((str(n), tuple(str(v) for v in vals)) for n, vals in x.table.items())
    else:
        kind, extra = "T", None
    return (x.title, x.content, x.visible, x.folded, kind, extra)


def impl_dump(data, pre=()):
    for k, x in data.items():
        yield pre + (k,), impl_shallow(x)
        yield from impl_dump(x.subsections, pre + (k,))


def attempt(f):
    try:
        return "ok", f()
    except KeyError:
        return "KeyError", None
    except TypeError:
        return "TypeError", None
    except ValueError:
        return "ValueError", None
    except Exception as e:
        return "other:" + type(e).__name__, None


def check_sequence(ops, construct, apply_op, build=None, model_op=None):
    """Replays ops on a real card and on the reference; returns None or the first step where they differ.
    ops[0] is the init pseudo-operation (impl_card.norm_seq): construct(ops[0]) -> (outcome class, card or None).
    model_op must come from the module whose apply_op is used (it reads the HTML text recorded by that module's wrapper)."""
    from impl_card import path_string
    if model_op is None:
        from impl_card import model_op
    card, ref = None, Ref()
    for i, op in enumerate(ops):
        if op[0] == "init":
            got_cls, card = construct(op)
            got = None
        else:
            got_cls, got = apply_op(card, op)
        mo = model_op(op)            # after the call: a real estimator's HTML is what the implementation received
        want_cls, want = attempt(lambda: ref.apply(mo))
        if got_cls == "sel":
            got_cls = "ok"

        def fail(kind, detail):
            return {"step": i, "kind": kind, "op": op, "detail": detail, "ops": ops[:i + 1]}

        if want_cls != got_cls:
            return fail("outcome", f"implementation {got_cls}, property requires {want_cls}")
        if card is None:
            return None              # the constructor raised as required: there is no card
        if want is not None and got is not None and want.shallow() != impl_shallow(got):
            return fail("select", f"select returned {impl_shallow(got)!r}, last written there: {want.shallow()!r}")
        a, b = list(ref.dump()), list(impl_dump(card._data))
        if a != b:
            d = next((x, y) for x, y in zip(a + [None], b + [None]) if x != y)
            return fail("tree", f"tree differs (paths in order with title/content/flags/kind): required {d[0]!r}, implementation {d[1]!r}")
        if dict(ref.metrics) != {k: str(v) for k, v in card._metrics.items()} or list(ref.metrics) != list(card._metrics):
            return fail("metrics", f"metrics {dict(card._metrics)!r}, required {ref.metrics!r}")
        want_r = attempt(ref.render)
        got_r = attempt(card.render)
        if want_r[0] != got_r[0] and not (want_r[0] != "ok" and got_r[0] != "ok"):
            return fail("render", f"render: implementation {got_r[0]}, reference {want_r[0]}")
        if want_r[0] == "ok":
            if want_r[1] != got_r[1]:
                return fail("render", f"render() = {got_r[1]!r}, required {want_r[1]!r}")
            if ref.toc() != card.get_toc():
                return fail("toc", f"get_toc() = {card.get_toc()!r}, rendered headings give {ref.toc()!r}")
            if build:
                f = Path(build) / "oracle_save.md"
                s = attempt(lambda: card.save(f))
                e = attempt(lambda: got_r[1].encode("utf-8"))
                if e[0] == "ok" and (s[0] != "ok" or f.read_bytes() != e[1]):
                    return fail("save", f"save wrote {f.read_bytes()!r}, render().encode() = {e[1]!r}")
        for p, sh in a:
            # every section must be reachable by the path string that spells its names
            if all(p) and not any(k.endswith("\\") for k in p[:-1]):
                cls, y = attempt(lambda: card.select(path_string(p)))
                if cls != "ok" or impl_shallow(y) != sh:
                    return fail("address", f"select({path_string(p)!r}) -> {cls} {impl_shallow(y) if y is not None else None!r}, section there: {sh!r}")
    return None
