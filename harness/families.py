"""The documented default-trusted families (property C11), as a tagging oracle over resolved objects.
Only names that are default-trusted or come from the enumerated universe are ever resolved; nothing is called."""
from __future__ import annotations

import importlib
import warnings


def resolve(name):
    mod, _, attr = name.rpartition(".")
    if not mod:
        raise ImportError(name)
    with warnings.catch_warnings():
        warnings.simplefilter("ignore")
        m = importlib.import_module(mod)
        return getattr(m, attr)


def family_tag(name: str) -> str:
    import collections
    import numpy as np
    try:
        obj = resolve(name)
    except Exception as e:
        return "unresolvable:" + type(e).__name__
    if isinstance(obj, np.ufunc):
        return "scipy_special_ufunc" if name.startswith("scipy.special") else ("np_ufunc" if name.startswith("numpy") else "other:ufunc")
    if obj in (int, float, str, bool):
        return "builtin_primitive"
    if obj in (list, set, map, tuple, dict, collections.OrderedDict, collections.defaultdict, bytes, bytearray, slice):
        return "builtin_container"
    if isinstance(obj, type):
        if issubclass(obj, np.generic):
            return "np_scalar_type"
        if obj is np.ndarray:
            return "np_array"
        if obj is np.ma.MaskedArray:
            return "np_masked"
        if obj in (np.random.RandomState, np.random.Generator):
            return "np_rng"
        try:
            import scipy.sparse as sp
            if issubclass(obj, (sp.spmatrix, getattr(sp, "sparray", sp.spmatrix))):
                return "scipy_sparse"
        except Exception:
            pass
        from sklearn.tree._tree import Tree
        if obj is Tree:
            return "sk_tree"
        if obj.__module__ in ("sklearn._loss._loss", "sklearn.linear_model._sgd_fast") and (
                obj.__name__.startswith("Cy") or any(b.__name__ in ("LossFunction", "Regression", "Classification") for b in obj.__mro__)):
            return "sk_loss"
        from sklearn.base import BaseEstimator
        if issubclass(obj, BaseEstimator) and name.startswith("sklearn."):
            return "sklearn_estimator_class"
        return "other:class"
    return "other:" + type(obj).__name__
