"""Implementation-side runner for C06 (sharing / identity).  stdin: {"mode":..., "opts":{...}, "cases":[spec,...]}

No source hooks: `get_state` is re-bound in every skops.io module that imported it, and
`SaveContext.clear_memo` is wrapped on the class, from this process.

Per case (mode "graphs"):
  1. build the object graph from the spec (values.py grammar + kept tuples / estimators);
  2. RECORD two dumps with a wrapper that holds every object handed to get_state (call tree,
     returned loader, __id__) and checks, just before clear_memo, that SaveContext.memo holds
     every one of them under its id, by identity (STATE correspondence);
     objects seen in both recordings are the caller's, the others are temporaries of the dumper:
     this yields the heap abstraction that coq/io/Sharing.v runs on;
  3. a PRESSURE dump: the wrapper holds nothing, and churns the allocator before every get_state
     call (lists/tuples/dicts of many sizes, tolist() payloads, views, gc.collect()); it checks at
     return time that the memo pins the value, and that a repeated id is the same object;
  4. load that archive; record two dumps of the LOADED object -> second heap abstraction;
  5. report canonical identity sequences of both graphs, member counts, fingerprints and the
     independent identity_partition of impl_codec.
"""
from __future__ import annotations

import gc
import io
import json
import sys
import warnings
import zipfile
from pathlib import Path

sys.path.insert(0, str(Path(__file__).resolve().parent))
warnings.simplefilter("ignore")

import numpy as np  # noqa: E402

import values as V  # noqa: E402
from absval import fingerprint  # noqa: E402

FUEL = 24          # = Sharing.corr_fuel

KIND = {"DictNode": "PDict", "DefaultDictNode": "PDefaultDict", "ListNode": "PList", "SetNode": "PSet",
        "TupleNode": "PTuple", "BytearrayNode": "PBytearray", "MaskedArrayNode": "PMasked",
        "SparseMatrixNode": "PSparse", "RandomStateNode": "PRng", "RandomGeneratorNode": "PRng",
        "ObjectNode": "PObject", "ConstructorFromReduceNode": "PObject", "TreeNode": "PObject", "LossNode": "PObject"}
SKIP = {"JsonNode", "FunctionNode", "TypeNode", "SliceNode", "BytesNode"}


# ------------------------------------------------------------------ building graphs
def build2(spec, made):
    """values.build, plus: tuples and estimators take part in sharing (["ref", k])."""
    tag = spec[0]

    def B(s):
        return build2(s, made)

    def keep(o):
        made.append(o)
        return o
    if tag == "ref":
        return made[spec[1] % len(made)] if made else None
    if tag == "list":
        return keep([B(x) for x in spec[1]])
    if tag == "tuple":
        return keep(tuple(B(x) for x in spec[1]))
    if tag in ("dict", "odict"):
        import collections
        o = dict() if tag == "dict" else collections.OrderedDict()
        for k, v in spec[1]:
            o[B(k)] = B(v)
        return keep(o)
    if tag == "defaultdict":
        import collections
        o = collections.defaultdict({"list": list, "int": int, "none": None, "dict": dict}[spec[1]])
        for k, v in spec[2]:
            o[B(k)] = B(v)
        return keep(o)
    if tag == "objarray":
        cells = [B(x) for x in spec[2]]
        a = np.empty(len(cells), dtype=object)
        for i, c in enumerate(cells):
            a[i] = c
        return keep(a.reshape(spec[1]))
    if tag == "userobj" and spec[1] == "Plain":
        o = V.Plain()
        for k, v in spec[2]:
            setattr(o, k, B(v))
        return keep(o)
    if tag == "estimator":
        return keep(V.build_estimator(spec[1], spec[2] if len(spec) > 2 else 0, fitted=spec[3] if len(spec) > 3 else True))
    if tag == "pipeline":
        from sklearn.pipeline import Pipeline
        return keep(Pipeline([(f"s{i}", B(s)) for i, s in enumerate(spec[1])]))
    return V.build(spec, made)


# ------------------------------------------------------------------ wrapping get_state
class Call:
    __slots__ = ("obj", "oid", "typ", "kids", "loader", "ntype", "rid")


class Recorder:
    def __init__(self, hold, churn=False):
        self.hold, self.churn = hold, churn
        self.roots, self.flat, self.stack = [], [], []
        self.problems = []
        self.clear_calls = 0
        self.checked_at_clear = 0
        self.seen = {}
        self.n = 0
        self.id_reuse = 0

    # -- allocator pressure: thousands of short-lived objects of many size classes
    def pressure(self):
        n = self.n
        junk = [[i] * ((n * 7 + i) % 11) for i in range(6)]
        junk.append(tuple(range(n % 5 + 1)))
        junk.append({i: str(i) for i in range(n % 7)})
        junk.append([type(k) for k in (1, "a", 2.0)][: n % 4])
        a = np.arange(32 + n % 17)
        junk.append(a.tolist())
        junk.append(a[::2])
        junk.append(a.shape + (n,))
        if n % 97 == 0:
            junk.append(np.arange(20000).tolist())
        del junk, a
        if n % 61 == 0:
            gc.collect()

    def wrapped(self, value, ctx):
        c = Call()
        c.obj = value if self.hold else None
        c.oid, c.typ, c.kids = id(value), type(value), []
        c.rid = c.loader = c.ntype = None
        (self.stack[-1].kids if self.stack else self.roots).append(c)
        self.flat.append(c)
        self.stack.append(c)
        self.n += 1
        if not self.hold:
            prev = self.seen.get(c.oid)
            if prev is not None and ctx.memo.get(c.oid) is not value:
                self.id_reuse += 1
                self.problems.append(["id-reused", f"id {c.oid} was given to a {prev.__name__} earlier in this dump and now to a different "
                                                   f"{c.typ.__name__} object (the memo does not hold it)"])
            self.seen[c.oid] = c.typ
        if self.churn:
            self.pressure()
        try:
            res = self.orig(value, ctx)
        finally:
            self.stack.pop()
        if ctx.memo.get(id(value)) is not value:
            self.problems.append(["memo-does-not-pin", f"after get_state({c.typ.__name__}) returned, SaveContext.memo[id(value)] is not the value"])
        c.rid = res.get("__id__")
        if c.rid != id(value):
            self.problems.append(["wrong-id", f"__id__ {c.rid} != id(value) for a {c.typ.__name__}"])
        c.loader, c.ntype = res.get("__loader__"), res.get("type")
        if self.churn:
            self.pressure()
        return res

    def at_clear(self, ctx):
        self.clear_calls += 1
        bad = 0
        for c in self.flat:
            if self.hold:
                if ctx.memo.get(c.oid) is not c.obj:
                    bad += 1
            elif c.oid not in ctx.memo or type(ctx.memo[c.oid]) is not c.typ:
                bad += 1
        self.checked_at_clear = len(self.flat)
        if bad:
            self.problems.append(["memo-does-not-pin", f"just before clear_memo, SaveContext.memo does not hold {bad} of the {len(self.flat)} objects "
                                                       "that were handed to get_state"])
        if self.hold:
            by_id = {}
            for c in self.flat:
                if c.rid is not None and by_id.setdefault(c.rid, c.obj) is not c.obj:
                    self.problems.append(["ids-not-injective", f"two different objects received __id__ {c.rid}"])
                    break


def run_dump(sio, obj, hold, churn=False):
    """one dumps() under a Recorder; returns (recorder, bytes or exception)"""
    import skops.io._utils as U
    rec = Recorder(hold, churn)
    rec.orig = U.get_state
    patched = []
    for name, mod in list(sys.modules.items()):
        if name.startswith("skops.io") and mod is not None and getattr(mod, "get_state", None) is rec.orig:
            setattr(mod, "get_state", rec.wrapped)
            patched.append(mod)
    orig_clear = U.SaveContext.clear_memo

    def clear(ctx):
        rec.at_clear(ctx)
        return orig_clear(ctx)
    U.SaveContext.clear_memo = clear
    try:
        try:
            data = sio.dumps(obj)
        except Exception as e:  # noqa
            data = e
    finally:
        for mod in patched:
            setattr(mod, "get_state", rec.orig)
        U.SaveContext.clear_memo = orig_clear
    if not isinstance(data, Exception):
        if rec.clear_calls != 1:
            rec.problems.append(["clear-memo-calls", f"clear_memo was called {rec.clear_calls} times during one dump"])
        elif rec.checked_at_clear != len(rec.flat):
            rec.problems.append(["clear-memo-early", f"clear_memo ran after {rec.checked_at_clear} of {len(rec.flat)} get_state calls"])
    return rec, data


# ------------------------------------------------------------------ heap abstraction from two recordings
def kind_of(c):
    if c.loader == "NdArrayNode":
        return "PArray" if c.ntype == "numpy" else "PObjArray"
    return KIND.get(c.loader, "POther")


def abstract(rec1, rec2):
    """heap = [[kind, kids]], kid = ["o", idx] | ["t", kind, kids]; object 0 is the root.
    An object handed to get_state in both dumps is the caller's; otherwise it is a temporary."""
    both = {c.oid for c in rec2.flat}
    index, heap, unstable = {}, [], []

    def ref(c):
        if c.loader in SKIP:
            return None
        if c.oid in both:
            if c.oid not in index:
                index[c.oid] = len(heap)
                heap.append(None)
                heap[index[c.oid]] = [kind_of(c), kids(c)]
            else:
                k = kids(c)
                if heap[index[c.oid]] is not None and shape(k) != shape(heap[index[c.oid]][1]):
                    unstable.append(c.typ.__name__)
            return ["o", index[c.oid]]
        return ["t", kind_of(c), kids(c)]

    def kids(c):
        return [r for r in (ref(k) for k in c.kids) if r is not None]

    def shape(ks):
        return [(k[0], k[1]) if k[0] == "o" else ("t", k[1], shape(k[2])) for k in ks]
    root = ref(rec1.roots[0])
    return heap, root, unstable


def hunfold(fuel, heap, r, out):
    if fuel == 0 or len(out) > 6000:
        return
    out.append(r[1] if r[0] == "o" else None)
    for k in (heap[r[1]][1] if r[0] == "o" else r[2]):
        hunfold(fuel - 1, heap, k, out)


def depth(heap, r, memo):
    if r[0] == "o":
        if r[1] in memo:
            return memo[r[1]]
        memo[r[1]] = 10 ** 6      # cycle guard
        d = 1 + max([depth(heap, k, memo) for k in heap[r[1]][1]] or [0])
        memo[r[1]] = d
        return d
    return 1 + max([depth(heap, k, memo) for k in r[2]] or [0])


def renum(seq):
    seen = {}
    return [seen.setdefault(a, len(seen)) for a in seq]


def canon_seq(heap, root):
    out = []
    hunfold(FUEL, heap, root, out)
    return renum([a for a in out if a is not None]), len(out)


def id_members(names):
    return [n for n in names if n.endswith((".npy", ".npz")) and n.rsplit(".", 1)[0].isdigit()]


def one_graph(sio, spec, opts):
    from impl_codec import identity_partition
    rec = {}
    try:
        obj = build2(spec, [])
    except Exception as e:
        return {"build": "err:" + type(e).__name__ + ":" + str(e)[:100]}
    rec["build"] = "ok"
    fp0 = fingerprint(obj)
    # -- 2. recordings of the original (STATE correspondence inside)
    r1, d1 = run_dump(sio, obj, hold=True)
    if isinstance(d1, Exception):
        rec["dump"] = "raises:" + type(d1).__name__ + ":" + str(d1)[:100]
        return rec
    r2, d2 = run_dump(sio, obj, hold=True)
    rec["dump"] = "ok"
    rec["state_problems"] = r1.problems + r2.problems
    rec["calls"] = len(r1.flat)
    heap, root, unstable = abstract(r1, r2)
    rec["unstable"] = unstable
    rec["heap"], rec["root"] = heap, root
    rec["depth"] = depth(heap, root, {}) if root else 0
    seq0, n0 = canon_seq(heap, root)
    rec["seq0"], rec["unfold_len"] = seq0, n0
    ids2 = {x.oid for x in r2.flat}
    rec["n_tmp"] = sum(1 for c in r1.flat if c.oid not in ids2)
    arrays = {c.oid for c in r1.flat if kind_of(c) in ("PArray", "PSparse")}
    rec["arraylike_objects"] = len(arrays)
    orig_arrays = {c.oid: c.typ.__name__ for c in r1.flat if kind_of(c) in ("PArray", "PSparse") and c.oid in ids2}
    with zipfile.ZipFile(io.BytesIO(d1)) as z:
        names1 = z.namelist()
    rec["members_recorded"] = len(id_members(names1))
    rec["missing_member_for"] = sorted({t for o, t in orig_arrays.items()
                                        if f"{o}.npy" not in names1 and f"{o}.npz" not in names1})
    # how often is an array object of the caller written? (masked arrays hand out fresh views)
    multi = {}
    for c in r1.flat:
        if c.loader == "MaskedArrayNode" and c.oid in ids2:
            multi[c.oid] = multi.get(c.oid, 0) + 1
    rec["masked_visits"] = sorted(multi.values(), reverse=True)[:3]
    del r2
    # -- 3. the pressure dump (nothing held by the harness)
    keep_ids = None
    r3, data = run_dump(sio, obj, hold=False, churn=opts.get("churn", True))
    if isinstance(data, Exception):
        rec["dump"] = "raises-under-pressure:" + type(data).__name__ + ":" + str(data)[:100]
        return rec
    rec["pressure_problems"] = r3.problems[:5]
    rec["pressure_calls"] = r3.n
    with zipfile.ZipFile(io.BytesIO(data)) as z:
        names = z.namelist()
        schema = json.loads(z.read("schema.json"))
    rec["members"] = len(id_members(names))
    rec["size"] = len(data)
    ids = []

    def walk(j):
        if isinstance(j, dict):
            if "__id__" in j:
                ids.append(j["__id__"])
            for v in j.values():
                walk(v)
        elif isinstance(j, list):
            for v in j:
                walk(v)
    walk(schema)
    rec["schema_nodes"] = len(ids)
    del r1, keep_ids
    # -- 4. load
    try:
        gut = sio.get_untrusted_types(data=data)
        obj2 = sio.loads(data, trusted=gut)
    except BaseException as e:  # noqa
        rec["load"] = "raises:" + type(e).__name__ + ":" + str(e)[:160]
        return rec
    rec["load"] = "ok"
    # -- 5. abstraction of the loaded graph (before anything else looks at it: hasattr(x, '__dict__') alone
    #       materialises the namespace dict of a functools.partial and changes its __reduce__)
    q1, e1 = run_dump(sio, obj2, hold=True)
    q2, e2 = run_dump(sio, obj2, hold=True)
    if isinstance(e1, Exception) or isinstance(e2, Exception):
        rec["redump"] = "raises:" + type(e1).__name__
    else:
        heap2, root2, _ = abstract(q1, q2)
        rec["seq2"], _ = canon_seq(heap2, root2)
        rec["kinds2"] = [h[0] for h in heap2] == [h[0] for h in heap] if len(heap2) == len(heap) else False
        with zipfile.ZipFile(io.BytesIO(e1)) as z:
            rec["members_reloaded"] = len(id_members(z.namelist()))
    del q1, q2
    # -- 6. contents and the independent identity partition
    fp2 = fingerprint(obj2)
    rec["same"] = fp2 == fp0
    if not rec["same"]:
        rec["fp0"], rec["fp2"] = fp0[:600], fp2[:600]
    p0, p2 = identity_partition(obj), identity_partition(obj2)
    rec["part_same"] = p0 == p2
    if not rec["part_same"]:
        rec["part0"], rec["part2"] = p0[:40], p2[:40]
    rec["groups"] = len(p0)
    rec["shared_groups"] = sum(1 for g in p0 if len(g) > 1)
    return rec


def mode_graphs(req):
    import skops.io as sio
    opts = req.get("opts", {})
    return [one_graph(sio, spec, opts) for spec in req["cases"]]


def ladder(n):
    cur = []
    for _ in range(n):
        cur = [cur, cur]
    return cur


def mode_ladder(req):
    """D11: size of the archive / time of the audit for n doubly-referenced lists"""
    import time

    import skops.io as sio
    out = []
    for n in req["ns"]:
        t0 = time.perf_counter()
        data = sio.dumps(ladder(n))
        t1 = time.perf_counter()
        with zipfile.ZipFile(io.BytesIO(data)) as z:
            sch = z.read("schema.json")
        nodes = sch.count(b'"__id__"')
        t2 = time.perf_counter()
        sio.get_untrusted_types(data=data)
        t3 = time.perf_counter()
        obj2 = sio.loads(data, trusted=[])
        # the loaded ladder is still a ladder: both references of every rung are one object
        ok, cur = True, obj2
        for _ in range(n):
            ok = ok and len(cur) == 2 and cur[0] is cur[1]
            cur = cur[0]
        out.append({"n": n, "schema_bytes": len(sch), "nodes": nodes, "dump_s": round(t1 - t0, 4),
                    "audit_s": round(t3 - t2, 4), "loaded_is_ladder": ok and cur == []})
    return out


def mode_probe(req):
    """fixed witnesses of recorded findings"""
    import skops.io as sio
    res = {}
    m = np.ma.MaskedArray(np.arange(4.0), mask=[0, 1, 0, 1])
    data = sio.dumps([m, m])
    with zipfile.ZipFile(io.BytesIO(data)) as z:
        res["masked_twice_members"] = len(id_members(z.namelist()))
    data1 = sio.dumps([m])
    with zipfile.ZipFile(io.BytesIO(data1)) as z:
        res["masked_once_members"] = len(id_members(z.namelist()))
    back = sio.loads(data, trusted=[])
    res["masked_twice_loaded_shared"] = back[0] is back[1]
    a = np.arange(3.0)
    with zipfile.ZipFile(io.BytesIO(sio.dumps([a, a, (a,), {"k": a}]))) as z:
        res["array_four_refs_members"] = len(id_members(z.namelist()))
    # an id the LOADER makes up must never be confused with a saved id (D34, repaired): ids are addresses, so a saved
    # __id__ may equal the address of anything that is alive in the loading process -- here the class / the objects a
    # reduce-style node names its constructor with
    res["load_time_id_collisions"] = []
    try:
        from sklearn.tree import DecisionTreeClassifier
        from sklearn.tree._tree import Tree
        import skops.io._sklearn as SK
        t = DecisionTreeClassifier(max_depth=2, random_state=0).fit(np.arange(12.0).reshape(6, 2), [0, 1, 0, 1, 0, 1]).tree_
        data = sio.dumps([t, "after", 7])
        with zipfile.ZipFile(io.BytesIO(data)) as z:
            members = {n: z.read(n) for n in z.namelist() if n != "schema.json"}
            schema = json.loads(z.read("schema.json"))
        candidates = {"id(Tree)": id(Tree), "id(ALLOWED_LOSSES)": id(getattr(SK, "ALLOWED_LOSSES", None)), "id(TreeNode)": id(SK.TreeNode),
                      "id(ReduceNode)": id(SK.ReduceNode)}
        for label, ident in candidates.items():
            sch = json.loads(json.dumps(schema))
            sch["content"][1]["__id__"] = ident
            buf = io.BytesIO()
            with zipfile.ZipFile(buf, "w") as z:
                z.writestr("schema.json", json.dumps(sch))
                for k, v in members.items():
                    z.writestr(k, v)
            back = sio.loads(buf.getvalue(), trusted=[])
            if not (type(back[0]).__name__ == "Tree" and back[1] == "after" and back[2] == 7):
                res["load_time_id_collisions"].append([label, repr(back[1])[:80]])
    except ImportError:
        res["load_time_id_collisions"] = None
    return res


MODES = {"graphs": mode_graphs, "ladder": mode_ladder, "probe": mode_probe}

if __name__ == "__main__":
    req = json.load(sys.stdin)
    real_stdout = sys.stdout
    sys.stdout = sys.stderr
    res = MODES[req["mode"]](req)
    json.dump(res, real_stdout, default=str)
