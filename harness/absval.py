"""abs(): the observation of a Python value that 'same types, structure and values' refers to.

A JSON-able nested structure: every object becomes [type-name, payload]; sharing among mutable
objects is recorded by first-occurrence index ('ref' nodes); floats are compared through
float.hex(); arrays through dtype/shape/order-flags/bytes; sets are sorted by their abstracted
elements; user objects through __getstate__/__dict__/__slots__.
It never calls anything on the value beyond type(), attribute reads and the numpy/scipy accessors.
"""
from __future__ import annotations

import collections
import json
import types

import numpy as np

try:
    import scipy.sparse as sp
except Exception:  # pragma: no cover
    sp = None


# optional extra observers (harness/pval_emit.py installs one for the codec correspondences); empty = unchanged behaviour
EXT_HOOKS = []


def tname(t):
    return f"{getattr(t, '__module__', '?')}.{getattr(t, '__qualname__', getattr(t, '__name__', '?'))}"


def abs_value(v, memo=None, depth=0):
    if memo is None:
        memo = {}
    if depth > 200:
        return ["<too-deep>"]
    for hook in EXT_HOOKS:
        r = hook(v, memo, depth)
        if r is not None:
            return r
    t = type(v)
    if v is None or t is bool or t is int or t is str:
        return [tname(t), v if t is not int or abs(v) < 1 << 62 else str(v)]
    if t is float:
        return ["builtins.float", v.hex()]
    if t is complex:
        return ["builtins.complex", v.real.hex(), v.imag.hex()]
    if isinstance(v, bytes):
        # bytes and its subclasses (numpy.bytes_ too): class and content
        return [tname(t), bytes(v).hex()]
    if isinstance(v, np.generic):
        return [tname(t), v.dtype.str, _raw_bytes(v).hex()]
    if isinstance(v, type):
        return ["type", tname(v)]
    if isinstance(v, (types.FunctionType, types.BuiltinFunctionType, np.ufunc)):
        return ["callable", getattr(v, "__module__", None) or "", getattr(v, "__name__", "?")]
    if isinstance(v, types.MethodType):
        return ["method", v.__func__.__name__, abs_value(v.__self__, memo, depth + 1)]
    if isinstance(v, np.dtype):
        return ["numpy.dtype", v.str, str(v.descr) if v.names else ""]
    # ---- objects with identity
    key = id(v)
    if key in memo:
        return ["ref", memo[key][0]]
    # keep v alive while abstracting: ids of dead temporaries (get_state() dicts, tocoo() copies) get re-used
    memo[key] = (len(memo), v)
    me = memo[key][0]
    if isinstance(v, np.ma.MaskedArray):
        # fill_value and hardmask are part of the value (filled(), assignment to masked cells); appended after data and mask so that
        # consumers reading only [1] and [2] (the Coq model has no notion of them) are unaffected
        fv = v.fill_value
        return ["obj", me, tname(t), ["masked", abs_value(np.asarray(v.data), memo, depth + 1), abs_value(np.asarray(np.ma.getmaskarray(v)), memo, depth + 1),
                                      repr(fv.tolist()) if hasattr(fv, "tolist") else repr(fv), bool(v.hardmask)]]
    if isinstance(v, np.ndarray):
        if v.dtype == object:
            return ["obj", me, tname(t), ["objarray", list(v.shape), [abs_value(x, memo, depth + 1) for x in v.ravel(order="C").tolist()]]]
        order = "F" if (v.flags.f_contiguous and not v.flags.c_contiguous) else "C"
        if v.dtype.names:
            # structured arrays (sklearn Tree nodes): alignment padding is uninitialised memory, compare the fields only
            raw = b"".join(np.ascontiguousarray(v[n]).tobytes() for n in v.dtype.names)
        else:
            raw = _raw_bytes(v)
        return ["obj", me, tname(t), ["array", v.dtype.str, str(v.dtype.descr) if v.dtype.names else "", list(v.shape), order,
                                      raw.hex() if v.size < 4096 else hash(raw)]]
    if sp is not None and sp.issparse(v):
        c = v.tocoo()
        # the stored structure too (duplicates, index order): a matrix must not be canonicalised behind the caller's back
        if v.format in ("csr", "csc", "bsr"):
            raw = [v.indptr.tolist(), v.indices.tolist(), np.asarray(v.data).tobytes().hex() if v.data.size < 2048 else hash(np.asarray(v.data).tobytes())]
        elif v.format == "coo":
            raw = [v.row.tolist(), v.col.tolist(), v.data.tobytes().hex() if v.data.size < 2048 else hash(v.data.tobytes())]
        else:
            raw = None
        return ["obj", me, tname(t), ["sparse", v.format, list(v.shape), v.dtype.str,
                                      sorted(zip(c.row.tolist(), c.col.tolist(), [abs_value(x)[-1] for x in c.data])), raw]]
    if isinstance(v, np.random.RandomState):
        st = v.get_state(legacy=False)
        return ["obj", me, tname(t), ["rng", abs_value(st, memo, depth + 1)]]
    if isinstance(v, np.random.Generator):
        ss = getattr(v.bit_generator, "seed_seq", None)
        ss_state = abs_value(ss.state, memo, depth + 1) if GENERATOR_SEED_SEQ and ss is not None and hasattr(ss, "state") else None
        return ["obj", me, tname(t), ["rng", type(v.bit_generator).__name__, abs_value(v.bit_generator.state, memo, depth + 1), ss_state]]
    if isinstance(v, bytearray):
        return ["obj", me, tname(t), bytes(v).hex()]
    if isinstance(v, (list, tuple, collections.deque)):
        payload = [abs_value(x, memo, depth + 1) for x in v]
        extra = abs_obj_state(v, memo, depth) if t not in (list, tuple) else None
        return ["obj", me, tname(t), ["seq", payload, extra]]
    if isinstance(v, (set, frozenset)):
        # iteration order of a set of objects hashed by address differs from run to run, and the identity numbers handed
        # out while abstracting follow the visiting order: visit the elements in an order that does not depend on addresses
        # (their abstraction under a throw-away memo), then abstract them for real in that order
        def provisional(x):
            return json.dumps(abs_value(x, {}, depth + 1), sort_keys=True, default=str)
        elems = sorted(v, key=provisional)
        payload = sorted((abs_value(x, memo, depth + 1) for x in elems), key=lambda a: json.dumps(a, sort_keys=True, default=str))
        return ["obj", me, tname(t), ["set", payload]]
    if isinstance(v, dict):
        payload = [[abs_value(k, memo, depth + 1), abs_value(x, memo, depth + 1)] for k, x in v.items()]
        extra = None
        if isinstance(v, collections.defaultdict):
            extra = abs_value(v.default_factory, memo, depth + 1)
        elif t not in (dict, collections.OrderedDict):
            extra = abs_obj_state(v, memo, depth)
        return ["obj", me, tname(t), ["dict", payload, extra]]
    if t is slice:
        return ["obj", me, "builtins.slice", [abs_value(v.start, memo, depth + 1), abs_value(v.stop, memo, depth + 1), abs_value(v.step, memo, depth + 1)]]
    import functools
    import operator
    if isinstance(v, functools.partial):
        return ["obj", me, tname(t), ["partial", abs_value(v.func, memo, depth + 1), abs_value(v.args, memo, depth + 1),
                                      abs_value(v.keywords, memo, depth + 1)]]
    if isinstance(v, (operator.attrgetter, operator.itemgetter, operator.methodcaller)):
        return ["obj", me, tname(t), ["opfunc", abs_value(v.__reduce__()[1], memo, depth + 1)]]
    return ["obj", me, tname(t), ["state", abs_obj_state(v, memo, depth)]]


def abs_obj_state(v, memo, depth):
    st = None
    try:
        if hasattr(v, "__getstate__"):
            st = v.__getstate__()
        elif hasattr(v, "__dict__"):
            st = v.__dict__
    except Exception as e:
        return ["<getstate raised>", type(e).__name__]
    if st is None and hasattr(v, "__dict__"):
        st = v.__dict__
    if st is None:
        try:
            r = v.__reduce_ex__(2)
            return ["reduce", abs_value(r[1][1:] if len(r) > 1 else None, memo, depth + 1)]
        except Exception:
            return None
    return abs_value(st, memo, depth + 1)


# The protocol-0/1 RandomGeneratorNode layouts never stored the seed sequence: comparisons of values that went
# through those layouts (C08 old-layout correspondence) switch this off for BOTH sides.
GENERATOR_SEED_SEQ = True


def _raw_bytes(a):
    """the bytes of a contiguous array / numpy scalar that carry VALUE: x87 long doubles occupy 16 bytes of which only the
    first 10 are the number, the rest is uninitialised padding (it differs between two copies of the same value)"""
    a = np.ascontiguousarray(a)
    b = a.tobytes()
    if a.dtype.kind in "fc" and a.dtype.itemsize in (16, 32) and np.finfo(np.longdouble).nmant == 63 and a.dtype.char in "gG":
        return b"".join(b[i:i + 10] for i in range(0, len(b), 16))
    return b


def fingerprint(v):
    try:
        return json.dumps(abs_value(v), sort_keys=True, default=str)
    except RecursionError:
        return "<recursion>"
    except Exception as e:  # the value's own accessors raised
        return f"<abs failed: {type(e).__name__}>"
