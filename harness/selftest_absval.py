"""The comparator `abs` (harness/absval.py) decides what "same value" means, so it is itself tested:
every perturbation class below must change the fingerprint, and equal rebuilt values must not.
Run by the codec checks before they trust any 'same' verdict.  Exit 0 = ok; prints failures otherwise."""
import collections
import copy
import sys
from pathlib import Path

sys.path.insert(0, str(Path(__file__).resolve().parent))
import numpy as np  # noqa: E402
import scipy.sparse as sp  # noqa: E402

from absval import fingerprint  # noqa: E402


def pairs():
    a = np.arange(6, dtype="<f8").reshape(2, 3)
    shared = [1, 2]
    yield "dtype", a, a.astype("<f4")
    yield "byte order", a, a.astype(">f8")
    yield "shape", a, a.reshape(3, 2)
    yield "memory order", a, np.asfortranarray(a)
    yield "content", a, a + 1
    yield "neg zero", np.array([0.0]), np.array([-0.0])
    yield "nan vs number", np.array([np.nan]), np.array([1.0])
    yield "float -0.0 scalar", 0.0, -0.0
    yield "int vs float", 1, 1.0
    yield "bool vs int", True, 1
    yield "np scalar vs python", np.float64(1.5), 1.5
    yield "np scalar dtype", np.int32(1), np.int64(1)
    yield "np scalar type behind one descr", np.longlong(1), np.int64(1)
    yield "long double value", np.longdouble(1) / 3, np.longdouble(np.float64(1) / 3)
    yield "long double array value", np.array([1, 2], dtype="g") / 3, np.array([1, 2], dtype="g") / 5
    yield "list vs tuple", [1, 2], (1, 2)
    yield "set vs frozenset", {1}, frozenset({1})
    yield "dict key order", {"a": 1, "b": 2}, {"b": 2, "a": 1}
    yield "dict key type", {1: "x"}, {"1": "x"}
    yield "dict vs OrderedDict", {"a": 1}, collections.OrderedDict(a=1)
    yield "defaultdict factory", collections.defaultdict(list, a=1), collections.defaultdict(int, a=1)
    yield "sharing vs copy", [shared, shared], [shared, list(shared)]
    yield "bytes vs bytearray", b"ab", bytearray(b"ab")
    yield "bytes vs numpy.bytes_", b"ab", np.bytes_(b"ab")
    yield "bytes subclass content", np.bytes_(b"ab"), np.bytes_(b"ac")
    yield "str content", "a\x00b", "a b"
    yield "slice", slice(1, 2), slice(1, 2, 1)
    yield "masked mask", np.ma.MaskedArray([1, 2], [True, False]), np.ma.MaskedArray([1, 2], [False, False])
    yield "masked fill_value", np.ma.MaskedArray([1., 2.], [True, False], fill_value=-1.0), np.ma.MaskedArray([1., 2.], [True, False])
    yield "masked hard mask", np.ma.MaskedArray([1, 2], [True, False], hard_mask=True), np.ma.MaskedArray([1, 2], [True, False])
    yield "sparse format", sp.csr_matrix(np.eye(2)), sp.csc_matrix(np.eye(2))
    yield "sparse matrix vs array", sp.csr_matrix(np.eye(2)), sp.csr_array(np.eye(2))
    yield "sparse content", sp.csr_matrix(np.eye(2)), sp.csr_matrix(2 * np.eye(2))
    r1, r2 = np.random.RandomState(1), np.random.RandomState(1)
    r2.normal()
    yield "RandomState cached gaussian", r1, r2
    yield "Generator bit generator", np.random.Generator(np.random.PCG64(1)), np.random.Generator(np.random.Philox(1))
    g1, g2 = np.random.Generator(np.random.PCG64(1)), np.random.Generator(np.random.PCG64(1))
    g2.random()
    yield "Generator position", g1, g2
    yield "dtype object", np.dtype("<f8"), np.dtype("<f4")
    yield "object array cell", np.array([1, "a", None], dtype=object), np.array([1, "a", 0], dtype=object)
    yield "object array shape", np.array([1, 2, 3, 4], dtype=object), np.array([1, 2, 3, 4], dtype=object).reshape(2, 2)
    yield "ufunc", np.sqrt, np.add
    yield "type", int, float


def same_pairs():
    yield "rebuilt array", np.arange(6.0).reshape(2, 3), np.arange(6.0).reshape(2, 3)
    yield "rebuilt nested", {"a": [1, (2, 3)], 2: {4.5}}, {"a": [1, (2, 3)], 2: {4.5}}
    yield "nan array", np.array([np.nan, 1.0]), np.array([np.nan, 1.0])
    yield "deepcopy RandomState", np.random.RandomState(3), copy.deepcopy(np.random.RandomState(3))
    yield "set order", {3, 1, 2}, {1, 2, 3}
    yield "sparse rebuilt", sp.csr_matrix(np.eye(3)), sp.csr_matrix(np.eye(3))
    # x87 padding bytes are not part of the value: a copy made through bytes with other padding is the same number
    ld = np.array([1, 2, 3], dtype="g") / 3
    raw = bytearray(ld.tobytes())
    for i in range(0, len(raw), 16):
        raw[i + 10:i + 16] = b"\xAA" * 6
    yield "long double padding", ld, np.frombuffer(bytes(raw), dtype="g").copy()
    yield "long double scalar padding", ld[0], np.frombuffer(bytes(raw), dtype="g")[0]


def main():
    bad = []
    for name, x, y in pairs():
        if fingerprint(x) == fingerprint(y):
            bad.append("NOT DISTINGUISHED: " + name)
    for name, x, y in same_pairs():
        if fingerprint(x) != fingerprint(y):
            bad.append("EQUAL VALUES DIFFER: " + name)
    for b in bad:
        print(b)
    print(f"absval self-test: {sum(1 for _ in pairs())} perturbation classes, {sum(1 for _ in same_pairs())} equal pairs, {len(bad)} failures")
    return 1 if bad else 0


if __name__ == "__main__":
    sys.exit(main())
