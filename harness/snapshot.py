"""Snapshot translator: re-extract from the live /repo code every table the
theorems speak about, and emit them as Coq definitions (Snapshot.v).

Fail-closed: anything it cannot map aborts with a non-zero exit status, which
the check treats as a broken proof obligation.
usage: snapshot.py OUT.v OUT.json
"""
from __future__ import annotations

import ast
import io
import json
import os
import sys
import warnings
import zipfile
from pathlib import Path

sys.path.insert(0, str(Path(__file__).resolve().parent))
from common import REPO, cbool, clist, cstr, cz  # noqa: E402

warnings.simplefilter("ignore")

CANARY = "verif_canary_pkg.Probe"


def abort(msg):
    print("SNAPSHOT-ABORT: " + msg, file=sys.stderr)
    sys.exit(3)


def class_tag(cls):
    m = cls.__module__
    if m.startswith("skops.io."):
        m = m[len("skops.io."):]
    return f"{m}.{cls.__qualname__}"


# minimal well-formed probe state per loader: (state, name of a child slot holding a DictNode/ListNode or None)
def J(v):
    return {"__class__": "str", "__module__": "builtins", "__loader__": "JsonNode", "content": json.dumps(v), "is_json": True}


def L(items=()):
    return {"__class__": "list", "__module__": "builtins", "__loader__": "ListNode", "content": list(items)}


def T(items=()):
    return {"__class__": "tuple", "__module__": "builtins", "__loader__": "TupleNode", "content": list(items)}


def D():
    return {"__class__": "dict", "__module__": "builtins", "__loader__": "DictNode", "content": {}, "key_types": L()}


def hdr(c, m, loader, **kw):
    d = {"__class__": c, "__module__": m, "__loader__": loader}
    d.update(kw)
    return d


PROBES = {
    "DictNode": lambda: hdr("dict", "builtins", "DictNode", content={"a": L()}, key_types=L()),
    "DefaultDictNode": lambda: hdr("defaultdict", "collections", "DefaultDictNode", content={"main": D(), "default_factory": J(None)}),
    "ListNode": lambda: L([L()]),
    "SetNode": lambda: hdr("set", "builtins", "SetNode", content=[L()]),
    "TupleNode": lambda: T([L()]),
    "BytesNode": lambda: hdr("bytes", "builtins", "BytesNode", file="probe.bin"),
    "BytearrayNode": lambda: hdr("bytearray", "builtins", "BytearrayNode", file="probe.bin"),
    "SliceNode": lambda: hdr("slice", "builtins", "SliceNode", content={"start": None, "stop": None, "step": None}),
    "FunctionNode": lambda: hdr("f", "m", "FunctionNode", content={"module_path": "m", "function": "f"}),
    "MethodNode": lambda: hdr("method", "builtins", "MethodNode", content={"func": "f", "obj": L()}),
    "PartialNode": lambda: hdr("partial", "functools", "PartialNode", content={"func": L(), "args": T(), "kwds": D(), "namespace": D()}),
    "TypeNode": lambda: hdr("int", "builtins", "TypeNode"),
    "ConstructorFromReduceNode": lambda: hdr("c", "m", "ConstructorFromReduceNode", content=L()),
    "ObjectNode": lambda: hdr("c", "m", "ObjectNode", content=L()),
    "JsonNode": lambda: J(1),
    "OperatorFuncNode": lambda: hdr("attrgetter", "operator", "OperatorFuncNode", attrs=L()),
    "NdArrayNode": lambda: hdr("ndarray", "numpy", "NdArrayNode", type="json", content=[L()], shape=T()),
    "MaskedArrayNode": lambda: hdr("MaskedArray", "numpy.ma.core", "MaskedArrayNode", content={"data": L(), "mask": L()}),
    "DTypeNode": lambda: hdr("dtype", "numpy", "DTypeNode", content=L()),
    "RandomStateNode": lambda: hdr("RandomState", "numpy.random.mtrand", "RandomStateNode", content=L()),
    "RandomGeneratorNode": lambda: hdr("Generator", "numpy.random._generator", "RandomGeneratorNode", content={"bit_generator": L(), "seed_seq": L()}),
    "SparseMatrixNode": lambda: hdr("csr_matrix", "scipy.sparse._csr", "SparseMatrixNode", type="scipy", file="probe.npz"),
    "TreeNode": lambda: hdr("Tree", "sklearn.tree._tree", "TreeNode", content=L(), **{"__reduce__": {"args": L()}}),
    "LossNode": lambda: hdr("Hinge", "sklearn.linear_model._sgd_fast", "LossNode", content=L(), **{"__reduce__": {"args": L()}}),
    "QuantileForestNode": lambda: hdr("QuantileForest", "quantile_forest._quantile_forest_fast", "QuantileForestNode", content=L(), **{"__reduce__": {"args": L()}}),
    "_DictWithDeprecatedKeysNode": lambda: hdr("_DictWithDeprecatedKeys", "sklearn.covariance._graph_lasso", "_DictWithDeprecatedKeysNode", content={"main": D(), "_deprecated_key_to_new_key": D()}),
    "CachedNode": lambda: hdr("c", "m", "CachedNode"),
}


def first_list_child(node, ListNode):
    """A ListNode built by the probed constructor from one of our L() probe states."""
    def walk(ch):
        if isinstance(ch, ListNode):
            yield ch
        elif isinstance(ch, list):
            for x in ch:
                yield from walk(x)
        elif isinstance(ch, dict):
            for x in ch.values():
                yield from walk(x)
    for ch in node.children.values():
        for x in walk(ch):
            return x
    return None


MUT={"append","extend","update","setdefault","add","clear","pop","popitem","remove","insert","discard","register","sort","reverse","__setitem__","appendleft"}
CACHE={"lru_cache","cache","cached_property","singledispatch"}
def scan_global_writes(f):
    tree=ast.parse(f.read_text())
    modnames=set()
    for n in tree.body:
        if isinstance(n,(ast.Assign,ast.AnnAssign,ast.AugAssign)):
            for t in (n.targets if isinstance(n,ast.Assign) else [n.target]):
                for x in ast.walk(t):
                    if isinstance(x,ast.Name): modnames.add(x.id)
        elif isinstance(n,(ast.Import,ast.ImportFrom)):
            for a in n.names: modnames.add((a.asname or a.name).split(".")[0])
        elif isinstance(n,(ast.FunctionDef,ast.ClassDef)): modnames.add(n.name)
    # module-level names bound to an INSTANCE created at import time (X = SomeClass(...)): shared by every call
    inst=set()
    for n in tree.body:
        if isinstance(n,(ast.Assign,ast.AnnAssign)) and isinstance(n.value,ast.Call):
            fname=ast.unparse(n.value.func)
            if fname.split(".")[-1] not in ("type","tuple","frozenset","sorted","get_public_type_names","TypeVar","getLogger","namedtuple","compile"):
                for t in (n.targets if isinstance(n,ast.Assign) else [n.target]):
                    if isinstance(t,ast.Name): inst.add(t.id)
    READONLY={"get","items","keys","values","copy","repr","format","join","startswith","endswith","index","count","dispatch","__contains__"}
    out=[]
    def in_func(fn, qual):
        locs={a.arg for a in fn.args.args+fn.args.kwonlyargs+fn.args.posonlyargs}
        if fn.args.vararg: locs.add(fn.args.vararg.arg)
        if fn.args.kwarg: locs.add(fn.args.kwarg.arg)
        globs=set()
        for n in ast.walk(fn):
            if isinstance(n,ast.Global): globs|=set(n.names)
            elif isinstance(n,(ast.Assign,ast.AnnAssign,ast.AugAssign,ast.For,ast.With,ast.NamedExpr,ast.comprehension)):
                tg=[]
                if isinstance(n,ast.Assign): tg=n.targets
                elif isinstance(n,(ast.AnnAssign,ast.AugAssign,ast.NamedExpr)): tg=[n.target]
                elif isinstance(n,(ast.For,ast.comprehension)): tg=[n.target]
                elif isinstance(n,ast.With): tg=[i.optional_vars for i in n.items if i.optional_vars]
                for t in tg:
                    for x in ast.walk(t):
                        if isinstance(x,ast.Name) and isinstance(x.ctx,ast.Store): locs.add(x.id)
        for g in globs: out.append((qual,"global "+g,fn.lineno))
        # local aliases of module-level objects:  x = MODULE_LEVEL_NAME
        alias={}
        for n in ast.walk(fn):
            if isinstance(n,ast.Assign) and isinstance(n.value,ast.Name) and n.value.id in modnames and n.value.id not in ("self","cls"):
                for t in n.targets:
                    if isinstance(t,ast.Name): alias[t.id]=n.value.id
        def base(e):
            while isinstance(e,(ast.Attribute,ast.Subscript)): e=e.value
            if isinstance(e,ast.Name) and e.id in alias and alias[e.id] not in locs: return alias[e.id]
            return e.id if isinstance(e,ast.Name) else None
        locs -= set(alias)
        for n in ast.walk(fn):
            if isinstance(n,(ast.Assign,ast.AugAssign,ast.AnnAssign,ast.Delete)):
                tg=n.targets if isinstance(n,(ast.Assign,ast.Delete)) else [n.target]
                for t in tg:
                    if isinstance(t,(ast.Attribute,ast.Subscript)):
                        b=base(t)
                        if b and b in modnames and b not in locs and b not in ("self","cls"):
                            out.append((qual,"store into "+ast.unparse(t),n.lineno))
            elif isinstance(n,ast.Call) and isinstance(n.func,ast.Attribute) and n.func.attr in MUT:
                b=base(n.func.value)
                if b and b in modnames and b not in locs:
                    out.append((qual,"call "+ast.unparse(n.func),n.lineno))
            elif isinstance(n,ast.Call) and isinstance(n.func,ast.Attribute) and n.func.attr not in READONLY:
                b=base(n.func.value)
                if b and b in inst and b not in locs:
                    out.append((qual,"method call on module-level instance "+b+": "+ast.unparse(n.func),n.lineno))
        for d in fn.decorator_list:
            name=ast.unparse(d)
            if any(c in name for c in CACHE): out.append((qual,"decorator "+name,fn.lineno))
        for dflt in fn.args.defaults+[d for d in fn.args.kw_defaults if d is not None]:
            if isinstance(dflt,(ast.List,ast.Dict,ast.Set)) or (isinstance(dflt,ast.Call) and ast.unparse(dflt.func) in ("list","dict","set","defaultdict")):
                out.append((qual,"mutable default "+ast.unparse(dflt),fn.lineno))
    def visit(body, prefix):
        for n in body:
            if isinstance(n,(ast.FunctionDef,ast.AsyncFunctionDef)): in_func(n, prefix+n.name); 
            elif isinstance(n,ast.ClassDef):
                # a mutable object bound in a class body is shared by every instance (and by every call that makes one)
                for b in n.body:
                    if isinstance(b,(ast.Assign,ast.AnnAssign)) and b.value is not None:
                        v=b.value
                        if isinstance(v,(ast.List,ast.Dict,ast.Set,ast.ListComp,ast.DictComp,ast.SetComp)) or (isinstance(v,ast.Call) and ast.unparse(v.func) in ("list","dict","set","defaultdict","OrderedDict","collections.defaultdict","collections.OrderedDict","deque","collections.deque")):
                            # a class-level container is shared state only if something writes into it at call time:
                            # <expr>.<name>.<mutating method>(...), <expr>.<name>[...] = ..., <expr>.<name> op= ...
                            names=[t.id for t in (b.targets if isinstance(b,ast.Assign) else [b.target]) if isinstance(t,ast.Name)]
                            written=False
                            for m in ast.walk(tree):
                                if isinstance(m,ast.Call) and isinstance(m.func,ast.Attribute) and m.func.attr in MUT and isinstance(m.func.value,ast.Attribute) and m.func.value.attr in names: written=True
                                if isinstance(m,(ast.Assign,ast.AugAssign,ast.Delete)):
                                    for t in (m.targets if isinstance(m,(ast.Assign,ast.Delete)) else [m.target]):
                                        if isinstance(t,ast.Subscript) and isinstance(t.value,ast.Attribute) and t.value.attr in names: written=True
                                        if isinstance(m,ast.AugAssign) and isinstance(t,ast.Attribute) and t.attr in names: written=True
                            if written:
                                out.append((prefix+n.name,"class-level mutable "+ast.unparse(b)[:60],b.lineno))
                visit(n.body, prefix+n.name+".")
    visit(tree.body,"")
    return out


# decorators whose state is per-instance or import-time only
FRAME_ALLOWED = ("decorator singledispatch", "decorator cached_property")


def main(out_v, out_json):
    import skops
    import skops.io as sio
    from skops.io import _audit, _general, _persist, _utils, _visualize
    from skops.io._protocol import PROTOCOL

    if Path(skops.__file__).resolve().parent.parent != REPO.resolve():
        abort(f"skops imported from {skops.__file__}, not from {REPO}")

    info = {"repo": str(REPO), "skops_version": skops.__version__, "protocol": PROTOCOL}

    # ---- registry
    reg = []
    for (loader, proto), cls in _audit.NODE_TYPE_MAPPING.items():
        if not isinstance(loader, str) or type(proto) is not int:
            abort(f"registry key {(loader, proto)!r} is not (str, int)")
        reg.append((loader, proto, class_tag(cls)))
    info["registry"] = reg

    # ---- per-class trusted-list probes (behavioural)
    buf = io.BytesIO()
    with zipfile.ZipFile(buf, "w") as z:
        for n in ("probe.bin", "probe.npy", "probe.npz"):
            z.writestr(n, b"x")
    zf = zipfile.ZipFile(io.BytesIO(buf.getvalue()))
    ListNode = _general.ListNode
    classes = {}
    for (loader, proto), cls in _audit.NODE_TYPE_MAPPING.items():
        tag = class_tag(cls)
        if loader not in PROBES:
            abort(f"no probe state for loader {loader!r} (class {tag}); the model has no kind for it")
        rec = {"loader": loader, "proto": proto}
        try:
            obs = []
            for trusted in (None, [CANARY]):
                ctx = _utils.LoadContext(src=zf, protocol=proto)
                node = cls(PROBES[loader](), ctx, trusted=trusted)
                tl = node.trusted
                if not isinstance(tl, list) or not all(isinstance(x, str) for x in tl):
                    abort(f"{tag}.trusted is not a list of str: {tl!r}")
                ch = first_list_child(node, ListNode)
                obs.append((tl, ch.trusted if ch is not None else None))
            (d0, c0), (d1, c1) = obs
            rec["defaults"] = d0
            if d1 == [CANARY] + d0:
                rec["uses_T"] = True
            elif d1 == d0:
                rec["uses_T"] = False
            else:
                abort(f"{tag}: trusted list with T=[canary] is neither T+defaults nor defaults: {d1[:5]}")
            # what is handed down to children as their `trusted`
            ctx = _utils.LoadContext(src=zf, protocol=proto)
            ld = ListNode(L(), ctx, trusted=None).trusted
            if c1 is None:
                rec["down_extra"] = []
                rec["has_node_child"] = False
            else:
                rec["has_node_child"] = True
                if c1[: 1] != [CANARY] or c1[len(c1) - len(ld):] != ld or c0[len(c0) - len(ld):] != ld:
                    abort(f"{tag}: child trusted list has unexpected shape {c1[:5]}")
                x1 = c1[1: len(c1) - len(ld)]
                x0 = c0[: len(c0) - len(ld)]
                if x0 != x1:
                    abort(f"{tag}: names handed down differ between T=None and T=list: {x0[:3]} vs {x1[:3]}")
                rec["down_extra"] = x1
            rec["available"] = True
        except ImportError as e:
            rec.update(available=False, defaults=[], uses_T=True, down_extra=[], has_node_child=False, why=str(e)[:80])
        classes[tag] = rec
    info["classes"] = classes

    # ---- family tag of every default-trusted name (tagging oracle: harness/families.py)
    from families import family_tag
    tags = {}
    for r in classes.values():
        for n in r["defaults"] + r["down_extra"]:
            if n not in tags:
                tags[n] = family_tag(n)
    info["family_tags"] = tags

    # ---- what the dumpers can emit as "__loader__" (AST scan)
    # constants bound to the key "__loader__" in dict displays / subscript assignments; a value that is a PARAMETER of the
    # enclosing function makes that function a helper whose call sites are followed (to a fixpoint).  What cannot be
    # resolved this way is not a reason to stop: the scan is then marked incomplete and the behavioural set (loaders seen
    # in real dumps, added by the checks that need it) stands in.
    emits = set()
    unresolved = []
    io_dir = REPO / "skops" / "io"
    trees = {f: ast.parse(f.read_text()) for f in sorted(io_dir.glob("*.py"))}

    def params_of(fn):
        a = fn.args
        return [x.arg for x in a.posonlyargs + a.args] , [x.arg for x in a.kwonlyargs]
    helpers = {}     # function name -> set of parameter names that end up as a "__loader__" value

    def note_value(v, fn, where):
        """v = expression bound to "__loader__" inside function fn (or None at module level)"""
        if isinstance(v, ast.Constant) and isinstance(v.value, str):
            emits.add(v.value)
            return
        if fn is not None and isinstance(v, ast.Name):
            pos, kwo = params_of(fn)
            if v.id in pos + kwo:
                if v.id not in helpers.setdefault(fn.name, set()):
                    helpers[fn.name].add(v.id)
                    note_value.changed = True
                return
        unresolved.append(where)
    note_value.changed = False

    def scan(first):
        for f, tree in trees.items():
            stack = []

            def visit(n):
                is_fn = isinstance(n, (ast.FunctionDef, ast.AsyncFunctionDef))
                if is_fn:
                    stack.append(n)
                fn = stack[-1] if stack else None
                if first:
                    if isinstance(n, ast.Dict):
                        for k, v in zip(n.keys, n.values):
                            if isinstance(k, ast.Constant) and k.value == "__loader__":
                                note_value(v, fn, f"{f.name}:{n.lineno}: __loader__ in dict display")
                    elif isinstance(n, ast.Assign):
                        for t in n.targets:
                            if isinstance(t, ast.Subscript) and isinstance(t.slice, ast.Constant) and t.slice.value == "__loader__":
                                note_value(n.value, fn, f"{f.name}:{n.lineno}: __loader__ assignment")
                    elif isinstance(n, ast.Call):
                        # dict(__loader__=...), state.update(__loader__=...), dict(header, __loader__=...): whatever the callee
                        for kw in n.keywords:
                            if kw.arg == "__loader__":
                                note_value(kw.value, fn, f"{f.name}:{n.lineno}: __loader__ as a keyword of {ast.unparse(n.func)}()")
                if isinstance(n, ast.Call):
                    name = n.func.id if isinstance(n.func, ast.Name) else (n.func.attr if isinstance(n.func, ast.Attribute) else None)
                    if name in helpers:
                        target = None
                        for g_tree in trees.values():
                            for g in ast.walk(g_tree):
                                if isinstance(g, (ast.FunctionDef, ast.AsyncFunctionDef)) and g.name == name:
                                    target = g
                        if target is not None:
                            pos, kwo = params_of(target)
                            for pname in list(helpers[name]):
                                arg = None
                                if pname in pos and pos.index(pname) < len(n.args):
                                    arg = n.args[pos.index(pname)]
                                for kw in n.keywords:
                                    if kw.arg == pname:
                                        arg = kw.value
                                if arg is None:
                                    d = target.args.defaults
                                    if pname in pos and len(pos) - pos.index(pname) <= len(d):
                                        arg = d[len(d) - (len(pos) - pos.index(pname))]
                                if arg is None:
                                    unresolved.append(f"{f.name}:{n.lineno}: call of {name} without a value for {pname}")
                                else:
                                    note_value(arg, fn, f"{f.name}:{n.lineno}: argument {pname} of {name}()")
                for c in ast.iter_child_nodes(n):
                    visit(c)
                if is_fn:
                    stack.pop()
            visit(tree)
    scan(True)
    for _ in range(4):
        note_value.changed = False
        before = len(unresolved)
        del unresolved[before:]
        scan(False)
        if not note_value.changed:
            break
    unresolved = sorted(set(unresolved))
    info["emits_unresolved"] = unresolved
    # loaders that only exist when an optional dependency is installed are emitted only then
    from skops.io import _quantile_forest
    if getattr(_quantile_forest, "QuantileForest", None) is None:
        emits.discard("QuantileForestNode")
    from skops.io import _sklearn
    if getattr(_sklearn, "_DictWithDeprecatedKeys", None) is None:
        emits.discard("_DictWithDeprecatedKeysNode")
    info["emits"] = sorted(emits)

    # ---- get_state dispatch table
    disp = []
    for typ, fn in _utils._get_state.registry.items():
        disp.append((f"{typ.__module__}.{typ.__qualname__}", fn.__name__))
    info["dispatch"] = disp

    # ---- visualize: kinds whose children are not visited
    info["skipped"] = [class_tag(c) for c in _visualize.SKIPPED_TYPES]

    # ---- call-time writes to module-level state (AST scan, C20): assignments through `global`, stores into / mutating
    # method calls on module-level names from inside functions, caching decorators, mutable default arguments
    gw = []
    for d in ("skops/io", "skops/io/old", "skops/card", "skops/cli", "skops/utils"):
        for f in sorted((REPO / d).glob("*.py")):
            for q, w, l in scan_global_writes(f):
                gw.append([str(f.relative_to(REPO)), q, w, l])
    info["global_writes"] = gw
    info["call_time_global_writes"] = [g for g in gw if g[2] not in FRAME_ALLOWED]

    # ---- emit Coq
    o = []
    o.append("(* GENERATED by harness/snapshot.py from the live /repo code -- do not edit *)")
    o.append("From Skv Require Import PyStr Json Registry.")
    o.append("Open Scope Z_scope.")
    o.append(f"Definition current : Z := {cz(PROTOCOL)}.")
    o.append("Definition registry : Registry.registry := " + clist(f"({cstr(l)}, {cz(p)}, {cstr(c)})" for l, p, c in reg) + ".")
    o.append("Definition emits : list pstr := " + clist((cstr(e) for e in info["emits"]), "pstr") + ".")
    o.append("Definition skipped : list pstr := " + clist((cstr(e) for e in info["skipped"]), "pstr") + ".")
    o.append("(* class tag, uses caller's trusted list, default-trusted names, names added for children *)")
    o.append("Definition classes : list (pstr * (bool * list pstr * list pstr)) := " + clist(
        f"({cstr(tag)}, ({cbool(r['uses_T'])}, {clist((cstr(x) for x in r['defaults']), 'pstr')}, {clist((cstr(x) for x in r['down_extra']), 'pstr')}))"
        for tag, r in classes.items()) + ".")
    o.append("Definition family_tags : list (pstr * pstr) := " + clist((f"({cstr(n)}, {cstr(t)})" for n, t in tags.items()), "(pstr * pstr)") + ".")
    o.append("Definition call_time_global_writes : list (pstr * pstr * pstr) := " + clist(
        (f"({cstr(a)}, {cstr(b)}, {cstr(c[:80])})" for a, b, c, _ in info["call_time_global_writes"]), "(pstr * pstr * pstr)") + ".")
    o.append("Definition unavailable : list pstr := " + clist((cstr(t) for t, r in classes.items() if not r["available"]), "pstr") + ".")
    Path(out_v).write_text("\n".join(o) + "\n")
    Path(out_json).write_text(json.dumps(info, indent=1))


if __name__ == "__main__":
    main(sys.argv[1], sys.argv[2])
