"""Implementation-side runner for C07 (estimator fidelity).  stdin: {"mode": "estimators", "jobs": [...]}.

A job: {"name": <all_estimators name> | null, "comp": <composition kind> | null, "draw": int (0 = defaults),
        "data": "dense"|"sparse"|"multi"|"nonneg", "fitted": bool, "seed": int}
For each job: build -> (fit) -> dumps -> get_untrusted_types -> loads(trusted=that list) twice ->
  * get_params(deep=True) and the whole state (every fitted attribute) through abs (absval.py),
  * predict / predict_proba / decision_function / transform / score_samples on held-out input, compared
    BIT-identically (tobytes) between the original and the loaded estimator (the two loaded copies first
    against each other: a method that is not a function of (state, input) is reported, not compared),
  * get_untrusted_types itself (must be empty for pure-sklearn estimators).
Nothing is dropped silently: a job that cannot be run is returned with "skipped": reason.
"""
from __future__ import annotations

import json
import sys
import warnings
from pathlib import Path

sys.path.insert(0, str(Path(__file__).resolve().parent))
warnings.simplefilter("ignore")

import numpy as np  # noqa: E402
import scipy.sparse as sp  # noqa: E402

from absval import abs_value  # noqa: E402

METHODS = ["predict", "predict_proba", "decision_function", "transform", "score_samples"]
N, D = 40, 5


# ------------------------------------------------------------------ data
def make_data(kind, seed, tags=None):
    rng = np.random.RandomState(seed)
    X = rng.randn(N, D)
    if kind == "nonneg" or (tags is not None and tags.input_tags.positive_only):
        X = np.abs(X)
    yc = (np.arange(N) % 3)
    rng.shuffle(yc)
    yr = X @ rng.randn(D) + 0.1 * rng.randn(N)
    Xt = rng.randn(12, D)
    if kind == "nonneg" or (tags is not None and tags.input_tags.positive_only):
        Xt = np.abs(Xt)
    return X, yc, yr, Xt


def docs(seed, n):
    rng = np.random.RandomState(seed)
    words = ["alpha", "beta", "gamma", "delta", "eps", "zeta", "eta", "theta"]
    return [" ".join(rng.choice(words, size=rng.randint(2, 6))) for _ in range(n)]


# ------------------------------------------------------------------ hyper-parameter draws
def draw_params(est, draw, seed):
    """perturb up to three parameters according to the estimator's own _parameter_constraints"""
    if draw == 0:
        return {}
    from numbers import Integral, Real

    from sklearn.utils._param_validation import Interval, StrOptions
    rng = np.random.RandomState(seed * 131 + draw)
    cons = getattr(type(est), "_parameter_constraints", None) or {}
    names = sorted(n for n in cons if n in est.get_params(deep=False) and n not in ("n_jobs", "verbose", "random_state", "memory", "cache_size"))
    if not names:
        return {}
    rng.shuffle(names)
    out = {}
    for n in names[:3]:
        cur = est.get_params(deep=False)[n]
        opts = []
        for c in cons[n] if isinstance(cons[n], list) else []:
            if isinstance(c, StrOptions):
                opts += [o for o in sorted(c.options) if o not in (c.deprecated or set()) and o != "precomputed" and o != "warn" and o != "deprecated"]
            elif c == "boolean":
                opts += [True, False]
            elif c is None:
                opts.append(None)
            elif isinstance(c, Interval) and isinstance(cur, (int, float)) and not isinstance(cur, bool):
                lo = c.left if c.left is not None else -1e3
                hi = c.right if c.right is not None else 1e3
                if c.type is Integral:
                    cand = [int(cur) + 1, max(int(cur) - 1, 1), 2, 3]
                    opts += [v for v in cand if (lo < v or (c.closed in ("left", "both") and lo <= v)) and (v < hi or (c.closed in ("right", "both") and v <= hi)) and v < 50]
                elif c.type is Real:
                    cand = [float(cur) * 0.5, float(cur) * 2.0, 0.3, 0.7]
                    opts += [v for v in cand if lo < v < hi]
        opts = [o for o in opts if not (o == cur and type(o) is type(cur))]
        if opts:
            out[n] = opts[rng.randint(len(opts))]
    return out


# ------------------------------------------------------------------ construction
def base_instance(name):
    from sklearn.utils import all_estimators
    cls = dict(all_estimators())[name]
    try:
        from sklearn.utils._test_common.instance_generator import _construct_instances
        return next(iter(_construct_instances(cls)))
    except Exception:
        return cls()


def build_composition(kind, seed):
    from sklearn.compose import ColumnTransformer
    from sklearn.decomposition import PCA
    from sklearn.ensemble import BaggingClassifier, StackingClassifier, VotingClassifier
    from sklearn.feature_selection import SelectKBest
    from sklearn.linear_model import LogisticRegression, Ridge
    from sklearn.model_selection import GridSearchCV
    from sklearn.pipeline import FeatureUnion, Pipeline
    from sklearn.preprocessing import FunctionTransformer, MinMaxScaler, PolynomialFeatures, StandardScaler
    from sklearn.svm import SVC
    from sklearn.tree import DecisionTreeClassifier
    rng = np.random.RandomState(seed)
    ufunc = [np.sqrt, np.log1p, np.abs, np.exp, np.square, np.tanh][rng.randint(6)]
    clf = [lambda: LogisticRegression(C=float(rng.choice([0.5, 1.0, 3.0]))), lambda: DecisionTreeClassifier(max_depth=int(rng.randint(1, 4)), random_state=0),
           lambda: SVC(probability=bool(rng.randint(2)), random_state=0, kernel=str(rng.choice(["rbf", "linear"])))][rng.randint(3)]
    if kind == "pipeline":
        return Pipeline([("scale", [StandardScaler, MinMaxScaler][rng.randint(2)]()), ("pca", PCA(n_components=int(rng.randint(2, 4)))), ("clf", clf())]), "clf", "dense"
    if kind == "column_transformer":
        ct = ColumnTransformer([("a", StandardScaler(), slice(0, int(rng.randint(1, 3)))), ("b", MinMaxScaler(), slice(3, None)),
                                ("c", "passthrough", [2])], remainder=["drop", "passthrough"][rng.randint(2)])
        return Pipeline([("ct", ct), ("clf", clf())]), "clf", "dense"
    if kind == "feature_union":
        fu = FeatureUnion([("pca", PCA(n_components=2)), ("kbest", SelectKBest(k=int(rng.randint(1, 4)))), ("poly", PolynomialFeatures(2))])
        return Pipeline([("fu", fu), ("clf", clf())]), "clf", "dense"
    if kind == "grid_search":
        return GridSearchCV(Pipeline([("s", StandardScaler()), ("m", LogisticRegression())]), {"m__C": [0.1, 1.0, float(rng.choice([3.0, 10.0]))]}, cv=2), "clf", "dense"
    if kind == "voting":
        return VotingClassifier([("lr", LogisticRegression()), ("dt", DecisionTreeClassifier(max_depth=2, random_state=0))],
                                voting=["soft", "hard"][rng.randint(2)]), "clf", "dense"
    if kind == "stacking":
        return StackingClassifier([("lr", LogisticRegression()), ("dt", DecisionTreeClassifier(max_depth=2, random_state=0))],
                                  final_estimator=LogisticRegression(), cv=2), "clf", "dense"
    if kind == "bagging":
        return BaggingClassifier(clf(), n_estimators=int(rng.randint(2, 5)), random_state=int(rng.randint(5))), "clf", "dense"
    if kind == "class_weight_dict":
        cw = {0: 1.0, 1: float(rng.choice([2.0, 0.5])), 2: 1.5}
        est = [LogisticRegression(class_weight=cw), DecisionTreeClassifier(class_weight=cw, max_depth=3, random_state=0), SVC(class_weight=cw)][rng.randint(3)]
        return Pipeline([("s", StandardScaler()), ("m", est)]), "clf", "dense"
    if kind == "function_transformer":
        inv = {np.sqrt: np.square, np.log1p: np.expm1, np.exp: np.log, np.square: np.sqrt}.get(ufunc)
        ft = FunctionTransformer(func=ufunc, inverse_func=inv if rng.randint(2) else None, check_inverse=False)
        return Pipeline([("f", ft), ("s", StandardScaler()), ("m", Ridge(alpha=float(rng.choice([0.1, 1.0]))))]), "reg", "nonneg"
    if kind == "scipy_ufunc_transformer":
        # wrappers around scipy.special ufuncs are default-trusted parts too
        import scipy.special as sps
        from sklearn.compose import TransformedTargetRegressor
        f, finv = [(sps.expit, sps.logit), (sps.log1p, sps.expm1), (sps.exp2, None), (sps.cbrt, None)][rng.randint(4)]
        ft = FunctionTransformer(func=f, inverse_func=finv, check_inverse=False)
        if rng.randint(2):
            return Pipeline([("f", ft), ("s", StandardScaler()), ("m", Ridge())]), "reg", "nonneg"
        return TransformedTargetRegressor(regressor=Pipeline([("f", ft), ("m", Ridge())]), func=sps.log1p, inverse_func=sps.expm1, check_inverse=False), "reg", "nonneg"
    if kind == "random_state_instance":
        # a RandomState instance (not an int seed) that already made an ODD number of normal draws: its cached second
        # gaussian is part of the state the estimator carries
        from sklearn.mixture import GaussianMixture
        from sklearn.random_projection import GaussianRandomProjection
        from sklearn.ensemble import RandomForestClassifier
        rs = np.random.RandomState(int(rng.randint(1000)))
        for _ in range(2 * int(rng.randint(0, 3)) + 1):
            rs.normal()
        pick = rng.randint(3)
        if pick == 0:
            return GaussianMixture(n_components=2, random_state=rs), "clf", "dense"
        if pick == 1:
            return Pipeline([("p", GaussianRandomProjection(n_components=2, random_state=rs)), ("m", LogisticRegression())]), "clf", "dense"
        return RandomForestClassifier(n_estimators=3, max_depth=2, random_state=rs), "clf", "dense"
    if kind == "grid_search_structured":
        # searches over tuple- and dict-valued hyper-parameters: cv_results_['param_*'] are object arrays of tuples / dicts
        from sklearn.model_selection import RandomizedSearchCV
        grid = {"s__feature_range": [(0, 1), (0, int(rng.randint(2, 5))), (-1, 1)], "m__class_weight": [None, {0: 1, 1: 2, 2: 1}, "balanced"]}
        pipe = Pipeline([("s", MinMaxScaler()), ("m", LogisticRegression())])
        if rng.randint(2):
            return GridSearchCV(pipe, grid, cv=2), "clf", "dense"
        return RandomizedSearchCV(pipe, grid, n_iter=4, cv=2, random_state=int(rng.randint(100))), "clf", "dense"
    if kind == "sparse_svm":
        # libsvm keeps dual_coef_ of a multi-class fit on SPARSE data as a CSR matrix with explicitly stored zeros
        from sklearn.svm import NuSVC
        est = [SVC(kernel=str(rng.choice(["rbf", "linear"])), C=float(rng.choice([0.5, 1.0]))), NuSVC(nu=0.3)][rng.randint(2)]
        return est, "clf", "sparse"
    raise ValueError(kind)


COMPOSITIONS = ["pipeline", "column_transformer", "feature_union", "grid_search", "voting", "stacking", "bagging", "function_transformer",
                "class_weight_dict", "scipy_ufunc_transformer", "random_state_instance", "grid_search_structured", "sparse_svm"]


def try_fit(est, tags, data_kind, seed):
    """returns (how, Xtest) or raises the last exception"""
    X, yc, yr, Xt = make_data(data_kind, seed, tags)
    et = tags.estimator_type
    y = yc if et in ("classifier", None, "clusterer", "transformer", "outlier_detector") else yr
    if et == "regressor":
        y = yr
    if data_kind == "multi":
        y = np.c_[y, y[::-1]] if (tags.target_tags.multi_output) else y
    if data_kind == "sparse" and tags.input_tags.sparse:
        X, Xt = sp.csr_matrix(X), sp.csr_matrix(Xt)
    attempts = []
    if tags.input_tags.string:
        attempts.append(("docs", lambda: est.fit(docs(seed, N), yc), lambda: docs(seed + 1, 12)))
    if tags.input_tags.dict:
        dd = [{"a": float(i), "b": float(i % 3), "c" + str(i % 4): 1.0} for i in range(N)]
        attempts.append(("dicts", lambda: est.fit(dd, yc), lambda: dd[:12]))
    if tags.input_tags.one_d_array and not tags.input_tags.two_d_array:
        attempts.append(("labels", lambda: est.fit(yc), lambda: yc[:12]))
    if tags.input_tags.categorical and not tags.input_tags.two_d_array:
        pass
    attempts.append(("Xy", lambda: est.fit(X, y), lambda: Xt))
    ybin = (np.arange(N) % 2)
    attempts.append(("Xy-binary", lambda: est.fit(X, ybin), lambda: Xt))
    Yml = np.c_[ybin, 1 - ybin, (np.arange(N) % 3 == 0).astype(int)]
    attempts.append(("XY-multilabel", lambda: est.fit(X, Yml), lambda: Xt))
    attempts.append(("X", lambda: est.fit(X), lambda: Xt))
    Xn = np.abs(X.toarray() if sp.issparse(X) else X)
    attempts.append(("Xy-nonneg", lambda: est.fit(Xn, y), lambda: np.abs(Xt.toarray() if sp.issparse(Xt) else Xt)))
    attempts.append(("Xy-classes", lambda: est.fit(Xn, yc), lambda: np.abs(Xt.toarray() if sp.issparse(Xt) else Xt)))
    Xi = (Xn * 3).astype(int)
    attempts.append(("Xint-y", lambda: est.fit(Xi, yc), lambda: (np.abs(Xt.toarray() if sp.issparse(Xt) else Xt) * 3).astype(int)))
    attempts.append(("XY", lambda: est.fit(X, np.c_[yr, yr * 2]), lambda: Xt))
    attempts.append(("y-only", lambda: est.fit(yc), lambda: yc[:12]))
    attempts.append(("y-multilabel", lambda: est.fit([[1, 2], [3], [1]] * 4), lambda: [[1], [2, 3]]))
    first = None
    for how, f, xt in attempts:
        try:
            f()
            return how, xt()
        except Exception as e:  # noqa
            if how == "Xy" or first is None:
                first = e
    raise first


# ------------------------------------------------------------------ comparison
def out_bytes(o):
    if sp.issparse(o):
        c = o.tocsr()
        c.sort_indices()
        return ["sparse", list(c.shape), c.dtype.str, c.data.tobytes().hex(), c.indices.tobytes().hex(), c.indptr.tobytes().hex()]
    if isinstance(o, (list, tuple)):
        return ["seq", [out_bytes(x) for x in o]]
    if hasattr(o, "to_numpy"):
        o = o.to_numpy()
    a = np.asarray(o)
    if a.dtype == object:
        return ["obj", list(a.shape), [repr(x) for x in a.ravel().tolist()]]
    return ["arr", list(a.shape), a.dtype.str, np.ascontiguousarray(a).tobytes().hex()]


def call(est, m, Xt):
    import copy
    try:
        # a fresh copy of the input for every call: transform(copy=False) works in place
        return ["ok", out_bytes(getattr(est, m)(copy.deepcopy(Xt)))]
    except Exception as e:  # noqa
        return ["raises", type(e).__name__]


def noncontiguous_arrays(obj, path="", depth=0, seen=None, out=None):
    """paths of ndarray values (inside attributes, lists, tuples, dicts, nested estimators) that are strided views:
    neither C- nor F-contiguous.  np.save / pickle / copy.deepcopy all turn them into contiguous arrays."""
    seen = set() if seen is None else seen
    out = [] if out is None else out
    if id(obj) in seen or depth > 6:
        return out
    seen.add(id(obj))
    if isinstance(obj, np.ndarray):
        if obj.dtype != object and obj.ndim > 1 and not obj.flags.c_contiguous and not obj.flags.f_contiguous:
            out.append(path)
        return out
    if isinstance(obj, dict):
        for k, v in obj.items():
            noncontiguous_arrays(v, f"{path}[{k!r}]", depth + 1, seen, out)
    elif isinstance(obj, (list, tuple)):
        for i, v in enumerate(obj):
            noncontiguous_arrays(v, f"{path}[{i}]", depth + 1, seen, out)
    elif hasattr(obj, "__dict__") and not isinstance(obj, type) and type(obj).__module__.split(".")[0] in ("sklearn", "values"):
        for k, v in vars(obj).items():
            noncontiguous_arrays(v, f"{path}.{k}", depth + 1, seen, out)
    return out


def state_items(est):
    st = est.__getstate__() if hasattr(est, "__getstate__") else dict(vars(est))
    return st if isinstance(st, dict) else {"<state>": st}


def first_diff(a, b, path=""):
    if type(a) is not type(b):
        return f"{path}: {str(a)[:80]} vs {str(b)[:80]}"
    if isinstance(a, list):
        if len(a) != len(b):
            return f"{path}: length {len(a)} vs {len(b)}"
        for i, (x, y) in enumerate(zip(a, b)):
            d = first_diff(x, y, f"{path}/{i}")
            if d:
                return d
        return None
    return None if a == b else f"{path}: {str(a)[:80]} vs {str(b)[:80]}"


def one_job(sio, job):
    from sklearn.base import clone
    rec = {"job": job}
    name, comp = job.get("name"), job.get("comp")
    data_kind = job.get("data", "dense")
    try:
        if comp:
            est, _kind, dk = build_composition(comp, job["seed"])
            data_kind = dk if data_kind == "dense" else data_kind
        else:
            est = base_instance(name)
            params = draw_params(est, job.get("draw", 0), job["seed"])
            rec["params"] = {k: repr(v) for k, v in params.items()}
            if params:
                est = clone(est).set_params(**params)
    except Exception as e:  # noqa
        rec["skipped"] = f"cannot construct: {type(e).__name__}: {str(e)[:120]}"
        return rec
    import skops.io._sklearn as SK
    rec["class"] = f"{type(est).__module__}.{type(est).__qualname__}"
    try:
        tags = est.__sklearn_tags__()
    except Exception as e:  # noqa
        rec["skipped"] = f"no tags: {type(e).__name__}"
        return rec
    Xt = None
    if job.get("fitted", True):
        try:
            rec["fit"], Xt = try_fit(est, tags, data_kind, job["seed"])
        except Exception as e:  # noqa
            if job.get("draw", 0):
                rec["skipped"] = f"drawn parameters {rec.get('params')} do not fit the tiny data: {type(e).__name__}: {str(e)[:100]}"
            else:
                rec["skipped"] = f"cannot be fitted on the tiny data: {type(e).__name__}: {str(e)[:120]}"
            return rec
    # ---- dump / audit / load
    try:
        data = sio.dumps(est)
    except Exception as e:  # noqa
        from skops.io.exceptions import UnsupportedTypeException
        if isinstance(e, UnsupportedTypeException) and type(est) in SK.UNSUPPORTED_TYPES:
            rec["skipped"] = f"in skops' UNSUPPORTED_TYPES ({type(est).__name__}): dumps raises UnsupportedTypeException"
        else:
            rec["dump"] = f"raises:{type(e).__name__}:{str(e)[:200]}"
        return rec
    rec["dump"] = "ok"
    rec["size"] = len(data)
    try:
        gut = sio.get_untrusted_types(data=data)
        rec["gut"] = gut
        l1 = sio.loads(data, trusted=gut)
        l2 = sio.loads(data, trusted=gut)
    except BaseException as e:  # noqa
        rec["load"] = f"raises:{type(e).__name__}:{str(e)[:200]}"
        return rec
    rec["load"] = "ok"
    if gut:
        import families
        rec["gut_tags"] = {n: families.family_tag(n) for n in gut}
    if not gut:
        try:
            sio.loads(data)
            rec["load_without_trusted"] = "ok"
        except Exception as e:  # noqa
            rec["load_without_trusted"] = f"raises:{type(e).__name__}"
    # ---- parameters and state through abs
    try:
        p0 = abs_value(est.get_params(deep=True))
        p1 = abs_value(l1.get_params(deep=True))
        rec["params_same"] = p0 == p1
        if p0 != p1:
            rec["params_diff"] = first_diff(p0, p1)
    except Exception as e:  # noqa
        rec["params_same"] = f"get_params raises {type(e).__name__}"
    rec["class_same"] = type(l1) is type(est)
    s0, s1 = state_items(est), state_items(l1)
    rec["attrs"] = len(s0)
    diffs = []
    if list(s0) != list(s1):
        diffs.append(f"attribute names/order: {[k for k in s0 if k not in s1]} missing, {[k for k in s1 if k not in s0]} extra" if set(s0) != set(s1)
                     else "attribute order differs")
    for k in s0:
        if k in s1:
            try:
                a, b = abs_value(s0[k]), abs_value(s1[k])
            except Exception as e:  # noqa
                diffs.append(f"{k}: abs failed {type(e).__name__}")
                continue
            if a != b:
                diffs.append(f"{k}: {first_diff(a, b)}")
    rec["state_diffs"] = diffs[:6]
    w0, w1 = abs_value(est), abs_value(l1)
    rec["whole_same"] = w0 == w1
    if w0 != w1 and not diffs:
        rec["state_diffs"] = ["<whole> " + str(first_diff(w0, w1))]
    # array attributes: memory order kept? (abs records C/F)
    rec["f_ordered_attrs"] = sorted(k for k, v in s0.items() if isinstance(v, np.ndarray) and v.ndim > 1 and v.flags.f_contiguous and not v.flags.c_contiguous)
    # ---- methods, bitwise
    meth, causes = {}, {}
    if Xt is not None:
        for m in METHODS:
            if not hasattr(est, m):
                continue
            b1, b2 = call(l1, m, Xt), call(l2, m, Xt)
            a1 = call(est, m, Xt)
            if b1 != b2:
                meth[m] = "not-a-function-of-state"
            elif a1 == b1:
                meth[m] = "same" if a1[0] == "ok" else "both-raise:" + a1[1]
            else:
                meth[m] = "DIFF:" + (str(first_diff(a1, b1))[:200])
                # is memory layout the only difference?  copy.deepcopy makes strided views contiguous, exactly like np.save
                nc = noncontiguous_arrays(est)
                if nc:
                    import copy
                    if call(copy.deepcopy(est), m, Xt) == b1:
                        causes[m] = nc[:4]
    rec["methods"] = meth
    rec["layout_only"] = causes
    return rec


def mode_estimators(req):
    import skops.io as sio
    out = []
    for job in req["jobs"]:
        try:
            out.append(one_job(sio, job))
        except BaseException as e:  # noqa
            out.append({"job": job, "harness_error": f"{type(e).__name__}: {str(e)[:200]}"})
    return out


def mode_names(req):
    from sklearn.utils import all_estimators
    return [n for n, _ in all_estimators()]


def mode_probe(req):
    """D12: a pure scipy/sklearn value that is not default-trusted"""
    import skops.io as sio
    from sklearn.feature_extraction.text import TfidfTransformer
    t = TfidfTransformer().fit(sp.csr_matrix(np.abs(np.random.RandomState(0).randn(6, 4))))
    return {"csr_matrix": sio.get_untrusted_types(data=sio.dumps(sp.csr_matrix(np.eye(3)))),
            "csr_array": sio.get_untrusted_types(data=sio.dumps(sp.csr_array(np.eye(3)))),
            "TfidfTransformer": sio.get_untrusted_types(data=sio.dumps(t))}


MODES = {"estimators": mode_estimators, "names": mode_names, "probe": mode_probe}

if __name__ == "__main__":
    req = json.load(sys.stdin)
    real_stdout = sys.stdout
    sys.stdout = sys.stderr
    res = MODES[req["mode"]](req)
    json.dump(res, real_stdout, default=str)
