import builtins

_L = getattr(builtins, "_verif_ledger", None)
if _L is None:
    _L = builtins._verif_ledger = []
_L.append(("import", __name__))


class Other:
    def __new__(cls, *a, **k):
        _L.append(("new", "verif_canary_pkg.sub.Other"))
        return super().__new__(cls)
