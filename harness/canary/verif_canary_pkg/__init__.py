"""Harness-owned canary package: importable, harmless, and every use is written to a ledger."""
import builtins

_L = getattr(builtins, "_verif_ledger", None)
if _L is None:
    _L = builtins._verif_ledger = []
_L.append(("import", __name__))


class Probe:
    def __new__(cls, *a, **k):
        _L.append(("new", "verif_canary_pkg.Probe"))
        return super().__new__(cls)

    def __init__(self, *a, **k):
        _L.append(("init", "verif_canary_pkg.Probe"))

    def __setstate__(self, st):
        _L.append(("setstate", "verif_canary_pkg.Probe"))
        self.__dict__.update(st if isinstance(st, dict) else {})

    def fit(self, *a, **k):
        _L.append(("call", "verif_canary_pkg.Probe.fit"))
        return self

    def predict(self, *a, **k):
        _L.append(("call", "verif_canary_pkg.Probe.predict"))
        return 0


def probe_fn(*a, **k):
    _L.append(("call", "verif_canary_pkg.probe_fn"))
    return None
