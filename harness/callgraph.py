"""callgraph.py <out.v> <out.json>  -- source translator for C02 (and C20): skops/io/**/*.py -> Gen/CallGraph.v

Reads the SOURCE of $VERIF_REPO/skops/io (never imports it) and emits, as Coq data,

  callgraph : list (string * (list string * list string))     function -> (callees, effects)
  entries   : list string                                       the code that runs before the trust verdict

The call relation is an OVER-approximation built so that every call the interpreter can make from a function of
skops.io to another function of skops.io is an edge:

  f(...)            f a module-level def/class of the same module or imported from a skops module -> that def /
                    the __init__ (and __new__/__post_init__) of that class and of its skops bases
  x.m(...)          every skops.io method or function called m (receiver types are not tracked), and -- when x is
                    an imported module -- the external function module.m
  super().m(...)    every skops.io method called m
  v(...)            v a local variable / parameter (e.g. the class looked up in NODE_TYPE_MAPPING, a sink callback):
                    every __init__ of skops.io plus every skops.io function whose name is used as a value somewhere
  x.p               p the name of a @property / cached_property of skops.io: that getter
  with ...:         every __enter__/__exit__ of skops.io;  for ... in / iteration: every __iter__/__next__

Effects are the primitives the property C02 forbids before the verdict:
  resolve:<callee>   gettype, _import_obj, anything of importlib/pkgutil/runpy, __import__, eval/exec/compile, pickle,
                     getattr/setattr/delattr with a computed attribute name
  fs:<callee>        open, os.*, shutil.*, tempfile.*, subprocess.*, pathlib write methods, ZipFile.extract*, ...
  mem:<callee>       np.save / save_npz whose first argument is a local variable bound only to io.BytesIO(), and
                     zip_file.writestr when _save builds its ZipFile over a local io.BytesIO(): writers that stay in memory
A call to a module-level external function of a module that is neither known-pure nor known-effectful aborts the
translation (fail-closed): the obligation is then reported as broken, not silently passed.

load()/loads() are split at their call of audit_tree: `load@pre` holds the calls made up to and including the
audit, `load@post` the rest; the translator aborts unless construct() is only called after the audit.
"""
from __future__ import annotations

import ast
import builtins as builtins_mod
import json
import os
import sys
from pathlib import Path

REPO = Path(os.environ.get("VERIF_REPO", "/repo"))


class Abort(Exception):
    pass


# external module roots whose functions have no effect of the forbidden kinds (they may raise, allocate, parse bytes)
PURE_MODULES = {
    "io", "json", "collections", "itertools", "functools", "typing", "contextlib", "dataclasses", "operator", "re",
    "abc", "enum", "warnings", "uuid", "inspect", "types", "copy", "math", "numbers", "zipfile", "packaging",
    "__future__", "textwrap", "string", "logging", "sklearn", "scipy", "numpy", "np", "rich", "prettytable",
    "typing_extensions",
    # further standard-library modules whose functions neither resolve code by name nor touch the file system
    "hashlib", "base64", "binascii", "struct", "array", "bisect", "heapq", "datetime", "time", "decimal", "fractions",
    "statistics", "weakref", "traceback", "pprint", "reprlib", "difflib", "unicodedata", "threading", "queue", "ast",
    "keyword", "zlib", "html", "secrets", "random", "platform", "numbers", "graphlib", "colorsys", "cmath",
}
# attributes of effectful modules that are harmless (pure string functions, constants, introspection of the interpreter)
PURE_ATTRS = {
    "os": {"fspath", "sep", "linesep", "pathsep", "extsep", "altsep", "curdir", "pardir", "name", "PathLike", "devnull", "cpu_count", "getpid"},
    "os.path": {"join", "basename", "dirname", "split", "splitext", "normpath", "normcase", "isabs", "commonprefix", "commonpath", "sep", "relpath"},
    "sys": {"version_info", "version", "platform", "maxsize", "byteorder", "getrecursionlimit", "getsizeof", "float_info", "int_info", "hexversion",
            "implementation", "exc_info", "getrefcount", "intern", "flags", "executable", "stderr", "stdout"},
}
# (module root, function) pairs of otherwise pure modules that do touch files / resolve code
EFFECT_FUNCS = {
    ("numpy", "load"): "fs", ("numpy", "save"): "fs", ("numpy", "savez"): "fs", ("numpy", "fromfile"): "fs",
    ("numpy", "memmap"): "fs", ("numpy", "loadtxt"): "fs", ("numpy", "savetxt"): "fs",
    ("scipy", "load_npz"): "fs", ("scipy", "save_npz"): "fs",
    ("inspect", "getmodule"): "resolve", ("inspect", "getsource"): "fs", ("inspect", "getsourcefile"): "fs",
    ("zipfile", "ZipFile"): None,  # opening the archive itself is the caller's request (reads only; see method table)
    ("operator", "attrgetter"): "resolve", ("operator", "methodcaller"): "resolve", ("operator", "call"): "resolve",
    ("functools", "partial"): None,
}
EFFECT_MODULES = {
    "importlib": "resolve", "pkgutil": "resolve", "runpy": "resolve", "imp": "resolve", "pickle": "resolve",
    "marshal": "resolve", "shelve": "resolve", "joblib": "resolve", "dill": "resolve", "cloudpickle": "resolve",
    "os": "fs", "shutil": "fs", "tempfile": "fs", "subprocess": "fs", "socket": "fs", "ctypes": "resolve",
    "urllib": "fs", "http": "fs", "multiprocessing": "fs", "mmap": "fs", "glob": "fs", "fileinput": "fs",
    "sys": "resolve",
}
PURE_BUILTINS = {
    "isinstance", "issubclass", "len", "set", "frozenset", "list", "tuple", "dict", "sorted", "zip", "enumerate", "range",
    "str", "int", "float", "bool", "bytes", "bytearray", "repr", "id", "type", "any", "all", "min", "max", "sum", "iter",
    "next", "hasattr", "callable", "print", "super", "map", "filter", "reversed", "abs", "hash", "slice", "object",
    "format", "ord", "chr", "round", "divmod", "complex", "memoryview", "staticmethod", "classmethod", "property",
    "NotImplementedError", "TypeError", "ValueError", "KeyError", "AttributeError", "ImportError", "RuntimeError",
    "Exception", "StopIteration", "IndexError", "UnicodeDecodeError", "ModuleNotFoundError", "AssertionError",
    "vars", "dir", "isinstance", "NotImplemented", "Ellipsis", "DeprecationWarning", "UserWarning", "FutureWarning",
}
EFFECT_BUILTINS = {"open": "fs", "eval": "resolve", "exec": "resolve", "compile": "resolve", "__import__": "resolve",
                   "input": "fs", "breakpoint": "resolve", "globals": "resolve", "locals": None}
# method names on receivers of unknown type that write files / resolve code whatever the receiver is
EFFECT_METHODS = {
    "write": "fs", "writestr": "fs", "writelines": "fs", "extract": "fs", "extractall": "fs", "mkdir": "fs",
    "makedirs": "fs", "unlink": "fs", "rmdir": "fs", "rename": "fs", "replace_file": "fs", "touch": "fs",
    "write_bytes": "fs", "write_text": "fs", "symlink_to": "fs", "hardlink_to": "fs", "chmod": "fs", "truncate": "fs",
    "import_module": "resolve", "load_module": "resolve", "exec_module": "resolve", "find_spec": "resolve",
    "system": "fs", "popen": "fs", "Popen": "fs", "spawn": "fs", "mkdtemp": "fs", "mkstemp": "fs",
    "NamedTemporaryFile": "fs", "TemporaryDirectory": "fs", "TemporaryFile": "fs", "tofile": "fs", "dump": "fs",
    "savez": "fs", "save": "fs",
}
SKOPS_RESOLVERS = {"gettype": "resolve", "_import_obj": "resolve"}
# computed-name getattr/setattr that are accepted: (function) -> condition checked below
KWARGS_ATTR_OK = {"_audit.temp_setattr"}


def is_setattr_helper(key: str) -> bool:
    """a helper of the audit framework that temporarily sets attributes named by ITS CALLERS' literal keyword arguments
    (temp_setattr as a generator function, or rewritten as a small context-manager class); call sites are checked below"""
    parts = key.split(".")
    return parts[0] == "_audit" and any("setattr" in p.lower() for p in parts[1:-1] + parts[-1:]) and "setattr" != parts[-1]


def modkey(path: Path) -> str:
    rel = path.relative_to(REPO / "skops" / "io").with_suffix("")
    return ".".join(rel.parts)


class Func:
    def __init__(self, key, node, mod, cls):
        self.key, self.node, self.mod, self.cls = key, node, mod, cls
        self.calls, self.effects = set(), set()


def scan():
    io_dir = REPO / "skops" / "io"
    files = sorted(p for p in io_dir.rglob("*.py") if "tests" not in p.parts)
    mods = {}
    for f in files:
        mods[modkey(f)] = ast.parse(f.read_text())
    funcs: dict[str, Func] = {}
    classes = {}           # "mod.Cls" -> (bases as names, ClassDef)
    by_name = {}           # simple name -> set of function keys
    props = {}             # property name -> set of keys
    imports = {}           # mod -> {local name: ("skops", modkey, name) | ("ext", dotted)}
    moddefs = {}           # mod -> {name: "func"/"class"}

    def reg(key, node, mod, cls):
        fn = Func(key, node, mod, cls)
        funcs[key] = fn
        by_name.setdefault(node.name, set()).add(key)
        for d in node.decorator_list:
            dn = ast.unparse(d)
            if dn.split(".")[-1] in ("property", "cached_property") or dn.endswith(".setter") or dn.endswith(".getter"):
                props.setdefault(node.name, set()).add(key)

    module_lambdas = set()
    for mod, tree in mods.items():
        imports[mod], moddefs[mod] = {}, {}
        for n in ast.walk(tree):
            if isinstance(n, ast.Import):
                for a in n.names:
                    imports[mod][(a.asname or a.name).split(".")[0] if not a.asname else a.asname] = ("ext", a.name if a.asname else a.name.split(".")[0])
            elif isinstance(n, ast.ImportFrom):
                src = n.module or ""
                if n.level > 0 or src.startswith("skops"):
                    # relative or absolute import of a skops module
                    if n.level > 0:
                        base = mod.split(".")[:-1]
                        for _ in range(n.level - 1):
                            base = base[:-1]
                        target = ".".join(base + ([src] if src else []))
                    else:
                        target = src[len("skops.io."):] if src.startswith("skops.io.") else ("" if src == "skops.io" else "EXT:" + src)
                    for a in n.names:
                        if target.startswith("EXT:"):
                            imports[mod][a.asname or a.name] = ("skopsext", target[4:] + "." + a.name)
                        else:
                            imports[mod][a.asname or a.name] = ("skops", target, a.name)
                else:
                    for a in n.names:
                        imports[mod][a.asname or a.name] = ("ext", src + "." + a.name)
        for n in tree.body:
            if isinstance(n, (ast.FunctionDef, ast.AsyncFunctionDef)):
                moddefs[mod][n.name] = "func"
                reg(f"{mod}.{n.name}", n, mod, None)
            elif isinstance(n, ast.ClassDef):
                moddefs[mod][n.name] = "class"
                classes[f"{mod}.{n.name}"] = ([ast.unparse(b) for b in n.bases], n)
                for b in n.body:
                    if isinstance(b, (ast.FunctionDef, ast.AsyncFunctionDef)):
                        reg(f"{mod}.{n.name}.{b.name}", b, mod, n.name)
        # nested defs inside functions are analysed as part of their enclosing function (ast.walk descends into them);
        # lambdas written OUTSIDE any def (module level, class bodies, default tables) are collected into one anonymous
        # function per module, reachable from every call of a local variable (they can only be called through a value)
        in_def = set()
        for n in ast.walk(tree):
            if isinstance(n, (ast.FunctionDef, ast.AsyncFunctionDef)):
                for m in ast.walk(n):
                    if isinstance(m, ast.Lambda):
                        in_def.add(id(m))
        lambdas = [n for n in ast.walk(tree) if isinstance(n, ast.Lambda) and id(n) not in in_def]
        if lambdas:
            holder = ast.FunctionDef(name="<lambda>", args=ast.arguments(posonlyargs=[], args=[], kwonlyargs=[], kw_defaults=[], defaults=[]),
                                     body=[ast.Expr(value=l.body) for l in lambdas], decorator_list=[], lineno=lambdas[0].lineno, col_offset=0)
            # the lambdas' own parameters are local names
            holder.args.args = [ast.arg(arg=a.arg) for l in lambdas for a in l.args.args + l.args.kwonlyargs + l.args.posonlyargs]
            ast.fix_missing_locations(holder)
            reg(f"{mod}.<lambda>", holder, mod, None)
            module_lambdas.add(f"{mod}.<lambda>")

    def resolve_skops(target_mod, name, seen=()):
        """a name imported from a skops.io module -> ('func', key) | ('class', 'mod.Cls') | ('mod', modkey) | None"""
        if target_mod == "" and name in mods:          # from skops.io import _audit
            return ("mod", name)
        sub = f"{target_mod}.{name}" if target_mod else name
        if sub in mods:
            return ("mod", sub)
        if target_mod in moddefs and name in moddefs[target_mod]:
            return ("func", f"{target_mod}.{name}") if moddefs[target_mod][name] == "func" else ("class", f"{target_mod}.{name}")
        if target_mod in imports and name in imports[target_mod] and (target_mod, name) not in seen:
            imp = imports[target_mod][name]
            if imp[0] == "skops":
                return resolve_skops(imp[1], imp[2], seen + ((target_mod, name),))
            return ("ext", imp[1])
        return None

    def class_inits(ckey, seen=None):
        """constructor-time methods of a skops class and of its skops bases"""
        seen = seen or set()
        if ckey in seen or ckey not in classes:
            return set()
        seen.add(ckey)
        out = set()
        bases, node = classes[ckey]
        mod = ckey.rsplit(".", 1)[0]
        for m in ("__init__", "__new__", "__post_init__", "__init_subclass__"):
            if f"{ckey}.{m}" in funcs:
                out.add(f"{ckey}.{m}")
        for b in bases:
            bn = b.split(".")[-1].split("[")[0]
            r = None
            if bn in moddefs[mod] and moddefs[mod][bn] == "class":
                r = ("class", f"{mod}.{bn}")
            elif bn in imports[mod] and imports[mod][bn][0] == "skops":
                r = resolve_skops(imports[mod][bn][1], imports[mod][bn][2])
            if r and r[0] == "class":
                out |= class_inits(r[1], seen)
        return out

    all_inits = {k for k in funcs if k.rsplit(".", 1)[-1] in ("__init__", "__new__", "__post_init__")}
    # function names used as values (escaping): Name loads that are not the func of a Call
    escaping = set()
    for mod, tree in mods.items():
        callfuncs = {id(n.func) for n in ast.walk(tree) if isinstance(n, ast.Call)}
        # f.attr is an attribute access ON the function object (f.register, f.__name__), not a use of f as a value
        callfuncs |= {id(n.value) for n in ast.walk(tree) if isinstance(n, ast.Attribute)}
        for n in ast.walk(tree):
            if isinstance(n, ast.Name) and isinstance(n.ctx, ast.Load) and id(n) not in callfuncs:
                if n.id in moddefs[mod] and moddefs[mod][n.id] == "func":
                    escaping.add(f"{mod}.{n.id}")
                elif n.id in imports[mod] and imports[mod][n.id][0] == "skops":
                    r = resolve_skops(imports[mod][n.id][1], imports[mod][n.id][2])
                    if r and r[0] == "func":
                        escaping.add(r[1])
            elif isinstance(n, ast.Attribute) and isinstance(n.ctx, ast.Load) and id(n) not in callfuncs and n.attr in by_name:
                # bound methods / functions handed around as values
                if not (isinstance(n.value, ast.Name) and n.value.id in ("self",) and n.attr in props):
                    pass
    # functions registered for the get_state singledispatch escape only into module-level GET_STATE_DISPATCH_FUNCTIONS
    # lists; they are called through _utils._get_state.  (checked: the list name is not used inside any def)
    dispatch_funcs = set()
    for mod, tree in mods.items():
        for n in ast.walk(tree):
            if isinstance(n, (ast.FunctionDef, ast.AsyncFunctionDef)):
                for m in ast.walk(n):
                    if (isinstance(m, ast.Name) and m.id == "GET_STATE_DISPATCH_FUNCTIONS") or (isinstance(m, ast.Constant) and m.value == "GET_STATE_DISPATCH_FUNCTIONS"):
                        raise Abort(f"{mod}.{n.name} uses GET_STATE_DISPATCH_FUNCTIONS at call time")
        for n in ast.walk(tree):
            tgt = None
            if isinstance(n, ast.Assign) and any(isinstance(t, ast.Name) and t.id == "GET_STATE_DISPATCH_FUNCTIONS" for t in n.targets):
                tgt = n.value
            elif isinstance(n, ast.Call) and isinstance(n.func, ast.Attribute) and isinstance(n.func.value, ast.Name) and n.func.value.id == "GET_STATE_DISPATCH_FUNCTIONS":
                tgt = n
            if tgt is not None:
                for m in ast.walk(tgt):
                    if isinstance(m, ast.Name) and moddefs[mod].get(m.id) == "func":
                        dispatch_funcs.add(f"{mod}.{m.id}")
    if "_utils._get_state" not in funcs:
        raise Abort("_utils._get_state (the singledispatch function) not found")
    escaping -= dispatch_funcs
    escaping |= module_lambdas

    def bytesio_locals(fnode):
        """names of local variables that are bound ONLY to io.BytesIO() in this function"""
        good, bad = set(), set()
        def is_bio(v):
            return isinstance(v, ast.Call) and ast.unparse(v.func) in ("io.BytesIO", "BytesIO") and not v.args and not v.keywords
        for n in ast.walk(fnode):
            if isinstance(n, (ast.With, ast.AsyncWith)):
                # with io.BytesIO() as buffer:
                for it in n.items:
                    if isinstance(it.optional_vars, ast.Name):
                        (good if is_bio(it.context_expr) else bad).add(it.optional_vars.id)
            if isinstance(n, ast.AnnAssign) and isinstance(n.target, ast.Name) and n.value is not None:
                (good if is_bio(n.value) else bad).add(n.target.id)
            if isinstance(n, ast.Assign):
                for t in n.targets:
                    if isinstance(t, ast.Name):
                        (good if is_bio(n.value) else bad).add(t.id)
        return good - bad

    # the archive is assembled in memory: ZipFile(<a local io.BytesIO()>, "w", ...) in _persist._save
    zip_in_memory = False
    if "_persist._save" in funcs:
        fnode = funcs["_persist._save"].node
        bio = bytesio_locals(fnode)
        zf = [c for c in ast.walk(fnode) if isinstance(c, ast.Call) and ast.unparse(c.func).split(".")[-1] == "ZipFile"]
        zip_in_memory = bool(zf) and all(c.args and isinstance(c.args[0], ast.Name) and c.args[0].id in bio for c in zf)

    def ext_effect(dotted, fn, lineno):
        """classify a module-level external callee; returns effect string or None; aborts when unknown"""
        parts = dotted.split(".")
        root = parts[0]
        root = {"np": "numpy"}.get(root, root)
        last = parts[-1]
        if root in EFFECT_MODULES:
            owner = ".".join(parts[:-1])
            if last in PURE_ATTRS.get(owner, ()):
                return None
            return f"{EFFECT_MODULES[root]}:{dotted}"
        if (root, last) in EFFECT_FUNCS:
            e = EFFECT_FUNCS[(root, last)]
            return f"{e}:{dotted}" if e else None
        if root in PURE_MODULES:
            return None
        if root == "pathlib":
            return None     # constructing a path object; its writing methods are in EFFECT_METHODS
        raise Abort(f"{fn.key} (line {lineno}) calls {dotted}: module {root!r} is neither known-pure nor known-effectful")

    def local_names(fnode):
        locs = {a.arg for a in fnode.args.args + fnode.args.kwonlyargs + fnode.args.posonlyargs}
        if fnode.args.vararg:
            locs.add(fnode.args.vararg.arg)
        if fnode.args.kwarg:
            locs.add(fnode.args.kwarg.arg)
        for n in ast.walk(fnode):
            if isinstance(n, ast.Name) and isinstance(n.ctx, ast.Store):
                locs.add(n.id)
            elif isinstance(n, (ast.FunctionDef, ast.AsyncFunctionDef)) and n is not fnode:
                locs.add(n.name)
            elif isinstance(n, (ast.Import, ast.ImportFrom)):
                pass
        return locs

    def param_default(fnode, name):
        """key of the skops function that is the default value of parameter `name`, if it is one and never rebound"""
        a = fnode.args
        pos = a.posonlyargs + a.args
        pairs = list(zip(pos[len(pos) - len(a.defaults):], a.defaults)) + [(k, d) for k, d in zip(a.kwonlyargs, a.kw_defaults) if d is not None]
        for arg, d in pairs:
            if arg.arg == name and isinstance(d, ast.Name):
                if any(isinstance(m, ast.Name) and m.id == name and isinstance(m.ctx, ast.Store) for m in ast.walk(fnode)):
                    return None
                mod = None
                for k, f in funcs.items():
                    if f.node is fnode:
                        mod = f.mod
                if mod and moddefs[mod].get(d.id) == "func":
                    return f"{mod}.{d.id}"
        return None

    def analyse(fn: Func, body_nodes, into_calls, into_effects):
        mod = fn.mod
        # function-local imports extend the import table for this function
        limports = dict(imports[mod])
        locs = local_names(fn.node)
        local_import_names = set()
        for n in ast.walk(fn.node):
            if isinstance(n, ast.Import):
                for a in n.names:
                    local_import_names.add(a.asname or a.name.split(".")[0])
            elif isinstance(n, ast.ImportFrom):
                for a in n.names:
                    local_import_names.add(a.asname or a.name)
        locs -= local_import_names

        def dotted_of(e):
            parts = []
            while isinstance(e, ast.Attribute):
                parts.append(e.attr)
                e = e.value
            if isinstance(e, ast.Name):
                return e.id, list(reversed(parts))
            return None, None

        def add_by_name(name):
            for k in by_name.get(name, ()):
                into_calls.add(k)

        for top in body_nodes:
            for n in ast.walk(top):
                if isinstance(n, (ast.With, ast.AsyncWith)):
                    add_by_name("__enter__"); add_by_name("__exit__")
                elif isinstance(n, (ast.For, ast.comprehension)):
                    add_by_name("__iter__"); add_by_name("__next__")
                elif isinstance(n, ast.Attribute) and isinstance(n.ctx, ast.Load) and n.attr in props:
                    for k in props[n.attr]:
                        into_calls.add(k)
                elif isinstance(n, ast.Attribute) and isinstance(n.value, ast.Name) and n.value.id not in locs:
                    imp = limports.get(n.value.id)
                    if imp and imp[0] == "ext" and imp[1].split(".")[0] in EFFECT_MODULES and n.attr not in PURE_ATTRS.get(imp[1], ()) \
                            and not (imp[1] == "os" and n.attr == "path"):
                        # sys.modules, sys.path, os.environ ...: touching them is already the effect
                        into_effects.add(f"{EFFECT_MODULES[imp[1].split('.')[0]]}:{imp[1]}.{n.attr}")
                elif isinstance(n, ast.Subscript):
                    add_by_name("__getitem__")
                elif isinstance(n, ast.Compare):
                    add_by_name("__eq__"); add_by_name("__contains__"); add_by_name("__lt__")
                elif isinstance(n, (ast.JoinedStr,)):
                    add_by_name("__str__"); add_by_name("__repr__"); add_by_name("__format__")
                if not isinstance(n, ast.Call):
                    continue
                f = n.func
                if isinstance(f, ast.Name):
                    name = f.id
                    if name in ("getattr", "setattr", "delattr") and name not in locs:
                        if len(n.args) >= 2 and isinstance(n.args[1], ast.Constant) and isinstance(n.args[1].value, str):
                            continue
                        if fn.key in KWARGS_ATTR_OK or is_setattr_helper(fn.key):
                            continue
                        into_effects.add(f"resolve:{name}(computed name)")
                        continue
                    if name in locs:
                        # a local variable / parameter is called
                        dflt = param_default(fn.node, name)
                        if dflt is not None:
                            # a callback parameter: its default, or the caller's own callable (not the archive's)
                            into_calls.add(dflt)
                        else:
                            # any constructor (the class looked up in NODE_TYPE_MAPPING), any function used as a value
                            into_calls.update(all_inits)
                            into_calls.update(escaping)
                        continue
                    if name in moddefs[mod]:
                        if moddefs[mod][name] == "func":
                            into_calls.add(f"{mod}.{name}")
                        else:
                            into_calls.update(class_inits(f"{mod}.{name}"))
                        continue
                    if name in limports:
                        imp = limports[name]
                        if imp[0] == "skops":
                            r = resolve_skops(imp[1], imp[2])
                            if r is None:
                                raise Abort(f"{fn.key}: cannot resolve skops import {imp}")
                            if r[0] == "func":
                                into_calls.add(r[1])
                                if r[1].rsplit(".", 1)[-1] in SKOPS_RESOLVERS:
                                    pass
                            elif r[0] == "class":
                                into_calls.update(class_inits(r[1]))
                            elif r[0] == "ext":
                                e = ext_effect(r[1], fn, n.lineno)
                                if e:
                                    into_effects.add(e)
                            continue
                        if imp[0] == "skopsext":
                            # other skops packages (skops.utils ...): not part of the modelled universe
                            raise Abort(f"{fn.key} calls {imp[1]} (outside skops.io): not translated")
                        e = ext_effect(imp[1], fn, n.lineno)
                        if e:
                            into_effects.add(e)
                        continue
                    if name in local_import_names:
                        # function-local `from x import y`: find it
                        for m in ast.walk(fn.node):
                            if isinstance(m, ast.ImportFrom):
                                for a in m.names:
                                    if (a.asname or a.name) == name:
                                        src = m.module or ""
                                        if m.level > 0 or src.startswith("skops"):
                                            add_by_name(a.name)
                                        else:
                                            e = ext_effect(src + "." + a.name, fn, n.lineno)
                                            if e:
                                                into_effects.add(e)
                        continue
                    if name in EFFECT_BUILTINS:
                        if EFFECT_BUILTINS[name]:
                            into_effects.add(f"{EFFECT_BUILTINS[name]}:builtins.{name}")
                        continue
                    if name in PURE_BUILTINS or hasattr(builtins_mod, name):
                        continue
                    raise Abort(f"{fn.key} (line {n.lineno}) calls the unknown name {name!r}")
                elif isinstance(f, ast.Attribute):
                    base, parts = dotted_of(f)
                    attr = f.attr
                    handled_as_module = False
                    if base is not None and base not in locs and base not in ("self", "cls"):
                        imp = limports.get(base)
                        if imp is None and base in local_import_names:
                            imp = ("ext", base)
                        if imp is not None:
                            if imp[0] == "skops":
                                r = resolve_skops(imp[1], imp[2])
                                if r and r[0] == "mod" and len(parts) == 1:
                                    r2 = resolve_skops(r[1], attr)
                                    if r2 and r2[0] == "func":
                                        into_calls.add(r2[1]); handled_as_module = True
                                    elif r2 and r2[0] == "class":
                                        into_calls.update(class_inits(r2[1])); handled_as_module = True
                                elif r and r[0] == "class":
                                    # Cls.method(...) / Cls.attr.method(...)
                                    add_by_name(attr); handled_as_module = True
                            elif imp[0] == "ext":
                                e = ext_effect(imp[1] + "." + ".".join(parts), fn, n.lineno)
                                if e:
                                    into_effects.add(e)
                                handled_as_module = True
                    if handled_as_module:
                        continue
                    # a method on a receiver of unknown type
                    add_by_name(attr)
                    if attr in EFFECT_METHODS:
                        into_effects.add(f"{EFFECT_METHODS[attr]}:<any>.{attr}")
                    if attr in SKOPS_RESOLVERS:
                        into_effects.add(f"resolve:<any>.{attr}")
                else:
                    # call of a call result, subscript, lambda ...: treat as a local callable
                    into_calls.update(all_inits)
                    into_calls.update(escaping)

    def relabel_memory_writers(fn):
        """np.save / save_npz into a local io.BytesIO(), and writestr into the in-memory zip, do not touch the file system"""
        bio = bytesio_locals(fn.node)
        mem_ok = {}
        for c in ast.walk(fn.node):
            if isinstance(c, ast.Call):
                name = ast.unparse(c.func)
                last = name.split(".")[-1]
                if last in ("save", "save_npz", "savez"):
                    ok = bool(c.args) and isinstance(c.args[0], ast.Name) and c.args[0].id in bio
                    mem_ok[last] = mem_ok.get(last, True) and ok
                if last == "writestr":
                    ok = zip_in_memory and name.endswith("zip_file.writestr")
                    mem_ok[last] = mem_ok.get(last, True) and ok
        out = set()
        for e in fn.effects:
            kind, _, what = e.partition(":")
            last = what.split(".")[-1]
            if kind == "fs" and mem_ok.get(last) is True:
                out.add("mem:" + what)
            else:
                out.add(e)
        fn.effects = out

    funcs["_utils._get_state"].calls |= dispatch_funcs
    for key, fn in list(funcs.items()):
        analyse(fn, fn.node.body + fn.node.decorator_list + fn.node.args.defaults + [d for d in fn.node.args.kw_defaults if d is not None], fn.calls, fn.effects)
        if key.rsplit(".", 1)[-1] in SKOPS_RESOLVERS and fn.cls is None:
            fn.effects.add(f"resolve:{key}")
        relabel_memory_writers(fn)

    # every call site of a KWARGS_ATTR_OK function passes literal keywords only
    helper_keys = set(KWARGS_ATTR_OK) | {k for k in funcs if is_setattr_helper(k)}
    for key in sorted(helper_keys):
        if key not in funcs:
            continue
        parts = key.split(".")
        # function form: the function's own name; class form (Cls.__init__ / __enter__ / __exit__): the class name
        simple = parts[-2] if len(parts) >= 3 and parts[-1].startswith("__") else parts[-1]
        for mod, tree in mods.items():
            for n in ast.walk(tree):
                if isinstance(n, ast.Call) and ((isinstance(n.func, ast.Name) and n.func.id == simple) or (isinstance(n.func, ast.Attribute) and n.func.attr == simple)):
                    if any(k.arg is None for k in n.keywords):
                        raise Abort(f"{mod} line {n.lineno}: {simple}(**computed) -- attribute names are no longer literal")

    # reflection on live objects: whichmodule/_getattribute look a live object's __name__ up in the modules that are
    # ALREADY imported.  Accepted (relabelled reflect:) only in the exact shape in which the attribute name is the
    # object's own __name__ -- a string of the archive can then never reach them.
    def call_sites(simple):
        for mod, tree in mods.items():
            for top in ast.walk(tree):
                if isinstance(top, (ast.FunctionDef, ast.AsyncFunctionDef)):
                    for c in ast.walk(top):
                        if isinstance(c, ast.Call) and ((isinstance(c.func, ast.Name) and c.func.id == simple) or (isinstance(c.func, ast.Attribute) and c.func.attr == simple)):
                            yield f"{mod}.{top.name}", c
    if "_utils.whichmodule" in funcs:
        for where, c in call_sites("whichmodule"):
            shape_ok = (len(c.args) == 2 and not c.keywords and isinstance(c.args[0], ast.Name) and isinstance(c.args[1], ast.Attribute)
                        and c.args[1].attr == "__name__" and isinstance(c.args[1].value, ast.Name) and c.args[1].value.id == c.args[0].id)
            if not (where == "_utils.get_module" and shape_ok):
                raise Abort(f"whichmodule is called from {where} as {ast.unparse(c)}: the name is no longer the object's own __name__")
        for where, c in call_sites("_getattribute"):
            if where not in ("_utils.whichmodule",):
                raise Abort(f"_getattribute is called from {where}")
        for k in ("_utils.whichmodule", "_utils._getattribute"):
            if k in funcs:
                funcs[k].effects = {"reflect:" + e.split(":", 1)[1] for e in funcs[k].effects}

    # split load / loads at the audit, dump at the serialisation
    def calls_named(st, nm):
        return any(isinstance(c, ast.Call) and ((isinstance(c.func, ast.Name) and c.func.id == nm) or (isinstance(c.func, ast.Attribute) and c.func.attr == nm)) for c in ast.walk(st))

    def helper_holding(key, st, callee, depth=0):
        """a module-level function of the same module, called by name in statement `st`, whose body (or, to depth 3, the body
        of such a helper of its own) calls `callee`"""
        mod = key.rsplit(".", 1)[0]
        for c in ast.walk(st):
            if isinstance(c, ast.Call) and isinstance(c.func, ast.Name):
                hk = f"{mod}.{c.func.id}"
                if hk in funcs and hk != key and funcs[hk].cls is None and isinstance(funcs[hk].node, (ast.FunctionDef, ast.AsyncFunctionDef)):
                    body = funcs[hk].node.body
                    if any(calls_named(x, callee) for x in body) or (depth < 3 and any(helper_holding(hk, x, callee, depth + 1) for x in body)):
                        return hk
        return None

    def split_at(key, callee, forbidden_before=(), depth=0):
        """<key>@pre = the calls of function `key` up to and including its (unconditional, straight-line) call of `callee`,
        <key>@post = the rest.  When `key` does not call `callee` itself but a helper on its straight line does (load / loads
        sharing a private function that audits and constructs), the helper is split in the same way and <key>@pre ends with
        the call of <helper>@pre, <key>@post starts with <helper>@post."""
        if key not in funcs:
            raise Abort(f"{key} not found")
        if key + "@pre" in funcs:
            return key + "@pre"
        fn = funcs[key]
        flat = []

        def flatten(stmts):
            for st in stmts:
                if isinstance(st, (ast.With, ast.AsyncWith)):
                    flat.append(ast.Expr(value=ast.Tuple(elts=[i.context_expr for i in st.items], ctx=ast.Load())))
                    flatten(st.body)
                else:
                    flat.append(st)
        flatten(fn.node.body)
        idx = [i for i, st in enumerate(flat) if calls_named(st, callee)]
        if not idx:
            via = [(i, helper_holding(key, st, callee)) for i, st in enumerate(flat)]
            via = [(i, h) for i, h in via if h]
            if not via or depth > 3:
                raise Abort(f"{key}: no call of {callee} found -- the split point cannot be located")
            cut, hk = via[0]
            if isinstance(flat[cut], (ast.If, ast.For, ast.While, ast.Try)):
                raise Abort(f"{key}: {hk} (which calls {callee}) is called under a condition / in a loop")
            for i, st in enumerate(flat[:cut]):
                for bad in forbidden_before:
                    if calls_named(st, bad):
                        raise Abort(f"{key}: {bad}() is called before {callee} (statement {i})")
            hpre = split_at(hk, callee, forbidden_before, depth + 1)
            pre = Func(key + "@pre", fn.node, fn.mod, None)
            post = Func(key + "@post", fn.node, fn.mod, None)
            analyse(pre, flat[:cut + 1], pre.calls, pre.effects)
            analyse(post, flat[cut + 1:], post.calls, post.effects)
            if hk not in pre.calls:
                raise Abort(f"{key}: the call of {hk} was not resolved by the analysis")
            pre.calls.discard(hk)
            pre.calls.add(hpre)
            post.calls.add(hk + "@post")
            funcs[pre.key], funcs[post.key] = pre, post
            return pre.key
        cut = idx[0]
        if isinstance(flat[cut], (ast.If, ast.For, ast.While, ast.Try)):
            raise Abort(f"{key}: {callee} is called under a condition / in a loop")
        for i, st in enumerate(flat[:cut + 1]):
            for bad in forbidden_before:
                if calls_named(st, bad):
                    raise Abort(f"{key}: {bad}() is called before {callee} (statement {i})")
        pre = Func(key + "@pre", fn.node, fn.mod, None)
        post = Func(key + "@post", fn.node, fn.mod, None)
        analyse(pre, flat[:cut + 1], pre.calls, pre.effects)
        analyse(post, flat[cut + 1:], post.calls, post.effects)
        funcs[pre.key], funcs[post.key] = pre, post
        return pre.key

    entries = []
    for name in ("load", "loads"):
        entries.append(split_at(f"_persist.{name}", "audit_tree", forbidden_before=("construct", "_construct")))
    # C18: everything dump() does up to and including the serialisation into memory
    dump_entries = [split_at("_persist.dump", "_save")]
    for key in ("_persist.get_untrusted_types", "_visualize.visualize"):
        if key not in funcs:
            raise Abort(f"{key} not found")
        entries.append(key)
    return funcs, entries, dump_entries


def coq_str(s):
    assert all(32 <= ord(c) < 127 and c != '"' for c in s), s
    return f'"{s}"'


def reach(funcs, entries):
    seen, todo, parent = set(entries), list(entries), {}
    while todo:
        k = todo.pop()
        for c in sorted(funcs[k].calls) if k in funcs else ():
            if c not in seen:
                seen.add(c); parent[c] = k; todo.append(c)
    return seen, parent


def main(out_v, out_json):
    try:
        funcs, entries, dump_entries = scan()
    except Abort as e:
        print("ABORT: " + str(e), file=sys.stderr)
        sys.exit(2)
    lines = ["(* generated by harness/callgraph.py from the source of skops/io -- do not edit *)",
             "From Coq Require Import String List.", "Import ListNotations.", "Open Scope string_scope.", "",
             "Definition callgraph : list (string * (list string * list string)) := ["]
    rows = []
    for k in sorted(funcs):
        f = funcs[k]
        rows.append(f"  ({coq_str(k)}, ([{'; '.join(coq_str(c) for c in sorted(f.calls))}], [{'; '.join(coq_str(e) for e in sorted(f.effects))}]))")
    lines.append(";\n".join(rows))
    lines.append("].")
    lines.append("")
    lines.append(f"Definition entries : list string := [{'; '.join(coq_str(e) for e in entries)}].")
    # the code after the verdict, and the dump side, for the non-vacuity examples
    # a concrete call path from the code AFTER the verdict to a forbidden effect (the analysis is not blind)
    post_seen, post_parent = reach(funcs, ["_persist.load@post"])
    wit = None
    for k in sorted(post_seen):
        if k in funcs and any(not e.startswith("reflect:") for e in funcs[k].effects):
            wit = [k]
            while wit[-1] in post_parent:
                wit.append(post_parent[wit[-1]])
            wit = list(reversed(wit))[1:]
            break
    lines.append(f"Definition post_witness_path : list string := [{'; '.join(coq_str(e) for e in (wit or []))}].")
    seen, parent = reach(funcs, entries)
    lines.append(f"Definition reach_hint : list string := [{'; '.join(coq_str(e) for e in sorted(seen))}].")
    dseen, dparent = reach(funcs, dump_entries)
    lines.append(f"Definition dump_entries : list string := [{'; '.join(coq_str(e) for e in dump_entries)}].")
    lines.append(f"Definition dump_reach_hint : list string := [{'; '.join(coq_str(e) for e in sorted(dseen))}].")
    Path(out_v).write_text("\n".join(lines) + "\n")
    bad = []
    for k in sorted(seen):
        if k in funcs and any(not e.startswith("reflect:") for e in funcs[k].effects):
            path = [k]
            while path[-1] in parent:
                path.append(parent[path[-1]])
            bad.append({"function": k, "effects": sorted(funcs[k].effects), "path": list(reversed(path))})
    post_seen, _ = reach(funcs, ["_persist.load@post"])
    dump_effects = sorted({e for k in dseen if k in funcs for e in funcs[k].effects})
    info = {"dump_entries": dump_entries, "dump_reachable": len(dseen), "dump_effects_reachable": dump_effects,
            "edges_list": {k: sorted(f.calls) for k, f in funcs.items()},
            "reflect_reachable": sorted(k for k in seen if k in funcs and funcs[k].effects),
            "functions": len(funcs), "edges": sum(len(f.calls) for f in funcs.values()), "entries": entries,
            "reachable_before_verdict": len(seen), "effectful_reachable": bad,
            "effectful_functions": {k: sorted(f.effects) for k, f in funcs.items() if f.effects},
            "post_verdict_reaches_effects": sorted(k for k in post_seen if k in funcs and funcs[k].effects)[:10]}
    Path(out_json).write_text(json.dumps(info, indent=1))


if __name__ == "__main__":
    main(sys.argv[1], sys.argv[2])
