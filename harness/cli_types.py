"""Importable user classes for the CLI checks (pickles made by the harness must be
unpicklable in the subprocess that runs `skops convert`)."""


class Custom:
    def __init__(self, a=1, b=None):
        self.a = a
        self.b = b if b is not None else [1, 2]

    def __eq__(self, other):
        return type(other) is type(self) and self.__dict__ == other.__dict__

    __hash__ = None


class Other:
    def __init__(self, x=0.5):
        self.x = x

    def __eq__(self, other):
        return type(other) is type(self) and self.__dict__ == other.__dict__

    __hash__ = None


class RaisesOnGetstate:
    """Cannot be persisted by skops (nor pickled): __getstate__ raises."""

    def __getstate__(self):
        raise RuntimeError("state not available")


def _raiser(exc_type):
    class _R:
        """Cannot be persisted: __getstate__ raises an exception of a class that control flow elsewhere may swallow
        (StopIteration ends a map()/next() loop, KeyError / AttributeError / TypeError are caught by duck-typing code)."""

        def __getstate__(self):
            raise exc_type("state not available")
    _R.__name__ = _R.__qualname__ = "RaisesOnGetstate_" + exc_type.__name__
    return _R


RaisesOnGetstate_StopIteration = _raiser(StopIteration)
RaisesOnGetstate_KeyError = _raiser(KeyError)
RaisesOnGetstate_AttributeError = _raiser(AttributeError)
RaisesOnGetstate_TypeError = _raiser(TypeError)


class RaisesOnReduce:
    def __reduce__(self):
        raise RuntimeError("reduce not available")
