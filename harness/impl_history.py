"""C20 runner: the same operations first, after a history of other calls, and from concurrent threads.
stdin {"ops": [...], "history": [...], "threads": n, "seed": s, "only": optional index}  ->  JSON"""
from __future__ import annotations

import contextlib
import hashlib
import io
import json
import os
import random
import sys
import threading
import warnings
import zipfile
from pathlib import Path

sys.path.insert(0, str(Path(__file__).resolve().parent))
sys.path.insert(0, str(Path(__file__).resolve().parent / "canary"))
warnings.simplefilter("ignore")


def h(x):
    return hashlib.sha256(json.dumps(x, sort_keys=True, default=str).encode()).hexdigest()[:16]


def make_card(spec):
    from skops.card import Card
    card = Card(None, template=None)
    out = []
    for op in spec:
        try:
            if op[0] == "add":
                card.add(folded=op[2], **op[1])
            elif op[0] == "metrics":
                card.add_metrics(**op[1])
            elif op[0] == "table":
                card.add_table(**{op[1]: op[2]})
            elif op[0] == "delete":
                card.delete(op[1])
            elif op[0] == "flag":
                setattr(card.select(op[1]), op[2], op[3])
            out.append("ok")
        except Exception as e:
            out.append("exc:" + type(e).__name__)
    return card, out


_MODEL_FILE = None


def model_file():
    """a skops file holding a user object (values.Plain: not trusted by default), written once per process"""
    global _MODEL_FILE
    if _MODEL_FILE is None:
        import tempfile
        import skops.io as sio
        from values import build
        d = tempfile.mkdtemp(prefix="c20model_")
        _MODEL_FILE = os.path.join(d, "model.skops")
        sio.dump(build(["userobj", "Plain", [["a", ["int", 1]], ["w", ["ndarray", "<f8", [3], "C", 1, False]]]]), _MODEL_FILE)
    return _MODEL_FILE


def run_op(op):
    import skops.io as sio
    from absval import fingerprint
    from impl_codec import norm_schema
    from impl_io import build_zip, exc_enum
    from values import build
    kind = op[0]
    try:
        if kind == "dumps":
            data = sio.dumps(build(op[1]))
            with zipfile.ZipFile(io.BytesIO(data)) as z:
                names = [n for n in z.namelist() if n != "schema.json"]
                schema = json.loads(z.read("schema.json"))
            s, m = norm_schema(schema, names)
            return ["dumps", h(s), m]
        if kind == "after_failed_dump":
            # a dump that fails after members were written, then a dump of an object sharing those very arrays
            shared = build(op[1])
            try:
                sio.dumps([shared, (i for i in range(2))])
                return ["after_failed_dump", "first dump unexpectedly succeeded"]
            except Exception:
                pass
            data = sio.dumps(shared)
            back = sio.loads(data, trusted=sio.get_untrusted_types(data=data))
            return ["after_failed_dump", "same" if fingerprint(back) == fingerprint(shared) else "DIFFERENT"]
        if kind == "roundtrip":
            data = sio.dumps(build(op[1]))
            gut = sio.get_untrusted_types(data=data)
            return ["roundtrip", gut, h(fingerprint(sio.loads(data, trusted=gut)))]
        if kind == "card":
            card, outs = make_card(op[1])
            return ["card", outs, card.render(), card.get_toc()]
        if kind == "card_file":
            # a card over a model FILE holding a type that is not trusted by default: what get_model() gives depends on the
            # `trusted` argument of THIS card only, never on which cards were made of the same file before
            from skops.card import Card
            path = model_file()
            card = Card(path, template=None, model_diagram=False, trusted=op[1])
            m = card.get_model()
            if len(op) > 2 and op[2] == "mutate":
                m.a = "changed-by-one-card"
            return ["card_file", h(fingerprint(m))]
        data = build_zip(op[1]["schema"], op[1]["members"])
        if kind == "gut":
            return ["gut", sio.get_untrusted_types(data=data)]
        if kind == "vis":
            # a recording sink: sys.stdout is process-global, so capturing the printer's output is not thread-safe
            rows = []
            sio.visualize(data, show=op[2], trusted=op[3],
                          sink=lambda nodes, show, **kw: rows.extend(f"{r.level}|{r.key}|{r.val}|{int(r.is_self_safe)}{int(r.is_safe)}{int(r.is_last)}" for r in nodes))
            return ["vis", rows]
        if kind == "loads":
            obj = sio.loads(data, trusted=op[2])
            return ["loads", h(fingerprint(obj))]
    except Exception as e:
        return [kind, "exc:" + (exc_enum(e) if kind in ("gut", "vis", "loads") else type(e).__name__)]
    raise ValueError(kind)


# ---------------------------------------------------------------------------------------------------------------
# Forced interleavings: skops calls back into user objects (str() of table cells and metric values, __getstate__ while
# dumping, __setstate__ while loading).  A Gate inside such a callback holds every thread until all of them are INSIDE
# the same skops function, which is exactly the schedule under which state shared between calls shows -- without
# relying on the interpreter to preempt at the right bytecode.
class Gate:
    def __init__(self, parties):
        self.b = threading.Barrier(parties)

    def wait(self):
        try:
            self.b.wait(timeout=1.5)
        except threading.BrokenBarrierError:
            try:
                self.b.reset()
            except Exception:
                pass


GATE = None


class GateCell:
    """a table cell / metric value whose text is taken while the other thread is inside the same formatter"""

    def __init__(self, text):
        self.text = text

    def __str__(self):
        if GATE is not None:
            GATE.wait()
        return self.text

    __repr__ = __str__


class GateState:
    """an object whose state is taken (dump) / restored (load) while the other thread is in the middle of its own call"""

    def __init__(self, payload):
        self.payload = payload

    def __getstate__(self):
        if GATE is not None:
            GATE.wait()
        return {"payload": self.payload}

    def __setstate__(self, st):
        if GATE is not None:
            GATE.wait()
        self.__dict__.update(st)


OTHERS_DONE = None      # threading.Event: set when every thread but the last has RETURNED from its skops call


class AfterOthersReturned:
    """an object whose state is taken only after the other threads' calls have returned: the schedule
    enter A, enter B, exit A, B goes on -- under which state that A restores on exit while B still relies on it shows"""

    def __init__(self, payload):
        self.payload = payload

    def __getstate__(self):
        if GATE is not None and OTHERS_DONE is not None:
            OTHERS_DONE.wait(timeout=3)
        return {"payload": self.payload}


def nested_list(depth, leaf):
    x = leaf
    for _ in range(depth):
        x = [x]
    return x


def forced_scenarios(k):
    """scenario name -> function of the thread index; each returns a canonical, thread-specific result"""
    import numpy as np
    import skops.io as sio
    from absval import fingerprint
    from impl_codec import norm_schema
    from skops.card import Card

    def card_tables(t):
        c = Card(None, template=None)
        c.add_table(**{"T": {f"variant {t}": [GateCell(f"a{t}"), f"b{t}", GateCell(f"c{t}")], f"score {t}": [t, t + 0.5, GateCell(f"z{t}")]}})
        c.add_metrics(**{f"m{t}": GateCell(f"{t}.5"), "acc": t})
        c.add(**{f"S{t}": f"text {t}", f"S{t}/sub": "x"})
        return [c.render(), c.get_toc(), repr(c)]

    def dumps_objects(t):
        obj = {"arr": np.arange(3 + t, dtype="<f8"), "gate": GateState(np.arange(5, dtype="<i8") * (t + 1)), "raw": bytes([t + 1]) * 4,
               "after": [np.ones(2 + t), GateState([t, "x"])]}
        data = sio.dumps(obj)
        with zipfile.ZipFile(io.BytesIO(data)) as z:
            names = [n for n in z.namelist() if n != "schema.json"]
            schema = json.loads(z.read("schema.json"))
            contents = sorted(hashlib.sha256(z.read(n)).hexdigest()[:12] for n in names)
        sc, m = norm_schema(schema, names)
        return [h(sc), m, contents]

    def dumps_overlap_exit(depth):
        # the last thread is still inside ITS ONE dumps call (held at AfterOthersReturned) when the others return; what it
        # serialises afterwards is nested far below (40) or above (350 / 420 levels, three frames each) the interpreter's
        # default recursion limit, so the outcome does not depend on how deep the calling stack already is (deeper nestings
        # fail in the C json encoder whatever the limit is, which would hide a limit that is changed under a running call)
        def fn(t):
            if t < k - 1:
                return [_dump_outcome(sio, {"gate": GateState(np.arange(3) + t), "n": t})]
            return [_dump_outcome(sio, [GateState([t, depth]), AfterOthersReturned(depth), nested_list(depth, np.arange(2))])]
        return fn

    pre = {}

    def loads_objects(t):
        data = pre[t]
        back = sio.loads(data, trusted=sio.get_untrusted_types(data=data))
        return [h(fingerprint(back))]

    def prepare_loads():
        global GATE
        g, GATE = GATE, None
        for t in range(k):
            pre[t] = sio.dumps({"a": GateState(np.arange(4) + t), "b": [GateState({"k": t}), np.zeros(t + 1)]})
        GATE = g
    return {"dumps-overlap-exit-deep350": (dumps_overlap_exit(350), None), "dumps-overlap-exit-deep420": (dumps_overlap_exit(420), None),
            "dumps-overlap-exit-shallow": (dumps_overlap_exit(40), None),
            "card-tables": (card_tables, None), "dumps-getstate": (dumps_objects, None), "loads-setstate": (loads_objects, prepare_loads)}


def interpreter_state():
    """process-wide interpreter settings a library call has no business changing"""
    import warnings
    return {"recursionlimit": sys.getrecursionlimit(), "switchinterval": sys.getswitchinterval(), "cwd": os.getcwd(),
            "sys.path": [x for x in sys.path if not str(x).startswith(str(Path(__file__).resolve().parent))],   # the harness adds its own directories "environ": hashlib.sha256(repr(sorted(os.environ.items())).encode()).hexdigest()[:12],
            "warnings.filters": len(warnings.filters), "umask": _umask(), "stdout": id(sys.stdout), "excepthook": id(sys.excepthook)}


def _umask():
    m = os.umask(0)
    os.umask(m)
    return m


def _dump_outcome(sio, obj):
    try:
        data = sio.dumps(obj)
    except RecursionError:
        return "exc:RecursionError"
    except Exception as e:  # noqa
        return "exc:" + type(e).__name__ + ":" + str(e)[:80]
    with zipfile.ZipFile(io.BytesIO(data)) as z:
        return "ok:members=%d" % (len(z.namelist()) - 1)


def _in_thread(fn, *a):
    """run fn in a thread of its own (the same stack depth as the interleaved runs) and hand back its result"""
    box = []

    def w():
        try:
            box.append(fn(*a))
        except Exception as e:  # noqa
            box.append(["exc:" + type(e).__name__ + ":" + str(e)[:120]])
    th = threading.Thread(target=w)
    th.start()
    th.join()
    return box[0] if box else None


def forced_interleavings(parties=2, rounds=3):
    global GATE
    out = []
    sc = forced_scenarios(parties)
    for name, (fn, prep) in sc.items():
        GATE = None
        st0 = interpreter_state()
        if prep:
            prep()
        global OTHERS_DONE
        OTHERS_DONE = None
        want = [_in_thread(fn, t) for t in range(parties)]     # sequential, no gate, each in a thread of its own
        for rnd_i in range(rounds):
            GATE = Gate(parties)
            OTHERS_DONE = threading.Event()
            got = [None] * parties
            returned = []

            def worker(t):
                try:
                    got[t] = fn(t)
                except Exception as e:  # noqa
                    got[t] = ["exc:" + type(e).__name__ + ":" + str(e)[:120]]
                finally:
                    returned.append(t)
                    if len([x for x in returned if x != parties - 1]) >= parties - 1:
                        OTHERS_DONE.set()
            ths = [threading.Thread(target=worker, args=(t,)) for t in range(parties)]
            for th in ths:
                th.start()
            for th in ths:
                th.join()
            GATE = None
            OTHERS_DONE = None
            if got != want:
                bad = [t for t in range(parties) if got[t] != want[t]]
                out.append({"scenario": name, "round": rnd_i, "thread": bad[0], "sequential": str(want[bad[0]])[:400], "interleaved": str(got[bad[0]])[:400]})
                break
        else:
            out.append({"scenario": name, "ok": True})
        st1 = interpreter_state()
        if st1 != st0:
            # overlapping calls left process-wide interpreter state changed (a later call, or the user's own code, now runs
            # under other settings than a fresh process would): reported, then put back so that every scenario starts alike
            ch = {k_: [st0[k_], st1[k_]] for k_ in st0 if st0[k_] != st1[k_]}
            out.append({"scenario": name + "/process-state", "round": 0, "thread": 0, "sequential": str({k_: v[0] for k_, v in ch.items()}),
                        "interleaved": str({k_: v[1] for k_, v in ch.items()})})
            if "recursionlimit" in ch:
                sys.setrecursionlimit(st0["recursionlimit"])
    return out


def rebinding_probe():
    """A call's result depends only on its arguments -- and on what its arguments' names MEAN when the call is made: a class
    that is rebound between two calls (importlib.reload, a re-run notebook cell, a class factory run again) must be
    resolved afresh by the second load."""
    import types
    import skops.io as sio
    mod = types.ModuleType("verif_dyn_mod")
    sys.modules["verif_dyn_mod"] = mod
    out = []
    try:
        for version in (1, 2, 3):
            exec(f"class K:\n    version = {version}\n    def __init__(self, x=0):\n        self.x = x\n    def describe(self):\n        return 'K v{version}'\n"
                 f"def f(v):\n    return ('f v{version}', v)\n", mod.__dict__)
            mod.K.__module__ = "verif_dyn_mod"
            mod.f.__module__ = "verif_dyn_mod"
            obj = {"inst": mod.K(version), "fn": mod.f, "cls": mod.K}
            data = sio.dumps(obj)
            back = sio.loads(data, trusted=sio.get_untrusted_types(data=data))
            ok = (type(back["inst"]) is mod.K and back["inst"].describe() == f"K v{version}" and back["fn"] is mod.f and back["cls"] is mod.K
                  and back["inst"].x == version)
            out.append([version, ok, back["inst"].describe() if hasattr(back["inst"], "describe") else None, getattr(back["cls"], "version", None)])
    finally:
        sys.modules.pop("verif_dyn_mod", None)
    return out


def module_state():
    from skops.io import _audit, _trusted_types, _utils
    from skops.card import _model_card, _markup
    st = {
        "NODE_TYPE_MAPPING": sorted((k[0], k[1], v.__module__ + "." + v.__qualname__) for k, v in _audit.NODE_TYPE_MAPPING.items()),
        "dispatch": sorted(f"{t.__module__}.{t.__qualname__}->{f.__name__}" for t, f in _utils._get_state.registry.items()),
    }
    for name in dir(_trusted_types):
        v = getattr(_trusted_types, name)
        if isinstance(v, list):
            st["trusted:" + name] = h(v)
    import sys as _sys
    import inspect
    # every module-level container and every class-level container of every skops module
    for mname, mod in sorted(_sys.modules.items()):
        if not (mname == "skops" or mname.startswith("skops.")) or mod is None or ".tests" in mname:
            continue
        for name, v in list(vars(mod).items()):
            if name.startswith("__"):
                continue
            if isinstance(v, (list, dict, set)):
                try:
                    st[f"{mname}.{name}"] = h(sorted(map(repr, v)) if not isinstance(v, dict) else sorted(map(repr, v.items())))
                except Exception:
                    st[f"{mname}.{name}"] = "unhashable:%d" % len(v)
            elif inspect.isclass(v) and getattr(v, "__module__", None) == mname:
                for an, av in list(vars(v).items()):
                    if isinstance(av, (list, dict, set)) and not an.startswith("__"):
                        st[f"{mname}.{v.__name__}.{an}"] = h(sorted(map(repr, av)) if not isinstance(av, dict) else sorted(map(repr, av.items())))
    return st


def main():
    req = json.load(sys.stdin)
    real_stdout = sys.stdout
    sys.stdout = sys.stderr
    ops = req["ops"]
    if req.get("only") is not None:
        # the first call in a fresh process
        json.dump({"first": run_op(ops[req["only"]])}, real_stdout, default=str)
        return
    import skops.io  # noqa
    import skops.card  # noqa
    s0 = module_state()
    i0 = interpreter_state()
    r1 = [run_op(op) for op in ops]
    rnd = random.Random(req["seed"])
    for op in req["history"]:
        run_op(op)
    order = list(range(len(ops)))
    rnd.shuffle(order)
    r2 = [None] * len(ops)
    for i in order:
        r2[i] = run_op(ops[i])
    # concurrently
    nthreads = req.get("threads", 8)
    results = [[None] * len(ops) for _ in range(nthreads)]
    barrier = threading.Barrier(nthreads)
    old = sys.getswitchinterval()
    sys.setswitchinterval(1e-6)

    def worker(t):
        o = list(range(len(ops)))
        random.Random(req["seed"] + t).shuffle(o)
        barrier.wait()
        for i in o:
            results[t][i] = run_op(ops[i])
    ths = [threading.Thread(target=worker, args=(t,)) for t in range(nthreads)]
    for t in ths:
        t.start()
    for t in ths:
        t.join()
    sys.setswitchinterval(old)
    # process-wide interpreter state after the sequential history and the 8-thread phase: as in a fresh process
    i1 = interpreter_state()
    drift = []
    if i1 != i0:
        ch = {k_: [i0[k_], i1[k_]] for k_ in i0 if i0[k_] != i1[k_]}
        drift.append({"scenario": "history+threads/process-state", "round": 0, "thread": 0, "sequential": str({k_: v[0] for k_, v in ch.items()}),
                      "interleaved": str({k_: v[1] for k_, v in ch.items()})})
        if "recursionlimit" in ch:
            sys.setrecursionlimit(i0["recursionlimit"])     # every forced scenario starts from the fresh-process settings
    forced = drift + forced_interleavings(2, 3) + [dict(x, parties=3) for x in forced_interleavings(3, 1)]
    rebound = rebinding_probe()
    s1 = module_state()
    # separate Card instances never share sections or metrics
    from skops.card import Card
    c1, c2 = Card(None, template=None), Card(None, template=None)
    before = (c2.render(), c2.get_toc(), repr(getattr(c2, "_metrics", None)))
    c1.add(A="a", **{"A/B": "b"})
    c1.add_metrics(acc=0.9)
    c1.add_table(**{"T": {"x": [1]}})
    after = (c2.render(), c2.get_toc(), repr(getattr(c2, "_metrics", None)))
    json.dump({"first": r1, "after_history": r2, "threads": results, "module_state_changed": {k: [s0.get(k), s1.get(k)] for k in set(s0) | set(s1) if s0.get(k) != s1.get(k)},
               "forced": forced, "rebound": rebound, "cards_independent": before == after, "card_before_after": [before, after]}, real_stdout, default=str)


if __name__ == "__main__":
    main()
