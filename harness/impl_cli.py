"""Implementation-side runner for the CLI / dump sequencing checks (C16, C17, C18).

Runs ONE request in a fresh interpreter: JSON on stdin -> JSON on stdout.
Everything is observed from outside the code under test:

* `sys.addaudithook`: open / os.rename (also os.replace) / os.remove (also unlink) / os.mkdir /
  os.rmdir / os.truncate / os.link / os.symlink / os.chmod / os.utime ... restricted to the
  scratch roots of the case and abstracted to the model's alphabet
  (W = open O_WRONLY|O_CREAT|O_TRUNC, R = open read-only, mv, rm, mkdir, rmdir; anything
  else that mutates is reported as `other:<event>` and can never match the model);
* at every such event - i.e. just before it executes - the complete state of the scratch
  roots (directory listing + content token of every file);
* log records (sys.stderr of the logging handler), exception class;
* crash injection: `os._exit` from the audit hook before the k-th event, or inside the
  j-th write (a proxy file object writes a prefix, flushes and dies; os.sendfile is wrapped the
  same way for shutil's fast copy).

Paths are rendered relative to the roots: <scratch>/S -> "/S", <xscratch>/X -> "/X";
mkdtemp's random names -> "T".
"""
from __future__ import annotations

import builtins
import hashlib
import io
import json
import os
import re
import sys
import warnings
import zipfile

warnings.simplefilter("ignore")

TMPNAME = re.compile(r"^tmp[a-z0-9_]{8}$")
PROBENAME = re.compile(r"^[a-z0-9_]{8}$")
LOGLINE = re.compile(r"^(DEBUG|INFO|WARNING|ERROR|CRITICAL)\s*: (.*)$", re.S)
NEW_TOKEN = [9, 9, 9, 9]
MUTATING_EVENTS = {
    "os.truncate", "os.link", "os.symlink", "os.chmod", "os.chown", "os.utime", "os.mkfifo", "os.mknod",
    "os.setxattr", "os.removexattr", "os.chflags", "os.lchown", "os.lchmod",
}
INFORMATIVE = ("shutil.", "tempfile.", "os.scandir", "os.listdir", "os.walk", "os.listxattr", "os.getxattr", "glob.")


def sha(b: bytes) -> str:
    return hashlib.sha256(b).hexdigest()


def zip_entries(b: bytes):
    """Canonical digest of a COMPLETE skops zip archive, else None.  Zip timestamps are ignored;
    `__id__` values (memory addresses) and member file names (derived from id(obj) / uuid4) are
    renumbered in order of first occurrence in schema.json."""
    try:
        with zipfile.ZipFile(io.BytesIO(b)) as z:
            if z.testzip() is not None:
                return None
            names = z.namelist()
            if "schema.json" not in names:
                return {"members": sorted(sha(z.read(n)) for n in names)}
            schema = json.loads(z.read("schema.json"))
            ids, files = {}, {}

            def walk(j):
                if isinstance(j, dict):
                    out = {}
                    for k, v in j.items():
                        if k == "__id__" and isinstance(v, int):
                            out[k] = ids.setdefault(v, len(ids))
                        elif k == "file" and isinstance(v, str) and v in names:
                            out[k] = files.setdefault(v, f"<member {len(files)}>")
                        else:
                            out[k] = walk(v)
                    return out
                if isinstance(j, list):
                    return [walk(x) for x in j]
                return j

            canon = json.dumps(walk(schema))
            members = [sha(z.read(n)) for n in files] + sorted(sha(z.read(n)) for n in names
                                                               if n != "schema.json" and n not in files)
            return {"schema": sha(canon.encode()), "members": members}
    except Exception:
        return None


PREFIXES = []   # (bytes, token): known contents a file object sink may be appended to


def token_of(b: bytes, known: dict, new_entries) -> list:
    h = sha(b)
    if h in known:
        return known[h]
    for pb, tok in PREFIXES:
        if len(b) > len(pb) and b.startswith(pb):
            return tok + token_of(b[len(pb):], known, new_entries)
    if new_entries is not None and zip_entries(b) == new_entries:
        return NEW_TOKEN
    if len(b) == 0:
        return []
    return [0]


class Namer:
    """scratch-relative, random-name-free rendering of real paths"""

    def __init__(self, roots):
        self.roots = [(os.path.abspath(r), tag) for r, tag in roots]
        self.alias = {}

    def comp(self, c, parent_is_tmp):
        if TMPNAME.match(c):
            if c not in self.alias:
                n = sum(1 for v in self.alias.values() if v.startswith("T"))
                self.alias[c] = "T" if n == 0 else f"T{n + 1}"
            return self.alias[c]
        if parent_is_tmp and PROBENAME.match(c):
            self.alias.setdefault(c, "P")
            return self.alias[c]
        return c

    def render(self, real):
        for root, tag in self.roots:
            if real == root or real.startswith(root + "/"):
                comps = [c for c in real[len(root):].split("/") if c]
                out = []
                for i, c in enumerate(comps):
                    out.append(self.comp(c, i > 0 and comps[i - 1] == "tmp"))
                return tag + "".join("/" + c for c in out)
        return None


def real_of(p, dir_fd=None):
    if isinstance(p, int):
        p = os.readlink(f"/proc/self/fd/{p}")
    p = os.fsdecode(p)
    if dir_fd is not None and isinstance(dir_fd, int) and dir_fd >= 0 and not os.path.isabs(p):
        p = os.path.join(os.readlink(f"/proc/self/fd/{dir_fd}"), p)
    return os.path.normpath(os.path.join(os.getcwd(), p))


def state_of(namer, known, new_entries):
    files, dirs = {}, {"/"}
    for root, tag in namer.roots:
        if not os.path.isdir(root):
            continue
        for dp, dns, fns in os.walk(root):
            dirs.add(namer.render(dp))
            for f in fns:
                fp = os.path.join(dp, f)
                try:
                    with open(fp, "rb") as fh:
                        files[namer.render(fp)] = token_of(fh.read(), known, new_entries)
                except OSError:
                    files[namer.render(fp)] = [0]
    return files, sorted(dirs, key=lambda d: tuple(d.split("/")[1:]) if d != "/" else ())


def pkey(p):
    return tuple(c for c in p.split("/") if c)


def show_state(files, dirs):
    """same text as the model's show_fs"""
    fs = "".join(f"{p}={','.join(map(str, files[p]))};" for p in sorted(files, key=pkey))
    ds = "".join(f"{d};" for d in sorted(dirs, key=pkey))
    return fs + "|" + ds


class CrashingFile:
    """file object that dies inside its first write (process death mid-write)"""

    def __init__(self, f, frac, tracer):
        self._f, self._frac, self._tracer = f, frac, tracer
        tracer.crash_fds.add(f.fileno())

    def write(self, b):
        mv = memoryview(b).cast("B")
        n = min(len(mv), max(0, int(len(mv) * self._frac)))
        self._f.write(mv[:n])
        self._f.flush()
        os._exit(77)

    def __getattr__(self, a):
        return getattr(self._f, a)

    def __enter__(self):
        return self

    def __exit__(self, *a):
        return self._f.__exit__(*a)


class Tracer:
    def __init__(self, roots, known, new_entries=None, crash=None, log_events=False, scrub=()):
        self.namer = Namer(roots)
        self.known, self.new_entries = known, new_entries
        self.crash = crash or {}
        self.log_events = log_events
        self.scrub = scrub
        self.armed = False
        self.busy = False
        self.timeline = []
        self.logs = []
        self.other_stderr = []
        self.info = {}
        self.errors = []
        self.nwrite = 0
        self.crash_fds = set()
        self._buf = ""
        sys.addaudithook(self.hook)

    # -- observation -----------------------------------------------------
    def snapshot(self):
        files, dirs = state_of(self.namer, self.known, self.new_entries)
        return show_state(files, dirs)

    def visible(self, text):
        if self.crash.get("at_event") == len(self.timeline):
            os._exit(77)
        self.timeline.append({"ev": text, "before": self.snapshot()})

    def count(self, k):
        self.info[k] = self.info.get(k, 0) + 1

    def hook(self, event, args):
        if not self.armed or self.busy:
            return
        self.busy = True
        try:
            self._hook(event, args)
        except BaseException as e:  # an exception here would alter the program under observation
            self.errors.append(f"{event}: {e!r}")
        finally:
            self.busy = False

    def _hook(self, event, args):
        if event == "open":
            path, _mode, flags = args
            real = real_of(path)
            cp = self.namer.render(real)
            if cp is None:
                return
            flags = flags or 0
            if flags & os.O_ACCMODE == os.O_RDONLY and not (flags & (os.O_CREAT | os.O_TRUNC)):
                if os.path.isdir(real):
                    self.count("diropen")
                    return
                self.visible("R " + cp)
            elif (flags & os.O_TRUNC) and (flags & os.O_CREAT) and not (flags & (os.O_EXCL | os.O_APPEND)):
                self.visible("W " + cp)
            else:
                names = [n for n in ("O_RDWR", "O_WRONLY", "O_CREAT", "O_TRUNC", "O_EXCL", "O_APPEND")
                         if flags & getattr(os, n)]
                self.visible("other:open(" + "|".join(names) + ") " + cp)
        elif event == "os.rename":
            a = self.namer.render(real_of(args[0], args[2] if len(args) > 2 else None))
            b = self.namer.render(real_of(args[1], args[3] if len(args) > 3 else None))
            if a or b:
                self.visible(f"mv {a or '<outside>'} {b or '<outside>'}")
        elif event in ("os.remove", "os.rmdir", "os.mkdir"):
            dir_fd = args[-1] if len(args) > 1 else None
            cp = self.namer.render(real_of(args[0], dir_fd))
            if cp:
                self.visible({"os.remove": "rm ", "os.rmdir": "rmdir ", "os.mkdir": "mkdir "}[event] + cp)
        elif event in MUTATING_EVENTS:
            try:
                cp = self.namer.render(real_of(args[0]))
            except Exception:
                cp = None
            if cp:
                self.visible(f"other:{event} {cp}")
        elif event.startswith(INFORMATIVE):
            self.count(event)

    # -- log capture (the logging StreamHandler writes to sys.stderr) ------
    def write(self, s):
        self._buf += s
        while "\n" in self._buf:
            line, self._buf = self._buf.split("\n", 1)
            m = LOGLINE.match(line)
            if not m:
                self.other_stderr.append(line)
                continue
            text = m.group(2)
            for real, tag in self.scrub:
                text = text.replace(real, tag)
            rec = {"level": m.group(1), "text": text, "at": len(self.timeline)}
            self.logs.append(rec)
            if self.log_events and self.armed and not self.busy:
                self.busy = True
                try:
                    self.timeline.append({"ev": f"log {m.group(1)} {text}", "before": self.snapshot()})
                finally:
                    self.busy = False
        return len(s)

    def flush(self):
        pass

    # -- crash inside a write ---------------------------------------------
    def open_wrapper(self, file, mode="r", *a, **k):
        f = self._real_open(file, mode, *a, **k)
        if self.armed and not self.busy and isinstance(mode, str) and any(c in mode for c in "wax+"):
            self.busy = True
            try:
                cp = self.namer.render(real_of(file))
            except Exception:
                cp = None
            finally:
                self.busy = False
            if cp is not None:
                idx = self.nwrite
                self.nwrite += 1
                if self.crash.get("in_write") == idx:
                    return CrashingFile(f, self.crash.get("frac", 0.5), self)
        return f

    def sendfile_wrapper(self, out_fd, in_fd, offset, count, *a, **k):
        if out_fd in self.crash_fds:
            size = os.fstat(in_fd).st_size
            n = max(0, int(size * self.crash.get("frac", 0.5)))
            if n:
                self._real_sendfile(out_fd, in_fd, offset, n)
            os._exit(77)
        return self._real_sendfile(out_fd, in_fd, offset, count, *a, **k)

    def run(self, fn):
        """call fn() under observation; returns (exception class name | None, message)"""
        old_err = sys.stderr
        sys.stderr = self
        if "in_write" in self.crash:
            self._real_open = builtins.open
            builtins.open = self.open_wrapper
            io.open = self.open_wrapper
            if hasattr(os, "sendfile"):
                self._real_sendfile = os.sendfile
                os.sendfile = self.sendfile_wrapper
        self.armed = True
        exc = None
        try:
            fn()
        except BaseException as e:  # SystemExit from argparse included
            exc = (type(e).__name__, str(e)[:300])
            self.last_exc = e
        finally:
            self.armed = False
            sys.stderr = old_err
            if "in_write" in self.crash:
                builtins.open = self._real_open
                io.open = self._real_open
                if hasattr(os, "sendfile"):
                    os.sendfile = self._real_sendfile
        return exc


# ----------------------------------------------------------------------------
# values
def make_value(name):
    import numpy as np
    if name == "dictarr":
        return {"a": [1, 2, 3], "b": np.arange(6, dtype="int32").reshape(2, 3), "c": ("x", 2.5, None)}
    if name == "nested":
        return [{"k": [1.5, (2, "z")], "m": {"n": np.array([0.25, 0.5])}}, (True, None, b"by"), [[], {}]]
    if name == "list":
        return [1, "two", 3.0, None, [4, 5]]
    if name == "array":
        return np.linspace(0, 1, 7).reshape(7, 1)
    if name == "logreg":
        from sklearn.linear_model import LogisticRegression
        X = np.array([[0.0, 1.0], [1.0, 0.0], [0.2, 0.9], [0.9, 0.1]])
        return LogisticRegression(C=2.0).fit(X, [0, 1, 0, 1])
    if name == "custom":
        import cli_types
        return {"model": cli_types.Custom(3, [np.arange(3)]), "n": 1}
    if name == "custom2":
        import cli_types
        return [cli_types.Other(0.25), cli_types.Custom(1), range(4)]
    if name == "birch":
        from sklearn.cluster import Birch
        return {"ok": [1, 2], "est": Birch(n_clusters=2)}
    if name == "complex":
        return [1, 2, {"z": 1j}]
    if name == "dok":
        import scipy.sparse as sp
        return ("m", sp.dok_matrix((2, 2)))
    raise KeyError(name)


def canon_obj(o, depth=0):
    """structural fingerprint used to decide 'loads to an equal object'"""
    import numpy as np
    if depth > 12:
        return "<deep>"
    if isinstance(o, np.ndarray):
        return ["nd", str(o.dtype), list(o.shape), canon_obj(o.tolist(), depth + 1)]
    if isinstance(o, np.generic):
        return ["npscalar", str(o.dtype), repr(o.item())]
    if isinstance(o, (bool, int, str, bytes, type(None))):
        return [type(o).__name__, repr(o)]
    if isinstance(o, float):
        return ["float", o.hex()]
    if isinstance(o, (list, tuple)):
        return [type(o).__name__, [canon_obj(x, depth + 1) for x in o]]
    if isinstance(o, dict):
        return ["dict", [[canon_obj(k, depth + 1), canon_obj(v, depth + 1)] for k, v in o.items()]]
    if isinstance(o, (range, slice)):
        return [type(o).__name__, repr(o)]
    if hasattr(o, "__dict__"):
        return ["obj", type(o).__module__ + "." + type(o).__qualname__,
                [[k, canon_obj(v, depth + 1)] for k, v in sorted(vars(o).items())]]
    return ["repr", repr(o)]


def make_archive(path, value, proto):
    """dump `value`, then relabel schema.json's protocol (how the test-suite fabricates old files)"""
    import skops.io as sio
    data = sio.dumps(value)
    zin = zipfile.ZipFile(io.BytesIO(data))
    with zipfile.ZipFile(path, "w") as zo:
        for n in zin.namelist():
            b = zin.read(n)
            if n == "schema.json":
                j = json.loads(b)
                j["protocol"] = proto
                b = json.dumps(j, indent=2).encode()
            zo.writestr(n, b)


# ----------------------------------------------------------------------------
def layout(req):
    S = os.path.join(req["scratch"], "S")
    X = os.path.join(req["xscratch"], "X") if req.get("xscratch") else None
    for d in ("cwd", "cwd/sub", "abs", "tmp"):
        os.makedirs(os.path.join(S, d), exist_ok=True)
    roots = [(S, "/S")]
    if X:
        os.makedirs(os.path.join(X, "tmp"), exist_ok=True)
        roots.append((X, "/X"))
    return S, X, roots


def structured_state(namer, known, new_entries):
    files, dirs = state_of(namer, known, new_entries)
    return {"files": files, "dirs": dirs, "text": show_state(files, dirs)}


def mode_update(req):
    import skops.io as sio
    from skops.cli.entrypoint import main_cli
    from skops.io._protocol import PROTOCOL
    case = req["case"]
    S, X, roots = layout(req)
    cwd = os.path.join(S, "cwd")
    os.chdir(cwd)
    proto = {"0": 0, "1": 1, "cur": PROTOCOL, "cur+1": PROTOCOL + 1}[case["proto"]]
    value = make_value(case["obj"])
    # where the input archive lives, as given on the command line (relative to cwd, or absolute under {S})
    inp = case.get("input", "in.skops").replace("{S}", S)
    in_real = os.path.normpath(os.path.join(cwd, inp))
    os.makedirs(os.path.dirname(in_real), exist_ok=True)
    make_archive(in_real, value, proto)
    known = {}
    with open(in_real, "rb") as f:
        in_bytes = f.read()
    known[sha(in_bytes)] = [1]
    for rel, content, tok in (("other.bin", b"bystander-3", [3]), ("sub/keep.txt", b"bystander-4", [4])):
        with open(rel, "wb") as f:
            f.write(content)
        known[sha(content)] = tok
    output = case["output"].replace("{S}", S).replace("{X}", X or "/nonexistent") if case["output"] is not None else None
    dst_real = None
    if case["inplace"] and output is None:
        dst_real = in_real
    elif output is not None:
        dst_real = os.path.normpath(os.path.join(cwd, output))
    old = b"OLD-DESTINATION-CONTENT"
    known[sha(old)] = [2]
    if case.get("pre_dst") and output is not None and os.path.isdir(os.path.dirname(dst_real)) \
            and os.path.normpath(dst_real) != in_real:
        with open(dst_real, "wb") as f:
            f.write(old)
    # what the property promises at the destination: dumps(load(input)) at the current protocol
    obj0 = sio.load(in_real, trusted=sio.get_untrusted_types(file=in_real))
    new_bytes = sio.dumps(obj0)
    new_entries = zip_entries(new_bytes)
    meta = {"known": known, "new_entries": new_entries, "dst_real": dst_real,
            "in_real": in_real, "roots": roots, "protocol": PROTOCOL}
    with open(os.path.join(req["scratch"], "meta.json"), "w") as f:
        json.dump(meta, f)
    argv = ["update", inp] + (["-o", output] if output is not None else []) \
        + (["--inplace"] if case["inplace"] else []) + list(case.get("flags", ["-v"]))
    tr = Tracer(roots, known, new_entries, crash=req.get("crash"), scrub=[(S, "/S")] + ([(X, "/X")] if X else []))
    initial = structured_state(tr.namer, known, new_entries)
    exc = tr.run(lambda: main_cli(argv))
    final = structured_state(tr.namer, known, new_entries)
    oracle = {"protocol": PROTOCOL, "same_object_after_roundtrip": canon_obj(obj0) == canon_obj(value)}
    if dst_real and os.path.isfile(dst_real):
        with open(dst_real, "rb") as f:
            db = f.read()
        oracle["dst_is_input_bytes"] = db == in_bytes
        try:
            with zipfile.ZipFile(io.BytesIO(db)) as z:
                oracle["dst_protocol"] = json.loads(z.read("schema.json"))["protocol"]
            back = sio.load(dst_real, trusted=sio.get_untrusted_types(file=dst_real))
            oracle["dst_loads_equal"] = canon_obj(back) == canon_obj(value)
        except Exception as e:
            oracle["dst_error"] = type(e).__name__
    with open(in_real, "rb") as f:
        oracle["input_unchanged"] = f.read() == in_bytes
    return {"argv": argv, "timeline": tr.timeline, "initial": initial, "final": final, "exc": exc,
            "logs": tr.logs, "other_stderr": tr.other_stderr[:5], "info": tr.info, "hook_errors": tr.errors,
            "oracle": oracle, "nwrite": tr.nwrite}


def err_enum(e):
    from skops.io.exceptions import UnsupportedTypeException
    if isinstance(e, UnsupportedTypeException):
        return "EUnsupported"
    if isinstance(e, TypeError):
        return "EType"
    if isinstance(e, ValueError):
        return "EValue"
    if isinstance(e, AttributeError):
        return "EAttr"
    if isinstance(e, KeyError):
        return "EKey"
    if isinstance(e, ImportError):
        return "EImport"
    if isinstance(e, RecursionError):
        return "ERecursion"
    return "EOther"


def mode_convert(req):
    import pickle
    import skops.io as sio
    from skops.cli.entrypoint import main_cli
    case = req["case"]
    S, X, roots = layout(req)
    cwd = os.path.join(S, "cwd")
    os.chdir(cwd)
    value = make_value(case["value"])
    inp = case["input"].replace("{S}", S)
    inp_real = os.path.normpath(os.path.join(cwd, inp))
    with open(inp_real, "wb") as f:
        pickle.dump(value, f)
    with open(inp_real, "rb") as f:
        in_bytes = f.read()
    known = {sha(in_bytes): [1]}
    old = b"OLD-OUTPUT-CONTENT"
    known[sha(old)] = [2]
    with open("other.bin", "wb") as f:
        f.write(b"bystander-3")
    known[sha(b"bystander-3")] = [3]
    output = case["output"].replace("{S}", S) if case["output"] is not None else None
    if case.get("pre_out") and case.get("pre_out_path"):
        p = os.path.normpath(os.path.join(cwd, case["pre_out_path"].replace("{S}", S)))
        if os.path.isdir(os.path.dirname(p)) and p != inp_real:
            with open(p, "wb") as f:
                f.write(old)
    # oracles, measured independently of the CLI run
    try:
        data = sio.dumps(value)
        saved = "ok"
        untrusted = sio.get_untrusted_types(data=data)
        new_entries = zip_entries(data)
    except Exception as e:
        saved, untrusted, new_entries, data = err_enum(e), [], None, None
    argv = ["convert", inp] + (["-o", output] if output is not None else []) + ["-v"] * case.get("verbosity", 0)
    scrub = [(S, "/S")] + ([(X, "/X")] if X else [])
    tr = Tracer(roots, known, new_entries, crash=req.get("crash"), log_events=True, scrub=scrub)
    initial = structured_state(tr.namer, known, new_entries)
    exc = tr.run(lambda: main_cli(argv))
    final = structured_state(tr.namer, known, new_entries)
    exc_enum = None
    if exc:
        e = tr.last_exc
        exc_enum = type(e).__name__ if isinstance(e, (OSError, SystemExit)) else err_enum(e)
    oracle = {}
    # where did the archive go?
    newfiles = [p for p, t in final["files"].items() if t == NEW_TOKEN]
    oracle["archives"] = newfiles
    if newfiles:
        real = None
        for root, tag in tr.namer.roots:
            if newfiles[0].startswith(tag + "/"):
                real = root + newfiles[0][len(tag):]
        try:
            back = sio.load(real, trusted=sio.get_untrusted_types(file=real))
            oracle["loads_equal"] = canon_obj(back) == canon_obj(value)
        except Exception as e:
            oracle["load_error"] = type(e).__name__ + ": " + str(e)[:200]
    if os.path.isfile(inp_real):
        with open(inp_real, "rb") as f:
            oracle["input_unchanged"] = f.read() == in_bytes
    else:
        oracle["input_unchanged"] = False
    return {"argv": argv, "timeline": tr.timeline, "initial": initial, "final": final, "exc": exc,
            "logs": tr.logs, "info": tr.info, "hook_errors": tr.errors, "saved": saved, "exc_enum": exc_enum,
            "untrusted": untrusted, "oracle": oracle, "input_model": inp.replace(S, "/S") if inp.startswith(S) else inp,
            "output_model": (output.replace(S, "/S") if output.startswith(S) else output) if output is not None else None}


# ----------------------------------------------------------------------------
# C18: structures with one bad element at every position
def bad_value(kind):
    import numpy as np
    if kind == "birch":
        from sklearn.cluster import Birch
        return Birch()
    if kind == "generator":
        return (i for i in range(3))
    if kind == "getstate":
        import cli_types
        return cli_types.RaisesOnGetstate()
    if kind == "reduce":
        import cli_types
        return cli_types.RaisesOnReduce()
    if kind.startswith("getstate_"):
        import cli_types
        return getattr(cli_types, "RaisesOnGetstate_" + kind[len("getstate_"):])()
    if kind == "dok":
        import scipy.sparse as sp
        return sp.dok_matrix((2, 2))
    if kind == "lil":
        import scipy.sparse as sp
        return sp.lil_matrix((3, 1))
    if kind == "complex":
        return 3 + 4j
    if kind == "memoryview":
        return memoryview(b"abc")
    if kind == "module":
        return os
    if kind == "objarray":
        return np.array([1, (i for i in range(2))], dtype=object)
    raise KeyError(kind)


def build(spec, hole_path, bad_kind, path=()):
    """spec: nested JSON description; the element at `hole_path` is replaced by the bad value"""
    import numpy as np
    if hole_path is not None and tuple(hole_path) == tuple(path):
        return bad_value(bad_kind)
    t = spec["t"]
    if t == "int":
        return spec["v"]
    if t == "str":
        return spec["v"]
    if t == "float":
        return spec["v"]
    if t == "none":
        return None
    if t == "array":
        return np.arange(spec["n"], dtype=spec.get("dtype", "float64"))
    if t in ("list", "tuple"):
        xs = [build(c, hole_path, bad_kind, path + (i,)) for i, c in enumerate(spec["c"])]
        return xs if t == "list" else tuple(xs)
    if t == "dict":
        return {k: build(c, hole_path, bad_kind, path + (i,)) for i, (k, c) in enumerate(spec["c"])}
    if t == "obj":
        import cli_types
        o = cli_types.Custom()
        o.__dict__ = {k: build(c, hole_path, bad_kind, path + (i,)) for i, (k, c) in enumerate(spec["c"])}
        return o
    if t == "objarr":
        a = np.empty(len(spec["c"]), dtype=object)
        for i, c in enumerate(spec["c"]):
            a[i] = build(c, hole_path, bad_kind, path + (i,))
        return a
    if t == "est":
        from sklearn.linear_model import LogisticRegression
        return LogisticRegression(C=spec.get("C", 1.0))
    if t == "pipeline":
        from sklearn.pipeline import Pipeline
        from sklearn.preprocessing import StandardScaler
        return Pipeline([("a", StandardScaler()), ("b", build(spec["c"][0], hole_path, bad_kind, path + (0,)))])
    raise KeyError(t)


def mode_dump(req):
    import skops.io as sio
    out = []
    base = req["scratch"]
    for i, case in enumerate(req["cases"]):
        S = os.path.join(base, f"c{i}", "S")
        os.makedirs(os.path.join(S, "d"), exist_ok=True)
        os.chdir(os.path.join(S, "d"))
        roots = [(S, "/S")]
        res = {}
        try:
            obj = build(case["spec"], case["hole"], case["bad"])
            # oracle: the serialiser alone
            try:
                data = sio.dumps(obj)
                saved, new_entries = "ok", zip_entries(data)
                if case["hole"] is not None:
                    # an element believed unsupported went through: is what dumps returned a complete archive?
                    try:
                        back = sio.loads(data, trusted=sio.get_untrusted_types(data=data))
                        res["roundtrip"] = "equal" if canon_obj(back) == canon_obj(build(case["spec"], case["hole"], case["bad"])) else "different"
                    except Exception as e2:
                        res["roundtrip"] = "load-fails:" + type(e2).__name__
            except Exception as e:
                saved, new_entries = "raise", None
                res["dumps_exc"] = type(e).__name__
            obj = build(case["spec"], case["hole"], case["bad"])   # generators are single-use
            known = {}
            old = b"EXISTING-DESTINATION"
            known[sha(old)] = [2]
            PREFIXES[:] = [(old, [2])]
            target = os.path.join(S, "d", "model.skops")
            sink_kind = case["sink"]
            if sink_kind in ("existing", "fileobj_existing"):
                with open(target, "wb") as f:
                    f.write(old)
            fobj = None
            if sink_kind == "fileobj_new":
                fobj = open(target, "wb")
            elif sink_kind == "fileobj_existing":
                fobj = open(target, "ab")
            tell0 = fobj.tell() if fobj else None
            tr = Tracer(roots, known, new_entries)
            initial = structured_state(tr.namer, known, new_entries)
            arg = fobj if fobj else (target if case.get("as_str", True) else __import__("pathlib").Path(target))
            exc = tr.run(lambda: sio.dump(obj, arg))
            tell1 = fobj.tell() if fobj else None
            if fobj:
                fobj.flush()
                size_now = os.path.getsize(target)
                fobj.close()
            final = structured_state(tr.namer, known, new_entries)
            tok = final["files"].get("/S/d/model.skops")
            if fobj:
                # express the position in the model's token units (size of the content it points behind)
                if tell1 == size_now and tok is not None:
                    tell_canon = str(len(tok))
                else:
                    tell_canon = f"odd:{tell1}/{size_now}"
            else:
                tell_canon = str(len(tok)) if tok is not None else "-"
            res.update({"saved": saved, "timeline": tr.timeline, "initial": initial, "final": final,
                        "exc": exc, "tell_before": tell0, "tell_after": tell1, "tell_canon": tell_canon,
                        "hook_errors": tr.errors, "info": tr.info})
        except Exception as e:  # harness-side failure for this case
            res["harness_error"] = f"{type(e).__name__}: {e}"
        out.append(res)
        os.chdir(base)
    return out


MODES = {"update": mode_update, "convert": mode_convert, "dump": mode_dump}

if __name__ == "__main__":
    req = json.load(sys.stdin)
    real_stdout = sys.stdout
    sys.stdout = io.StringIO()     # nothing the code under test prints may corrupt the reply
    res = MODES[req["mode"]](req)
    sys.stdout = real_stdout
    json.dump(res, sys.stdout)
