"""Regenerate MANIFEST.json from the table below (run after adding a property)."""
import json
from pathlib import Path

V = Path(__file__).resolve().parent.parent
ALL = [f"C{i:02d}" for i in range(1, 21)]

CLAIMED = {
    "C08": dict(
        technique="Coq proof over regenerated registry + model/implementation correspondence",
        text=("Theorems in coq/props/C08.v: for every gap-free registry 'exact match else current' equals 'smallest registered protocol "
              "not below the archive's' (all loaders, all protocols), refutation for registries with a gap, never-changed kinds load identically, "
              "unregistered kinds have no loader, every emitted __loader__ is registered; the registry-dependent ones are re-proved by coqc "
              "against Snapshot.v regenerated from /repo on every run. get_tree's class selection is compared with the model on the exhaustive "
              "(loader x protocol-value) product."),
        note=("Trusted: Coq kernel/vm_compute; snapshot translator (NODE_TYPE_MAPPING read-out, AST scan for emitted loader names); "
              "impl runner. Old-layout value fidelity is exercised under C05, not here."),
        ref="DESIGN.md section 4 C08"),
    "C03": dict(
        technique="Coq proof (audit-with-T = audit-without-T filtered, for every archive) + model/implementation correspondence",
        text=("Theorems in coq/props/C03.v over an executable Gallina model of get_tree / get_unsafe_set (all 29 loaders, arbitrary JSON, shared and cyclic ids): "
              "auditing with a trusted list equals auditing without one minus the list (same order, same exceptions) for every archive, fuel and path; hence load raises "
              "UntrustedTypesFoundException exactly when get_untrusted_types has a name outside T and names exactly those, never blocks otherwise, is monotone in T, depends "
              "on T only as a set, rejects trusted=True. The side condition 'every node class builds its list from the caller's list' is re-proved by vm_compute on the class "
              "table probed from /repo each run. The model is tied to the code by differential runs on generated valid+malformed archives x trusted specs; the three entry "
              "points and spellings of T (tuple, shuffled, duplicates, type objects) are compared on the implementation directly."),
        note=("Trusted: Coq kernel/vm_compute; snapshot probes; generator + impl runner + absval fingerprint; JSON floats modelled as half-integers; repr of containers in name "
              "slots outside the modelled domain (counted). Sortedness of the reported list is checked on the implementation, its element set is proved."),
        ref="DESIGN.md section 4 C03"),
    "C11": dict(
        technique="Coq proof over regenerated default-trust tables + exhaustive-by-universe correspondence",
        text=("coq/props/C11.v: (per run, vm_compute over the ~550 default-trusted names probed from the live code) every default name of every registered node class carries a "
              "family tag admissible for that kind; (for all trees) every node, at any depth, whose audited name is outside its trusted list is reported, and only such names are "
              "reported; with no trusted list a node trusts exactly its defaults plus what Tree/Loss ancestors hand down. One-node archives for every (loader, protocol) x names "
              "enumerated from the modules the property lists are run through get_untrusted_types/load and compared with the model, and checked against the family oracle."),
        note=("Trusted: family tagging oracle harness/families.py (isinstance/issubclass on resolved objects); snapshot probes; Coq kernel. Known finding D03 (bit-generator name "
              "resolved unaudited) is reported as KNOWN-FINDING. The tree-level theorems assume `leafy` (Json/Slice/Function nodes have only raw leaves), true of get_tree output."),
        ref="DESIGN.md section 4 C11"),
    "C02": dict(
        technique="Coq model purity (by construction) + observed inertness under audit hook with canary modules",
        text=("The Gallina model of get_tree / the audit walk / walk_tree consists of total functions of (registry tables, member names, schema, T) whose result types carry no "
              "event and which never call the model's name-resolution function; coq/props/C02.v records that (init_events = [] for every tree, after repairing D05). This part is "
              "true by construction, so the assurance that the *code* is inert rests on the tie: on every run generated archives of every loader kind and protocol, whose name "
              "slots mention fresh importable-but-not-imported canary modules, go through six inspection entry points of /repo under sys.addaudithook and wrapped "
              "gettype/_import_obj/import_module, and the model's predicted verdicts/rows are compared with the implementation's."),
        note=("Trusted: audit-hook and wrapper instrumentation, canary ledger; Coq kernel. zipfile opening the archive path itself is not an action on the archive's behalf. "
              "A defect of this kind (LossNode importing while building, D05) was found and fixed in /repo."),
        ref="DESIGN.md section 4 C02"),
    "C15": dict(
        technique="Coq proof over an executable model of _markup/_parser + model/implementation correspondence",
        text=("Theorems (Coq, no axioms) over an executable model of _markup.py and _parser.py: every Markdown() call restores the indentation stack, so conversions are "
              "deterministic and history independent; under the guard 'no repeated title under one parent' (finding D20) the parsed card has exactly one section per header, nested "
              "under the nearest preceding lower-level header, title verbatim, content = the texts of the following blocks, each once, in order; render headings and TOC equal that "
              "outline; totality for documents of individually convertible blocks; refuted witnesses for D20/D27/D28. Correspondence-only: that the model equals the implementation "
              "(result class, toc, render, sections, select; ~430 generated documents and ~670 single conversions per quick run) and PrettyTable's table text."),
        note=("Trusted: Coq kernel/vm_compute; generator and JSON-to-Coq translation in harness/props/c15.py; canonicaliser in harness/impl_parser.py; pretty_md models PrettyTable "
              "only for single-width characters. Fixes D18/D19/D21 committed in /repo; D20/D27/D28 are open known findings."),
        ref="DESIGN.md section 4 C15"),
}

PENDING_REASON = "check not built yet (see DESIGN.md section 8 build order); not claimed in this revision"


def main():
    eng_props = sorted(CLAIMED)
    m = {
        "version": 1,
        "setup_cmd": "bin/setup.sh",
        "hooks": {
            "guard": "SKOPS_VERIF",
            "enable": "none needed: all observation is external (audit hooks, wrapped module globals); checks export SKOPS_VERIF=1 anyway",
            "baseline_off_cmd": "cd /repo && /venv/bin/python -m pytest -ra -q -p no:cacheprovider --timeout=900 --continue-on-collection-errors",
            "source_commits": [],
            "add_only": True,
        },
        "engines": [
            {"name": "coq-model", "path": "coq/", "serves_properties": eng_props,
             "kind_free_text": "Coq 8.16.1 executable Gallina models (coq/base, io, card, sys) and property theorems (coq/props)"},
            {"name": "snapshot", "path": "harness/snapshot.py", "serves_properties": eng_props,
             "kind_free_text": "translator: tables computed by the live skops code -> Snapshot.v, regenerated and re-checked on every run"},
            {"name": "correspondence", "path": "harness/", "serves_properties": eng_props,
             "kind_free_text": "differential runs of the model (vm_compute) against /repo on generated cases"},
        ],
        "checks": [],
        "notes": "Technique family: machine-checked proof in Coq 8.16.1; see DESIGN.md. known_findings.json lists genuine defects recorded rather than repaired.",
        "not_applicable": [],
    }
    for p in ALL:
        if p in CLAIMED:
            c = CLAIMED[p]
            m["checks"].append({
                "property_id": p,
                "quick_cmd": f"bin/check {p} --tier quick",
                "thorough_cmd": f"bin/check {p} --tier thorough",
                "evidence_file": f"/verif/evidence/{p}.json",
                "replay_cmd_template": f"bin/check {p} --replay {{path}}",
                "engine": "coq-model",
                "level_claimed": {"category": "proof", "text": c["text"], "design_ref": c["ref"]},
                "level_note": c["note"],
                "technique": c["technique"],
            })
        else:
            m["not_applicable"].append({"property_id": p, "reason": PENDING_REASON})
    (V / "MANIFEST.json").write_text(json.dumps(m, indent=1) + "\n")


if __name__ == "__main__":
    main()
