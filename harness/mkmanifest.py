"""Regenerate MANIFEST.json from the table below (run after adding a property)."""
import json
from pathlib import Path

V = Path(__file__).resolve().parent.parent
ALL = [f"C{i:02d}" for i in range(1, 21)]

CLAIMED = {
    "C08": dict(
        technique="Coq proof over regenerated registry + model/implementation correspondence",
        text=("Theorems in coq/props/C08.v: for every gap-free registry 'exact match else current' equals 'smallest registered protocol "
              "not below the archive's' (all loaders, all protocols), refutation for registries with a gap, never-changed kinds load identically, "
              "unregistered kinds have no loader, every emitted __loader__ is registered; the registry-dependent ones are re-proved by coqc "
              "against Snapshot.v regenerated from /repo on every run. get_tree's class selection is compared with the model on the exhaustive "
              "(loader x protocol-value) product. The dispatch table is also recomputed with skops imported from a byte-compiled tree without sources and from a zip bundle on sys.path (must equal the source tree's: registration must not depend on the deployment form)."),
        note=("Trusted: Coq kernel/vm_compute; snapshot translator (NODE_TYPE_MAPPING read-out, AST scan for emitted loader names); "
              "impl runner. Old-layout value fidelity is exercised under C05, not here."),
        ref="DESIGN.md section 4 C08"),
    "C03": dict(
        technique="Coq proof (audit-with-T = audit-without-T filtered, for every archive) + model/implementation correspondence",
        text=("Theorems in coq/props/C03.v over an executable Gallina model of get_tree / get_unsafe_set (all 29 loaders, arbitrary JSON, shared and cyclic ids): "
              "auditing with a trusted list equals auditing without one minus the list (same order, same exceptions) for every archive, fuel and path; hence load raises "
              "UntrustedTypesFoundException exactly when get_untrusted_types has a name outside T and names exactly those, never blocks otherwise, is monotone in T, depends "
              "on T only as a set, rejects trusted=True. The side condition 'every node class builds its list from the caller's list' is re-proved by vm_compute on the class "
              "table probed from /repo each run. The model is tied to the code by differential runs on generated valid+malformed archives x trusted specs; the three entry "
              "points and spellings of T (tuple, shuffled, duplicates, type objects) are compared on the implementation directly."),
        note=("Trusted: Coq kernel/vm_compute; snapshot probes; generator + impl runner + absval fingerprint; JSON floats modelled as half-integers; repr of containers in name "
              "slots outside the modelled domain (counted). Sortedness of the reported list is checked on the implementation, its element set is proved."),
        ref="DESIGN.md section 4 C03"),
    "C11": dict(
        technique="Coq proof over regenerated default-trust tables + exhaustive-by-universe correspondence",
        text=("coq/props/C11.v: (per run, vm_compute over the ~550 default-trusted names probed from the live code) every default name of every registered node class carries a "
              "family tag admissible for that kind; (for all trees) every node, at any depth, whose audited name is outside its trusted list is reported, and only such names are "
              "reported; with no trusted list a node trusts exactly its defaults plus what Tree/Loss ancestors hand down. One-node archives for every (loader, protocol) x names "
              "enumerated from the modules the property lists are run through get_untrusted_types/load and compared with the model, and checked against the family oracle."),
        note=("Trusted: family tagging oracle harness/families.py (isinstance/issubclass on resolved objects); snapshot probes; Coq kernel. Known finding D03 (bit-generator name "
              "resolved unaudited) is reported as KNOWN-FINDING. The tree-level theorems assume `leafy` (Json/Slice/Function nodes have only raw leaves), true of get_tree output; a SliceNode audits its own name, not its bounds."),
        ref="DESIGN.md section 4 C11"),
    "C02": dict(
        technique='Coq proof over a call graph + effect table TRANSLATED from the skops/io source on every run (static inertness of everything reachable before the verdict) + observed inertness under audit hook with canary modules + dynamic call edges validated against the translated graph',
        text=("coq/props/C02.v: (1) C02_static_inert -- harness/callgraph.py re-translates the SOURCE of skops/io on every run into Gen/CallGraphGen.v: for every function its possible callees inside skops.io (over-approximated: methods by name, every constructor for a looked-up class, callbacks, properties, context managers) and the forbidden primitives it uses (resolve: gettype/_import_obj/importlib/__import__/eval/exec/pickle/computed getattr/sys.modules; fs: open/os/shutil/tempfile/subprocess/write methods); load and loads are split at their call of audit_tree. Theorem: every function reachable through any chain of calls from get_untrusted_types, visualize, or load/loads up to and including the audit uses none of them (closure certificate checked by vm_compute against the generic theorem static_inert: closed set containing the entries contains everything reachable); C02_static_not_blind: the same analysis does find a forbidden primitive behind the verdict; C02_static_entries. The translator is fail-closed (unknown external callee, construct before the audit, whichmodule called with a name that is not the object's own __name__ => abort => broken obligation). (2) C02_no_events_before_verdict over the hand-written get_tree model (by construction). Tie of the translator to the code: every call edge between skops.io functions observed under sys.setprofile during the inspection runs must be an edge of the translated graph. Tie of the behaviour: generated archives of every loader kind and protocol whose name slots mention fresh importable-but-not-imported canary modules go through six inspection entry points under sys.addaudithook and wrapped gettype/_import_obj/import_module; 48 MiB members; private TMPDIR."),
        note=("Trusted: the translator's over-approximation rules and its tables of effectful primitives (harness/callgraph.py docstring), `reflect:` effects (whichmodule/_getattribute on a live object's own __name__) are permitted; audit-hook and wrapper instrumentation, canary ledger; Coq kernel. zipfile opening the archive path itself is not an action on the archive's behalf. D05 (LossNode importing while building) was found and fixed in /repo."),
        ref="DESIGN.md section 4 C02"),
    "C15": dict(
        technique="Coq proof over an executable model of _markup/_parser + model/implementation correspondence",
        text=("Theorems (Coq, no axioms) over an executable model of _markup.py and _parser.py: every Markdown() call restores the indentation stack, so conversions are "
              "deterministic and history independent; under the guard 'no repeated title under one parent' (finding D20) the parsed card has exactly one section per header, nested "
              "under the nearest preceding lower-level header, title verbatim, content = the texts of the following blocks, each once, in order; render headings and TOC equal that "
              "outline; totality for documents of individually convertible blocks; refuted witnesses for D20/D28; the former D27 witness (badge in a line of text) converts. Correspondence-only: that the model equals the implementation "
              "(result class, toc, render, sections, select; ~430 generated documents and ~670 single conversions per quick run) and PrettyTable's table text."),
        note=("Trusted: Coq kernel/vm_compute; generator and JSON-to-Coq translation in harness/props/c15.py; canonicaliser in harness/impl_parser.py; pretty_md models PrettyTable "
              "only for single-width characters. Fixes D18/D19/D21/D27 committed in /repo; D20/D28 are open known findings."),
        ref="DESIGN.md section 4 C15"),
    "C09": dict(
        technique='Coq proof over an executable model of the card section tree + model/implementation correspondence on random operation sequences',
        text='Theorems in coq/props/C09.v (38, no axioms): every history theorem is also stated for cards constructed from any template (none / skops / custom dict, any model_diagram) and then edited by any operation sequence (C09_constructed_is_run, C09_constructed_wf, C09_constructed_select_after); split_subsection_names equals the token-level specification for every key (D13 repaired); add: get/position/frame/ancestors; select after ANY sequence of the 11 operation kinds returns what the last relevant add put there (via history/val, induction over the op list); delete removes the subtree, keeps frame and order, list form verbatim; select/delete (string and list form) fail exactly on an empty key, an empty name anywhere in the path or a missing path, with KeyError and unchanged state; chained select = path select for every card and all names (C09-F1 repaired; only guard: p does not end in a backslash, which would escape the joining slash). Correspondence-only: that the model is the code -- compared after every operation (outcome class, TOC, render, every node, select of every path).',
        note='Trusted: Coq kernel/vm_compute; harness/impl_card.py, cardgen.py, the canonical observation in coq/card/Show.v; str() of values.',
        ref='DESIGN.md section 4 C09'),
    "C10": dict(
        technique='Coq proof over an executable model of the card section tree + model/implementation correspondence on random operation sequences',
        text='coq/props/C10.v (13 theorems; C10_constructed_render: the render / TOC statements for every card constructed from any template and then edited by any operation sequence): render events = the shown paths (visible, no invisible/folded ancestor) in pre-order with depth, for every reachable card; hidden sections contribute nothing; content wrapped in <details> iff folded, per section variant; save = utf8(render); get_toc = the rendered headings at depth-1 (D14 repaired). Correspondence-only: file bytes, PrettyTable output; copy_files is not exercised.',
        note="Trusted: as C09, plus PrettyTable as an oracle (Section variable) and newline handling of open(..., 'w').",
        ref='DESIGN.md section 4 C10'),
    "C14": dict(
        technique='Coq proof over an executable model of the card section tree and its content builders + model/implementation correspondence on random operation sequences',
        text='coq/props/C14.v (50 theorems): what is handed to PrettyTable (header = column names, one cell per entry, LF -> <br />, no LF left); metrics in first-seen order with latest value after any call sequence; placement at the given path with the last path part as title for every builder incl. add_model_plot (D16 repaired); default alt text = own title (D17 repaired); one call with several items = one-by-one; headings = keys for every history without a direct .title assignment (refuted with one); add_model_plot: plain visible unfolded section, subsections kept, also after any history, content = description + blank line + processed HTML (None and "" falsy), where the model of re.sub(r"\\n\\s+", "", .) for EVERY string leaves no LF followed by whitespace, only drops whitespace (subsequence), is the identity iff no such pair exists and equals the leftmost/greedy formulation; str.count/str.replace leftmost and non-overlapping; the style attribute is added iff the class name is counted exactly once. CARD CONSTRUCTION (coq/card/Init.v): Card(model, template, model_diagram) is the run of OAdd / OAddHyperparams / OAddModelPlot on the empty card for every configuration, template, diagram and oracle value (C14_init_is_run, C14_init_plan, C14_init_diagram); error table iff (unknown template name -> ValueError; dict key named like a parameter of Card.add -> TypeError; no card); listed sections present under their last path part; per run over Gen/CardSnapshot.v (harness/card_snapshot.py: SKOPS_TEMPLATE, VALID_TEMPLATES, default sections, Card.add parameter names, behavioural default descriptions) the outline of Card(model): sections = listed keys in listed order, hyperparameter table and diagram at their default paths. Correspondence-only: PrettyTable layout, get_params and estimator_html_repr (oracles: generated adversarial HTML texts and the real sklearn HTML captured from the single call), the \\s set of re = is_space over all code points, dict vs DataFrame incl. typed numpy columns, batch vs one-by-one on the implementation.',
        note='Trusted: as C09; harness/card_snapshot.py; PrettyTable / get_params / estimator_html_repr oracles. Not modelled: a model given as a path (_load_model), non-str template keys or contents. Open: D33 (pandas iteration changes float32/float16/datetime64/None cells). Not covered: add_permutation_importances, add_fairlearn_metric_frame.',
        ref='DESIGN.md section 4 C14'),
    "C16": dict(
        technique='Coq proof over an fs-operation model + audit-hook correspondence + crash injection',
        text="coq/props/C16.v (13 theorems) about update_ops, the model of skops/cli/_update.py after repairing D22/D23: the write decision, inertness of every non-writing case, input untouched and destination in {old content, complete new content} at EVERY crash prefix of the operation list (any Append cut short; both filesystem placements), no residue on completion; refuted witnesses for the pre-fix code. That update_ops is the code is correspondence: the real file-operation sequence of main_cli observed by sys.addaudithook over protocol x output x inplace x TMPDIR placement, final directory state compared; crash injection (os._exit at every event boundary) is the search oracle. 'The written archive loads to an equal object' is a theorem on the C05 fragment (C16_result_loads_equal_partial: the file operations composed with the dump model, the zip container as read-back oracle and the codec round trip) and a harness check on every generated value. Faults the file-system model does not express are probed on the implementation and judged against the property directly (harness/impl_faults.py): destination is an existing directory; the final move refused (EACCES injected at os.replace / rename / link / copyfile) for a new, an existing and the in-place destination -- an error, every file as before, no residue.",
        note='Trusted: Fs.v semantics (POSIX rename atomicity), mkdtemp freshness, the audit-hook abstraction, zip digest modulo ids. Power loss / fsync ordering not modelled (process death only).',
        ref='DESIGN.md section 4 C16'),
    "C17": dict(
        technique='Coq proof over an event model (log + fs ops) + audit-hook/stderr correspondence',
        text='coq/props/C17.v (15 theorems): default output path and PurePath.stem model, operation order (read pickle fully, dumps, only then open/write), failure inertness, warning emitted iff untrusted names exist with exactly those names; the input is never altered at any crash point whatever the output option (C17_input_untouched, unconditional since D29 was repaired in /repo: convert refuses when the output is the input itself, C17_same_file_refused); equivalence of the loaded object is a theorem on the C05 fragment (C17_result_loads_equal_partial: composition with the dump model, the zip read-back oracle and the codec round trip), an oracle premise (C17_equiv) plus a structural-fingerprint check beyond it. Aliases the file-system model does not express are probed on the implementation (harness/impl_faults.py): output given as a hard link or a symlink of the input (same and other directory) must be refused with all files intact; an output path going through a symlinked directory and \'..\' must receive the archive where the OS resolves it.',
        note='Trusted: pickle; audit-hook abstraction; logging capture; zipfile as read-back oracle. D29 repaired in /repo.',
        ref='DESIGN.md section 4 C17'),
    "C18": dict(
        technique='Coq proof over the call graph translated from the source (serialise-before-touching) + Coq proof of sequencing + induction over one-hole contexts and over the real dump model + exhaustive-position correspondence',
        text='coq/props/C18.v (16 theorems): TRANSLATED SOURCE (harness/callgraph.py, re-run every run, fail-closed): dump() is split at its call of _save; everything reachable from the part up to and including the serialisation uses no file-system primitive, only writers that stay in memory (np.save / save_npz into a local io.BytesIO(), writestr into the zip _save builds over a local io.BytesIO() -- argument shapes checked by the translator) and reflection (C18_static_serialise_before_touching; not blind: the part after it opens and writes the destination). MODEL: a failing serialisation means the sink sees no operation at all (existing path, new path, open file object), dumps never returns a prefix, and failure is independent of the position/depth of the unsupported element (induction over one-hole contexts with the leaf serialisers as oracle); and over the REAL dump model (CodecDump.get_state, all value kinds): a value that can never be serialised (unsupported type, raising __getstate__/__reduce__, property) sitting at ANY serialised position at any depth (list/tuple/set items, dict and defaultdict values, default factories, masked data/mask, RNG states, partial slots, operator attrs, bound-method owners, object state / reduce arguments) makes dumps_model raise, and then no target receives anything under any compression (C18_codec_inside_raises, C18_codec_unpersistable_touches_nothing). That the real get_state has that strict shape is correspondence: every node position of generated structures x rotating bad-element kinds x 4 sinks under the audit hook. Bad-element kinds include objects whose __getstate__ raises StopIteration / KeyError / AttributeError / TypeError (exceptions that control flow elsewhere may swallow); the fixed structure sees every kind at every position in both tiers.',
        note='Trusted: audit-hook observation of the destination; the serializer itself is an oracle here (modelled under C04/C05).',
        ref='DESIGN.md section 4 C18'),
    "C13": dict(
        technique="Coq proof over an executable model of walk_tree/_traverse_tree/printer + model/implementation correspondence",
        text=("coq/props/C13.v (19 theorems): TOTALITY ON DUMPS (first clause) as a theorem on the C05 fragment: for every value in c05_guard (containers, dict family, slices, names, arrays, sparse, dtype, masked, RNGs, partial, bytes / bytearray, object arrays of every rank; arbitrary sharing), every load environment of that archive, EVERY trusted list and ALL THREE show modes, the row generator and the default sink complete (C13_total_on_dumps_partial; D24 repaired in /repo: _traverse_tree skips everything below a hidden node); what is printed is the root row followed by the pre-order forest of rows with the subtree of every hidden row cut off: show=all everything, show=untrusted exactly the rows that are not fully safe, show=trusted the rows whose own type is trusted and whose ancestors below the root all are (proof: the tree built from a dumped state is ranked -- every object above its parts -- hence acyclic with bounded reference depth, every reference resolves, the audit of every node completes independently of fuel and call stack, the walk yields a safe-closed pre-order forest). MODE-INDEPENDENT WELL-FORMEDNESS: on EVERY pre-order row stream (each row at most one level below its predecessor) and every filter, _traverse_tree never raises its level-difference ValueError and prints again such a stream (C13_preorder_never_raises); on ANY row list a completed run printed exactly `shown` of the rows (C13_filter_respected); on a forest that is the forest with hidden subtrees pruned, a row is printed iff the filter admits it and all its ancestors (C13_hidden_subtrees_cut). AGREEMENT WITH THE AUDIT: whenever visualize completes (any archive, any trusted list, any show mode) what reaches the printer is the root row followed by rows each at most one level "
              "deeper than the previous one; every row carries the audit's own verdicts for its node (is_self_safe, and fully-safe iff the graph audit "
              "below it reports nothing); the root row is fully safe iff get_untrusted_types is empty for that trust setting; a row is tagged [UNSAFE] iff its own type is untrusted; "
              "a node of any kind except the protocol-0 FunctionNode that is not self-safe is never fully safe (C13_self_unsafe_not_safe); the former D31-SliceNode witness is reported (C13_slice_name_reported: get_untrusted_types = [x.y], load refuses, row and ancestors not fully safe); the former D24 witness ([functools.partial(np.add, 1)], show=trusted) is computed to completion (C13_trusted_witness_repaired). The model (lazy row stream, hidden_level state, key_types special case, SKIPPED kinds from the snapshot, Ref/cycle unrolling, the plain-text printer) "
              "is compared with /repo on generated valid+malformed archives x trusted x show (printed text and raw rows); an oracle on the implementation's own output requires that a completed pre-order row stream never makes the default sink raise and that the printed lines are the rows admitted together with all their ancestors. Totality on real dumps is checked on generated values x 3 trust settings x 3 show modes (all nine required), visualized before and whatever load says. TEXT: the plain printer shows every row on ONE line (C13-F2 / C13-F3 repaired in /repo: characters that are not printable are shown escaped): for every row list, any keys / type names / tags, number of lines = number of rows, every character of every line is printable (IoShow.isprintable: exact on a stated charset of 161,687 code points, conservative elsewhere), hence no str.splitlines separator, no surrogate, UTF-8-encodable; line i = drawing prefix ++ escaped text of row i; the output splits at LF into exactly the lines (C13_one_line_per_row, C13_printable_table); printable texts are shown unchanged (C13_escape_identity); the escape has a left inverse on texts without backslash (C13_escape_injective_on_lines; C13_escape_backslash_collides shows the guard is needed). The default sink is captured over a UTF-8 byte stream; a third of the generated archives carry unprintable characters in keys / attribute names / type names; the isprintable table is compared with str.isprintable over the whole charset on every run."),
        note=("Trusted: Coq kernel; snapshot (SKIPPED_TYPES); generator, runner. rich is absent here: colours not exercised. Open findings: "
              "D31-FunctionNode@0 (the protocol-0 FunctionNode displays a name its audit ignores). D15 (slices, bound methods, state-less objects), D15c (key named key_types), D32 (untrusted key types), D31-SliceNode, D24 (show='trusted' level jump), C13-F1 (rank-0 object arrays were dumped with a non-list content: visualize / get_untrusted_types / load raised AttributeError), C13-F2 (a key with a lone surrogate made the default sink raise UnicodeEncodeError) and C13-F3 (a key or type name with a line break forged rows) were repaired in /repo. rich is not installed: only the plain printer is modelled (the rich branch goes through the same _get_node_text)."),
        ref="DESIGN.md section 4 C13"),
    "C01": dict(
        technique="Coq proof (audit examines every node; every archive-named resolution is vouched) + traced-load correspondence + canary search",
        text=("coq/props/C01.v over the executable model of get_tree (29 loaders, arbitrary JSON), the graph audit with its cycle guard, and the order in which construct() resolves names: "
              "(1) every tree get_tree builds has pairwise-distinct memoised ids and well-formed child shapes (induction over get_tree, all kinds); (2) hence when load's audit passes, NO node at any depth, "
              "slot, shared or cyclic position has an audited name outside its trusted list; (2') after a passed audit every node naming its own type, SliceNode included, carries a name in its own trusted list (C01_audit_pass_names_trusted); (3) every gettype/_import_obj call construct() then makes with names taken from the archive is made by a node of "
              "the tree and resolves a name in that node's trusted list (caller's list ++ inherited ++ kind defaults) -- 'the name that was audited is the object that is used'. The full statement over ALL "
              "name-bearing events is false of the faithful model: three refuted theorems (vm_compute witnesses) = open findings D01 (MethodNode attribute), D03 (bit-generator name), D04 (fixed constructor under a "
              "foreign audited name). Tie: loads() of generated archives x trusted specs runs with gettype/_import_obj/import_module/getattr wrapped from outside; the observed resolution trace must equal the model's "
              "(subset when construct raises). Search oracle: canary package ledger + type of the returned object."),
        note=("Trusted: Coq kernel; snapshot; wrappers/canary instrumentation; what a vouched class does in its own __new__/__setstate__ is the caller's responsibility; np.load(allow_pickle=False)/load_npz trusted. "
              "D02 (OperatorFuncNode) and D05 (LossNode) were repaired in /repo."),
        ref="DESIGN.md section 4 C01"),
    "C19": dict(
        technique='Coq proofs of totality and of termination for structural reasons (tree building, cycle-guarded graph audit, visualize walk, construct walk) + model/implementation correspondence under schema mutations + observed clean failure in workers',
        text=('coq/props/C19.v (27 theorems): on EVERY JSON value the model of get_tree returns a tree or one of the ordinary exceptions and never the fuel artefact when nesting depth < fuel (induction over all 29 loaders); every tree built satisfies the '
              'invariants the audit relies on; TERMINATION of what runs on the built graph, with explicit measures: the cycle-guarded audit (unsafe_g), the visualize walk (which unrolls every cycle twice) and the construct walk never return the fuel '
              'artefact when (ids of the root not on the path) x (height + 1) + height + 2 <= fuel (C19_audit_graph_terminates, C19_walk_graph_terminates, C19_construct_graph_terminates: strong induction on fuel, a Ref jump removes one free id; no '
              'well-formedness needed beyond sub n root); entry-point corollaries for get_untrusted_types / load_audit / visualize / construct_trace with the size condition stated on the built tree and on the schema alone '
              '(C19_built_tree_bounded_by_schema: height <= jdepth, ids <= the truthy hashable __id__ values); the unconditional versions at the fixed fuels are refuted with a 17-id / height-193 tower (C19_entry_points_nofuel_refuted: a statement about '
              "the model's fuel constants -- the implementation answers RecursionError there, an ordinary exception); 'terminate promptly' is refuted for the audit for every n (2^(n+1)-1 visits of a 2n+1-node ladder, finding D11). "
              "The model's predicted outcome (exception enum, rows, printed text) is compared with /repo on archives with 1-3 stacked schema-level mutations. Clean failure itself is observed: the same archives, extreme protocol values, "
              '.npy headers that lie about dtype/shape and byte-level mutations of real dumps run in workers under SIGALRM with snapshots of cwd, environ, sys.path, numpy global RNG and scratch-dir listing; what load returned is USED inside the worker; '
              'BaseException, hang, worker death (isolated to the single case) or state change is a violation.'),
        note=("Partial by nature: byte-level corruption is handled by zipfile/json/numpy/scipy (not modelled; exercised only); the model has no interpreter recursion limit on graph paths through Ref jumps (tower(60,8): the model visualizes 2205 rows, "
              "the implementation raises RecursionError -- both are ordinary outcomes). Trusted: Coq kernel, worker instrumentation. Open finding D11 (exponential audit)."),
        ref="DESIGN.md section 4 C19"),
    "C20": dict(
        technique="Coq proof of schedule independence for local-write steps + regenerated frame table + fresh/history/threads differential runs",
        text=("coq/props/C20.v: for steps that read the module tables and write only their own call's state, under ANY schedule each thread ends in the state of its sequential run (induction over the schedule), "
              "with a refuted witness when a step writes a shared cell; the per-run obligation C20_frame_table states that the AST scan of skops/{io,card,cli,utils} finds no call-time write to module-level "
              "state (global statements, stores into / mutating calls on module objects, lru_cache/cache decorators, mutable defaults) -- re-checked against /repo on every run. Observed on the implementation: "
              "each generated API operation is computed first, after a random history, from 8 threads (switch interval 1e-6), and as the first call of a fresh process; module-level containers are hashed before/after; "
              "separate Card instances are checked not to share sections/metrics. Forced schedules include 'enter A, enter B, exit A, B goes on' over nestings on both sides of the default recursion limit, and the process-wide interpreter state (recursion limit, cwd, sys.path, environ, warning filters, umask) must equal the fresh-process state after the history/thread phase and after every forced scenario."),
        note=("Partial by nature: real preemption inside C extensions / free-threaded builds, singledispatch's cache, zipfile internals cannot be exhibited. Trusted: AST scan (fail-closed on unknown patterns only as far as listed), "
              "thread harness."),
        ref="DESIGN.md section 4 C20"),
    "C04": dict(
        technique="Coq model of the codec (pval, get_state, construct_val): faithful-or-refuses theorem on the C05 fragment, refusal theorems (same-spelling keys, unsupported values), one refuted theorem per remaining corruption class + schema/value correspondence",
        text=("coq/props/C04.v (14 theorems) over an executable Gallina model of every *_get_state function and every _construct (PyVal/CodecDump/CodecLoad, reusing the get_tree model): "
              "C04_faithful_or_refuses_partial is a theorem on the C05 fragment (scalars, nested list/tuple/set, dict family, slices, names, operator getters, arrays, sparse, dtype, masked, RNGs, partial, bytes/bytearray, object arrays of EVERY rank and shape with cells of any kind in the fragment; arbitrary sharing) under the decidable guard c04_ok "
              "(tuple, defaultdict and bytes subclasses keep their class: C04-F2/F3/F5 repaired); REFUSALS: C04_same_spelling_refused -- any dict or defaultdict with two kept keys of one JSON spelling, anywhere inside a value, makes dumps raise (induction over entries and position; "
              "C04_same_spelling_order: earlier values' exceptions win, later values are not serialised, property-valued entries are skipped first: D08 repaired in /repo), C04_unsupported_refused; one refuted theorem (vm_compute witness) per remaining corruption class = open findings "
              "D09 (frozenset/deque payload), D26 (property values), C04-F1, F4 (scalar subclasses, surrogate pairs), and C04-F6 (a masked array's non-default fill_value / hard mask is not stored: harness-level finding, the pval abstraction has no notion of those attributes); D10 is repaired in /repo: the former witness (a (2,2) array of lists) and seven further shapes (rank 0, zero-length axes, arrays of arrays) round-trip exactly (Example C04_objarray_fixed); C04_dump_pure holds by type. Beyond the fragment (user classes) correspondence-only: the model's normalised schema AND its "
              "predicted loaded value -- including the predicted corruption, refusal or exception class -- are compared with /repo on >= 350 generated values per run, and c04_ok => faithful-or-refuses is evaluated per case; dump purity by fingerprint before/after."),
        note=("Trusted: harness/pval_emit.py (object -> pval term), absval/canon (self-tested each run), numpy/scipy/json float codecs as opaque tokens, zipfile. D07 (bool keys), D08 (same-spelling keys), D25 (defaultdict keys), C04-F2 (defaultdict subclasses), "
              "C04-F3 (tuple subclasses), C04-F5 (bytes / bytearray subclasses, numpy.bytes_) and D10 (object arrays of rank 0 / >= 2 lost their shape) repaired in /repo."),
        ref="DESIGN.md section 4 C04"),
    "C05": dict(
        technique='Coq round-trip theorem at the real entry points (containers, dict family, arrays, sparse, dtype, masked, RNGs, partial, bytes/bytearray, object arrays of every rank; arbitrary sharing) + per-case vm_compute of the model round trip + implementation cycles',
        text=("coq/props/C05.v: C05_roundtrip_partial -- for every value in the fragment `c05_guard` (JSON scalars surviving the text codec; nested list/tuple/set; dict / OrderedDict / defaultdict with str/int/float/numpy-number keys without JSON-spelling collisions, including the key_types lists; slices; function and type names; attrgetter/itemgetter; numpy arrays and numpy scalars (opaque token in an <id>.npy member), scipy sparse matrices (<id>.npz), dtypes, masked arrays, RandomState, Generator, functools.partial, bytes / bytearray and their subclasses (uuid-named members: a shared bytes object is written once per occurrence and still loads as ONE object), object arrays of EVERY rank (0 included) and every shape whose product is the number of cells, zero-length axes included, with cells anywhere in the fragment: the nested lists tolist() creates get allocator labels, one ListNode per further axis, the shape tuple or the empty-tuple singleton, and the loader's cell-by-cell fill driven by the stored shape (D10 / C13-F1 repaired in /repo)) with ANY sharing of sub-objects (a DAG; premise: one label denotes one object; a shared array is written once and referenced from every occurrence), roundtrip = loads_model (dumps_model v) = Ok v, i.e. the same value with the same identity labels and sharing; proved through the memo first-occurrence invariant for trees get_tree builds from states get_state emits, at the root entry points incl. the protocol/_skops_version fields; C05_stable_partial for k cycles; totality of dumps on the fragment. Still outside the theorem (correspondence-only): user-class instances other than scipy sparse arrays (which take the object path and ARE inside). Full grammar: per generated value `supported v` and 'model loads(dumps(v)) has the abstraction of v' are evaluated by vm_compute, and the model's schema/value are compared with /repo; k-fold dump/load cycles and RNG stream continuation run on the implementation."),
        note=('Trusted: harness/pval_emit.py (object -> pval term), absval/canon (self-tested each run); floats identified with their repr text; numpy/scipy codecs opaque tokens.'),
        ref="DESIGN.md section 4 C05 / section 10"),
    "C06": dict(
        technique="Coq proof over a heap-walk model with an adversarial address allocator + state and behaviour correspondence under allocator pressure",
        text=("coq/props/C06.v (13 theorems, no axioms): for EVERY allocator that never returns a live address, every heap and root on which the dump terminates: ids are injective on visited objects and the memo pins them "
              "(also as a per-call invariant); two paths end in one loaded object iff they ended in one original object; id-named members <-> array-like objects visited; refuted without pinning (3- and 5-object witnesses); "
              "schema of the n-ladder >= 2^n (D11). Correspondence-only: that the model is the code -- get_state/clear_memo wrapped from outside (memo holds every handed object by identity), identity partition / member counts of "
              "original vs loaded on generated DAGs with a churned allocator, and Sharing.predict by vm_compute on the heap abstracted from recorded dumps."),
        note=("Trusted: CPython lifetime model (live objects have distinct ids); wrappers; absval; the heap abstraction. The real allocator is exercised, not driven adversarially. Open: D11, C06-F1 (masked arrays stored once per reference)."),
        ref="DESIGN.md section 4 C06"),
    "C07": dict(
        technique="Coq reduction theorem + default-trust theorem over the regenerated snapshot + estimator-sweep correspondence (partial)",
        text=("THEOREM (coq/props/C07.v): output fidelity reduces to state fidelity -- if methods depend only on (class, state) up to iso [hypothesis], the class is importable, states round-trip (C05) and the class honours its own "
              "__getstate__/__setstate__/__reduce__ contract, then ObjectNode/ReduceNode reassembly gives equal class, iso state, equal outputs; trees whose names are all snapshot defaults audit clean (tree and graph audit). "
              "CORRESPONDENCE-ONLY (tests, not proof): bit-identical method outputs, params and fitted attributes, get_untrusted_types on all_estimators() x parameter draws x dense/sparse/multi-output data, fitted/unfitted, + compositions."),
        note=("PARTIAL: sklearn/BLAS/Cython numerical behaviour cannot be modelled; method purity is a hypothesis exercised by bitwise tests on small data. Open: D12 (sparse ARRAYS through the object path; the matrix classes were repaired in /repo), C07-F1 (private estimator helpers), "
              "C07-F2 (negatively strided components_). Fixed in /repo: CyHalfMultinomialLoss dispatch."),
        ref="DESIGN.md section 4 C07"),
    "C12": dict(
        technique='Coq proofs: schema well-formedness, flat member names, members = file references (induction over the dump model); sink/compression independence as a theorem over the file-operation model with the zip container as read-back oracle, composed with the round trip; archive/sink/compression checks on the implementation',
        text=("coq/props/C12.v: C12_schema_wf (induction over pval, EVERY value that dumps -- the guard no_rank0 is gone with the repair of C13-F1: the content of an object array is a list of node states for every rank; root carries protocol and version; every loader-child state has __loader__ in the model's loader set, __class__, __module__, __id__), C12_flat_names for every value (each member name is flat and of the shape <id>.npy / <id>.npz / u<n>.bin / schema.json; uses injectivity of the decimal rendering of ids), C12_members_exact (the FULL statement: members written = file references of the schema for EVERY value that dumps, no guard left: colliding and non-JSON keys are refusals; induction over all kinds) with C12_colliding_keys_refused (the former C12-F1 witness), C12_loader_registered (per run), C12_sink_compression_independent (for EVERY value that dumps, every target -- dumps' return value, a path, an open binary file -- and every compression method/level the bytes that reach the target are the one complete buffer and unzip to the same archive; coq/sys/SinkFacts.v over Dump.v), C12_any_sink_loads_equal_partial (composition with C05: that archive loads to the dumped value on the fragment), C12_failing_dump_delivers_nothing. On the implementation: namelist (as a multiset) vs schema file refs, name regexes, and a 4 sinks x 8 compression configs product (incl. members of several hundred kB that compress 1000:1) compared after id/uuid normalisation and loaded back; fixed witnesses whose dump fails after members were written (no archive may exist), objects whose state is a temporary, and loaded = dumped value for the witnesses."),
        note=('Trusted: zipfile (container, codecs) = the read-back oracle hypothesis of the sink theorems; harness normaliser. C12-F1 (with D08) and the rank-0 object array layout (C13-F1) repaired in /repo.'),
        ref="DESIGN.md section 4 C12"),
}

PENDING_REASON = "check not built yet (see DESIGN.md section 8 build order); not claimed in this revision"


def main():
    eng_props = sorted(CLAIMED)
    m = {
        "version": 1,
        "setup_cmd": "bin/setup.sh",
        "hooks": {
            "guard": "SKOPS_VERIF",
            "enable": "none needed: all observation is external (audit hooks, wrapped module globals); checks export SKOPS_VERIF=1 anyway",
            "baseline_off_cmd": "cd /repo && /venv/bin/python -m pytest -ra -q -p no:cacheprovider --timeout=900 --continue-on-collection-errors",
            "source_commits": [],
            "add_only": True,
        },
        "engines": [
            {"name": "coq-model", "path": "coq/", "serves_properties": eng_props,
             "kind_free_text": "Coq 8.16.1 executable Gallina models (coq/base, io, card, sys) and property theorems (coq/props)"},
            {"name": "snapshot", "path": "harness/snapshot.py", "serves_properties": eng_props,
             "kind_free_text": "translator: tables computed by the live skops code -> Snapshot.v, regenerated and re-checked on every run"},
            {"name": "corr-cli", "path": "harness/impl_cli.py", "serves_properties": [p for p in eng_props if p in ("C16", "C17", "C18")],
             "kind_free_text": "audit-hook runner + crash injection for the command-line tools and dump sequencing"},
            {"name": "correspondence", "path": "harness/", "serves_properties": eng_props,
             "kind_free_text": "differential runs of the model (vm_compute) against /repo on generated cases"},
        ],
        "checks": [],
        "notes": "Technique family: machine-checked proof in Coq 8.16.1; see DESIGN.md. known_findings.json lists genuine defects recorded rather than repaired.",
        "not_applicable": [],
    }
    for p in ALL:
        if p in CLAIMED:
            c = CLAIMED[p]
            m["checks"].append({
                "property_id": p,
                "quick_cmd": f"bin/check {p} --tier quick",
                "thorough_cmd": f"bin/check {p} --tier thorough",
                "evidence_file": f"/verif/evidence/{p}.json",
                "replay_cmd_template": f"bin/check {p} --replay {{path}}",
                "engine": "coq-model",
                "level_claimed": {"category": "proof", "text": c["text"], "design_ref": c["ref"]},
                "level_note": c["note"],
                "technique": c["technique"],
            })
        else:
            m["not_applicable"].append({"property_id": p, "reason": PENDING_REASON})
    (V / "MANIFEST.json").write_text(json.dumps(m, indent=1) + "\n")


if __name__ == "__main__":
    main()
