"""Card snapshot translator: re-extract from the live skops.card code the module-level data that Card.__init__ /
_populate_template reads, and emit it as Coq definitions (Gen/CardSnapshot.v) for coq/card/Init.v.

  SKOPS_TEMPLATE (items, dict order) · VALID_TEMPLATES (sorted) · Templates.skops.value · CONTENT_PLACEHOLDER ·
  default `section=` / `description=` of add_hyperparams, add_model_plot, add_metrics (inspect.signature) ·
  default `template=` / `model_diagram=` of Card.__init__ · the named parameters of Card.add ·
  the description text each builder uses when description is None, obtained BEHAVIOURALLY (the builder is called on
  a scratch card with a stub model, with and without the skops template, and the section is read back).

Fail-closed: anything it cannot map aborts with a non-zero exit status (the check reports a broken obligation).
usage: card_snapshot.py OUT.v OUT.json
"""
from __future__ import annotations

import inspect
import json
import sys
import warnings
from collections.abc import Mapping
from pathlib import Path

sys.path.insert(0, str(Path(__file__).resolve().parent))
from common import cbool, clist, cstr  # noqa: E402

warnings.simplefilter("ignore")

PROBE_HTML = "PROBE"          # no line feed, no class name: _add_model_plot leaves it as it is


def abort(msg):
    print("CARD-SNAPSHOT-ABORT: " + msg, file=sys.stderr)
    sys.exit(3)


def need_str(x, what):
    if not isinstance(x, str):
        abort(f"{what} is {type(x).__name__}, not a str: {x!r}")
    return x


def sig_default(fn, name):
    p = inspect.signature(fn).parameters.get(name)
    if p is None or p.default is inspect.Parameter.empty:
        abort(f"{fn.__qualname__} has no default for {name!r}")
    return p.default


def coq_opt(x, what):
    if x is None:
        return "None"
    return f"(Some {cstr(need_str(x, what))})"


def coq_template(x):
    if x is None:
        return "TNone"
    if isinstance(x, str):
        return f"(TStr {cstr(x)})"
    if isinstance(x, Mapping):
        return "(TMap " + clist((f"({cstr(need_str(k, 'template key'))}, {cstr(need_str(v, 'template content'))})"
                                 for k, v in x.items()), "(pstr * pstr)") + ")"
    abort(f"default template of Card.__init__ is {x!r}")


def coq_diagram(x):
    if isinstance(x, bool):
        return f"(DBool {cbool(x)})"
    if isinstance(x, str):
        return f"(DStr {cstr(x)})"
    abort(f"default model_diagram of Card.__init__ is {x!r}")


def default_descriptions(sections):
    """{builder: {"skops": text, "plain": text}}: what description=None turns into, read back from the section."""
    import impl_card as I
    from skops.card import Card
    I.install_html_hook()
    out = {}
    for variant, template in (("skops", "skops"), ("plain", None)):
        stub = I.StubModel()
        stub.params = {"p": 1}
        I.HTML["next"] = PROBE_HTML
        try:
            card = Card(stub, template=template, model_diagram=False)
            card.add_hyperparams()
            card.add_metrics(m=1)
            card.add_model_plot()
        finally:
            I.HTML["next"] = None
        for name in ("hyper", "metrics"):
            x = card.select(sections[name])
            if type(x).__name__ != "TableSection":
                abort(f"{name}: the builder's section at its default path is a {type(x).__name__}")
            out.setdefault(name, {})[variant] = need_str(x.content, f"{name} section content")
        x = card.select(sections["plot"])
        content = need_str(x.content, "model plot section content")
        if content == PROBE_HTML:
            desc = ""
        elif content.endswith("\n\n" + PROBE_HTML):
            desc = content[: -len("\n\n" + PROBE_HTML)]
        else:
            abort(f"model plot content {content!r} is not [description, blank line,] diagram")
        out.setdefault("plot", {})[variant] = desc
    return out


def main(out_v, out_json):
    import skops.card._model_card as mc
    from skops.card import Card
    from skops.card import _templates as T

    template = [(need_str(k, "SKOPS_TEMPLATE key"), need_str(v, f"SKOPS_TEMPLATE[{k!r}]")) for k, v in T.SKOPS_TEMPLATE.items()]
    if mc.SKOPS_TEMPLATE is not T.SKOPS_TEMPLATE:
        abort("skops.card._model_card.SKOPS_TEMPLATE is not the dict of skops.card._templates")
    valid = sorted(need_str(v, "VALID_TEMPLATES member") for v in mc.VALID_TEMPLATES)
    skops_name = need_str(mc.Templates.skops.value, "Templates.skops.value")
    placeholder = need_str(mc.CONTENT_PLACEHOLDER, "CONTENT_PLACEHOLDER")
    sections = {"hyper": need_str(sig_default(Card.add_hyperparams, "section"), "add_hyperparams section default"),
                "plot": need_str(sig_default(Card.add_model_plot, "section"), "add_model_plot section default"),
                "metrics": need_str(sig_default(Card.add_metrics, "section"), "add_metrics section default")}
    desc_defaults = {"hyper": sig_default(Card.add_hyperparams, "description"),
                     "plot": sig_default(Card.add_model_plot, "description"),
                     "metrics": sig_default(Card.add_metrics, "description")}
    # Card.add(self, folded=False, **kwargs): a keyword equal to a named parameter cannot reach **kwargs
    add_sig = inspect.signature(Card.add)
    if not any(p.kind is inspect.Parameter.VAR_KEYWORD for p in add_sig.parameters.values()):
        abort("Card.add takes no **kwargs")
    add_params = [n for n, p in add_sig.parameters.items()
                  if p.kind not in (inspect.Parameter.VAR_KEYWORD, inspect.Parameter.VAR_POSITIONAL, inspect.Parameter.POSITIONAL_ONLY)]
    init_template = sig_default(Card.__init__, "template")
    init_diagram = sig_default(Card.__init__, "model_diagram")
    descs = default_descriptions(sections)

    info = {"skops_template": template, "valid_templates": valid, "skops_name": skops_name, "content_placeholder": placeholder,
            "default_sections": sections, "default_description_arguments": desc_defaults, "add_params": add_params,
            "init_default_template": init_template if not isinstance(init_template, Mapping) else dict(init_template),
            "init_default_model_diagram": init_diagram, "default_description_texts": descs}

    kv = lambda pairs: clist((f"({cstr(k)}, {cstr(v)})" for k, v in pairs), "(pstr * pstr)")
    o = ["(* GENERATED by harness/card_snapshot.py from the live skops.card code -- do not edit *)",
         "From Skv Require Import PyStr Json Init.", "Open Scope N_scope.",
         "Definition skops_template : list (pstr * pstr) := " + kv(template) + ".",
         "Definition valid_templates : list pstr := " + clist((cstr(v) for v in valid), "pstr") + ".",
         "Definition skops_name : pstr := " + cstr(skops_name) + ".",
         "Definition content_placeholder : pstr := " + cstr(placeholder) + ".",
         "Definition hyper_section : pstr := " + cstr(sections["hyper"]) + ".",
         "Definition plot_section : pstr := " + cstr(sections["plot"]) + ".",
         "Definition metrics_section : pstr := " + cstr(sections["metrics"]) + ".",
         "Definition add_params : list pstr := " + clist((cstr(n) for n in add_params), "pstr") + ".",
         "(* description= defaults of the three builders (signature) *)",
         "Definition hyper_description_default : option pstr := " + coq_opt(desc_defaults["hyper"], "add_hyperparams description default") + ".",
         "Definition plot_description_default : option pstr := " + coq_opt(desc_defaults["plot"], "add_model_plot description default") + ".",
         "Definition metrics_description_default : option pstr := " + coq_opt(desc_defaults["metrics"], "add_metrics description default") + ".",
         "(* the text a builder called without description puts in front of its table / diagram: (builder, under the skops template, "
         "under no template), read back from a scratch card *)",
         "Definition default_description_texts : list (pstr * (pstr * pstr)) := "
         + clist((f"({cstr(n)}, ({cstr(descs[n]['skops'])}, {cstr(descs[n]['plain'])}))" for n in ("hyper", "plot", "metrics")),
                 "(pstr * (pstr * pstr))") + ".",
         "(* Card(model): the defaults of template= and model_diagram= *)",
         "Definition default_template : template := " + coq_template(init_template) + ".",
         "Definition default_diagram : diagram := " + coq_diagram(init_diagram) + ".",
         "Definition cfg : config := mkConfig skops_template valid_templates skops_name hyper_section plot_section add_params.",
         ""]
    Path(out_v).write_text("\n".join(o))
    Path(out_json).write_text(json.dumps(info, indent=1, default=str))


if __name__ == "__main__":
    main(sys.argv[1], sys.argv[2])
