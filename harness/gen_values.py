"""Generator of value specs (see values.py).  Two grammars:
supported=True  -- the families property C05 lists as round-tripping exactly (plus, since the repair of D10 / C13-F1, object
                   arrays of every rank -- 0, zero-length axes -- with cells of any supported kind; plus user objects on the generic
                   object path whose class restores the state it hands out: __dict__ bags, __getstate__/__setstate__ pairs with dict /
                   non-dict / falsy states, __reduce__ constructors -- `supported` (coq/io/CodecGuards.v) admits them);
supported=False -- additionally the kinds C04 lists (frozenset, deque, Counter, namedtuple, range, bool/None/colliding dict
                   keys, object arrays of any rank, user classes with __getstate__/__slots__/__reduce__, bound methods, ...).
All randomness comes from the random.Random passed in."""
from __future__ import annotations

DTYPES = ["<f8", "<f4", "<i8", "<i4", "|u1", "|b1", ">f8", ">i4", "<c16", "<U3", "|S2", "<M8[D]", "<m8[s]", "<f2", "<u8"]
BITGENS = ["PCG64", "MT19937", "Philox", "SFC64", "PCG64DXSM"]
SPARSE = ["csr", "csc", "coo", "bsr", "dia", "csr_array", "coo_array"]
STRS = ["", "a", "key", "é", "日本", "x\x00y", "with space", "1", "true", "null", "\U0001f600"]
FLOATS = ["0x1.8p+1", "0x0.0p+0", "-0x0.0p+0", "nan", "inf", "-inf", "0x1.999999999999ap-4", "0x1.fffffffffffffp+1023", "0x0.0000000000001p-1022"]


class VGen:
    def __init__(self, rnd, supported=True, share=0.08, nasty=0.0, objects=False):
        self.r = rnd
        self.sup = supported
        self.objects = objects and supported     # user objects in the supported stream (C05 asks for them; the other users keep their streams)
        self.n_identity = 0
        self.share = share
        # probability that a dict key / attribute name holds unprintable characters (line breaks, controls, lone surrogates:
        # gen_archives.NASTY_CHARS).  C13 only; with 0.0 no extra random draw is made
        self.nasty = nasty

    def ident(self):
        self.n_identity += 1

    # ---- scalars
    def scalar(self):
        k = self.r.randint(0, 7)
        if k == 0:
            return ["none"]
        if k == 1:
            return ["bool", self.r.random() < 0.5]
        if k == 2:
            return ["int", self.r.choice([0, 1, -1, 7, 2**31, -2**63, 10**18])]
        if k == 3:
            return ["bigint", str(self.r.choice([2**64, -(10**30), 10**400]))]
        if k == 4:
            return ["float", self.r.choice(FLOATS)]
        return ["str", self.r.choice(STRS)]

    def key(self):
        if self.nasty and self.r.random() < self.nasty:
            from gen_archives import nasty_text
            return ["str", nasty_text(self.r)]
        k = self.r.random()
        if k < 0.5:
            return ["str", self.r.choice(["a", "b", "c", "k1", "é", "x y"])]
        if k < 0.7:
            return ["int", self.r.choice([0, 1, 2, 5, -3])]
        if k < 0.8:
            return ["float", self.r.choice(["0x1.8p+1", "0x1.0p+1", "0x1.0p-1"])]
        if k < 0.9:
            return ["npscalar", self.r.choice(["<i8", "<f8", "<i4"]), self.r.choice([3, 4, 9])]
        if self.sup:
            return ["str", "z"]
        return self.r.choice([["bool", True], ["bool", False], ["none"], ["str", "1"], ["int", 1], ["str", "true"], ["tuple", [["int", 1]]]])

    def keys(self, n):
        out, seen = [], set()
        for _ in range(n):
            k = self.key()
            sig = repr(k)
            if self.sup:
                # no coercion collisions in the supported grammar: distinct after str()-ification of numbers
                v = k[1] if k[0] != "npscalar" else k[2]
                if k[0] == "float":
                    v = float.fromhex(v)
                sig = str(v) if not isinstance(v, str) else "s:" + v
                if isinstance(v, (int, float)) and not isinstance(v, bool):
                    sig = "n:" + repr(float(v))
            if sig in seen:
                continue
            seen.add(sig)
            out.append(k)
        return out

    # ---- arrays etc.
    def ndarray(self):
        self.ident()
        shape = self.r.choice([[3], [2, 3], [0], [], [2, 0, 2], [4, 1], [1, 1, 2]])
        if self.r.random() < 0.015:
            shape = self.r.choice([[380, 360], [140000], [3, 50000]])      # above a megabyte for 8-byte items
        return ["ndarray", self.r.choice(DTYPES), shape, self.r.choice(["C", "F"]), self.r.randint(0, 99), self.r.random() < 0.3]

    def objarray(self, d):
        self.ident()
        if self.sup and self.r.random() < 0.4:
            # the arrays property C05 names: non-empty, rank >= 1, cells scalars / strings / None
            n = self.r.randint(1, 4)
            cells = [self.r.choice([self.scalar_cell, self.scalar_cell])() for _ in range(n)]
            shape = [n] if self.r.random() < 0.6 or n % 2 else [n // 2, 2]
            return ["objarray", shape, cells]
        # every rank (0 included), zero-length axes, cells of any kind -- lists / tuples (the empty tuple is the very object
        # that is the shape of a rank-0 array) and nested containers included: since the repair of D10 / C13-F1 they all keep
        # their shape, so they belong to the mostly-valid stream as well
        shape = self.r.choice([[], [], [], [1], [2], [3], [2, 2], [2, 2], [1, 2], [2, 1], [1, 1, 2], [2, 1, 2], [0], [2, 0], [0, 2], [1, 0, 3]])
        n = 1
        for k in shape:
            n *= k
        cells = [self.objcell(d) for _ in range(n)]
        return ["objarray", shape, cells]

    def objcell(self, d):
        k = self.r.random()
        if k < 0.3:
            return self.scalar_cell()
        if k < 0.65:
            m = self.r.randint(0, 2)
            self.ident()
            return [self.r.choice(["list", "tuple", "tuple"]), [self.scalar_cell() for _ in range(m)]]
        return self.value(d - 1)

    def scalar_cell(self):
        return self.r.choice([["none"], ["int", 3], ["str", "s"], ["float", "0x1.8p+1"], ["bool", True]])

    def leaf(self):
        c = self.r.randint(0, 15)
        if c <= 4:
            return self.scalar()
        if c == 5:
            return ["bytes", self.r.choice(["", "00ff10", "6162"])]
        if c == 6:
            self.ident()
            if not self.sup and self.r.random() < 0.5:
                return ["mybytes", self.r.choice(["MyBytes", "MyByteArray", "np.bytes_"]), self.r.choice(["6162", "00ff"])]
            return ["bytearray", self.r.choice(["", "0102"])]
        if c == 7:
            return ["slice", self.r.choice([["none"], ["int", 1]]), self.r.choice([["none"], ["int", 5]]), self.r.choice([["none"], ["int", 2]])]
        if c == 8:
            return self.ndarray()
        if c == 9:
            # incl. scalar types whose .npy descr coincides with another type's (longlong/ulonglong: '<i8'/'<u8' like int64/uint64)
            return ["npscalar", self.r.choice(["<f8", "<i4", "|b1", "<f4", "<c16", "q", "Q", "<f2", "g", "<c8", "<u2"]), self.r.choice([0, 1, 3])]
        if c == 10:
            return self.r.choice([["dtype", self.r.choice(DTYPES)], ["structdtype"]])
        if c == 11:
            self.ident()
            return self.r.choice([["randomstate", self.r.randint(0, 9), self.r.randint(0, 3)],
                                  ["randomstate", self.r.randint(0, 9), self.r.randint(0, 3), self.r.choice(BITGENS)],
                                  ["generator", self.r.choice(BITGENS), self.r.randint(0, 9), self.r.randint(0, 3)] + ([self.r.randint(1, 3)] if self.r.random() < 0.3 else [])])
        if c == 12:
            self.ident()
            if self.r.random() < 0.25:
                return ["sparse", self.r.choice(["csr", "csc", "coo"]), self.r.choice([[3, 4], [5, 2]]), self.r.randint(0, 9), "noncanonical"]
            return ["sparse", self.r.choice(SPARSE), self.r.choice([[3, 4], [1, 1], [5, 2]]), self.r.randint(0, 9)]
        if c == 13:
            return self.r.choice([["ufunc", self.r.choice(["np.sqrt", "np.add", "scipy.special.expit"])], ["type", self.r.choice(["int", "list", "np.float64", "np.ndarray", "dict"])]])
        if c == 14:
            return self.r.choice([["attrgetter", ["a", "b.c"]], ["itemgetter", [["int", 1], ["str", "k"]]]])
        self.ident()
        return ["masked", self.ndarray()[0:5] + [False], self.r.randint(0, 9)] if self.r.random() < 0.5 else self.ndarray()

    def odd_leaf(self):
        """kinds outside the supported grammar (C04)"""
        c = self.r.randint(0, 13)
        if c == 0:
            return ["frozenset", [["int", 1], ["str", "a"]][: self.r.randint(0, 2)]]
        if c == 1:
            self.ident()
            return ["deque", [["int", 1], ["int", 2]][: self.r.randint(0, 2)]]
        if c == 2:
            self.ident()
            return ["counter", [[["str", "a"], ["int", 2]]]]
        if c == 3:
            return ["namedtuple", ["int", 1], ["str", "y"]]
        if c == 4:
            return ["range", [0, self.r.randint(0, 4)]]
        if c == 5:
            return ["date", [2020, 1, 2]]
        if c == 6:
            return ["complex", "0x1.0p+0", "-0x1.0p+1"]
        if c == 7:
            return self.r.choice([["myint", 5], ["mystr", "s"]])
        if c == 8 and self.r.random() < 0.3:
            self.ident()
            return ["userobj", "FalsyState", [["flag", self.r.choice([["bool", False], ["int", 0], ["tuple", []], ["dict", []], ["str", ""], ["int", 3], ["bool", True]])]]]
        if c == 8 and self.r.random() < 0.2:
            self.ident()
            return ["list", [["userobj", "FreshState", [["db", ["float", (0.5 * (i + 1) * self.r.choice([1, -3, 7])).hex()]]]] for i in range(self.r.randint(2, 4))]]
        if c == 8 and self.nasty and self.r.random() < self.nasty:
            from gen_archives import nasty_text
            self.ident()
            # setattr(obj, name, v) takes any string: the attribute names are the keys of the dumped __dict__
            return ["userobj", "Plain", [[nasty_text(self.r), self.scalar()], ["b", self.scalar()]][: self.r.randint(1, 2)]]
        if c == 8:
            self.ident()
            return ["userobj", self.r.choice(["Plain", "WithState", "Slotted", "ReduceCtor"]), [["a", self.scalar()], ["b", self.scalar()]][: self.r.randint(0, 2)]]
        if c == 9:
            self.ident()
            return ["method", ["userobj", "Plain", [["a", ["int", 1]]]]]
        if c == 10:
            return ["methodcaller", "fit", [["int", 1]]]
        if c == 11:
            self.ident()
            return ["matrix", ["ndarray", "<f8", [2, 2], "C", 1, False]]
        if c == 12:
            return self.r.choice([["ufunc", "len"], ["ufunc", "np.mean"], ["type", "Plain"], ["type", "map"]])
        return ["npscalar", "<M8[D]", 5]

    def value(self, depth):
        if self.n_identity and self.r.random() < self.share:
            return ["ref", self.r.randrange(1 << 16)]
        if depth <= 0 or self.r.random() < 0.3:
            if not self.sup and self.r.random() < 0.3:
                return self.odd_leaf()
            return self.leaf()
        c = self.r.randint(0, 9)
        n = self.r.randint(0, 3)
        if c <= 1:
            self.ident()
            return ["list", [self.value(depth - 1) for _ in range(n)]]
        if c == 2:
            return ["tuple", [self.value(depth - 1) for _ in range(n)]]
        if c == 3:
            self.ident()
            return ["set", [self.r.choice([["int", i], ["str", "s%d" % i], ["float", "0x1.8p+%d" % i]]) for i in range(n)]]
        if c in (4, 5):
            self.ident()
            return [self.r.choice(["dict", "dict", "odict"]), [[k, self.value(depth - 1)] for k in self.keys(n)]]
        if c == 6:
            self.ident()
            ks = self.keys(n)
            return ["defaultdict", self.r.choice(["list", "int", "none"]), [[k, self.value(depth - 1)] for k in ks]]
        if c == 7:
            return self.objarray(depth)
        if c == 8:
            self.ident()
            return ["partial", self.r.choice(["np.add", "np.sqrt"]), [self.value(depth - 1) for _ in range(self.r.randint(0, 2))],
                    [["k", self.value(depth - 1)]] if self.r.random() < 0.4 else []]
        if not self.sup:
            self.ident()
            return self.r.choice([["mylist", [self.value(depth - 1) for _ in range(n)]],
                                  ["mydict", [[["str", "a"], self.value(depth - 1)]]],
                                  ["userobj", "Plain", [["attr", self.value(depth - 1)], ["key_types", ["int", 1]]][: self.r.randint(1, 2)]],
                                  ["mydefaultdict", "list", [[["str", "a"], self.value(depth - 1)]]]])
        if self.objects and self.r.random() < 0.6:
            return self.userobj(depth)
        self.ident()
        return ["list", [self.value(depth - 1) for _ in range(n)]]

    def userobj(self, d):
        """user objects on the generic object path whose class restores the state it hands out (they round-trip exactly: inside
        the fragment of C05_roundtrip_partial since `supported` admits PObj): a __dict__ bag holding any supported values, a
        __getstate__/__setstate__ pair, states that are not dicts (falsy ones included), a __reduce__ constructor"""
        self.ident()
        k = self.r.randint(0, 5)
        if k <= 1:
            return ["userobj", "Plain", [["attr", self.value(d - 1)], ["coef_", self.ndarray()], ["n_iter_", ["int", 7]]][: self.r.randint(0, 3)]]
        if k == 2:
            return ["userobj", "WithState", [["payload", self.value(d - 1)]]]
        if k == 3:
            return ["userobj", "FalsyState", [["flag", self.r.choice([["bool", False], ["int", 0], ["tuple", []], ["dict", []], ["str", ""], ["int", 3],
                                                                       ["tuple", [["int", 1], ["str", "s"]]], ["list", [["float", "0x1.8p+1"]]]])]]]
        if k == 4:
            return ["userobj", "ReduceCtor", [["x", self.value(d - 1)], ["y", self.scalar()]][: self.r.randint(1, 2)]]
        # one object reachable from two places, and from inside another object
        return ["list", [["userobj", "Plain", [["a", self.scalar()]]], ["ref", self.r.randrange(1 << 16)], ["userobj", "WithState", [["payload", ["ref", self.r.randrange(1 << 16)]]]]]]

def gen_value(rnd, supported=True, max_depth=3, nasty=0.0, objects=False):
    g = VGen(rnd, supported, nasty=nasty, objects=objects)
    return g.value(rnd.randint(0, max_depth))


def tags_in(spec, out=None):
    out = out if out is not None else {}
    if isinstance(spec, list) and spec and isinstance(spec[0], str):
        out[spec[0]] = out.get(spec[0], 0) + 1
        for x in spec[1:]:
            tags_in(x, out)
    elif isinstance(spec, list):
        for x in spec:
            tags_in(x, out)
    return out
