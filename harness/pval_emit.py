"""Real Python object -> Coq term of type `pval` (coq/io/PyVal.v), and the canonical texts the
model's CodecShow.v produces (value abstraction, normalised schema).

Identity labels: every object met while walking the value the way the dumper walks it gets a
small number through its real id() (objects are kept alive meanwhile); CPython's cached small ints
and the empty-tuple singleton get the fixed labels the model's allocator also uses
(CodecDump.small_int_base / empty_tuple_id).  Observation calls (__reduce__(), __getstate__(),
get_state(legacy=False), bit_generator.state, .data/.mask) are made once here; the labels of what
they return stand for the labels of what the real dump sees (same sharing pattern is assumed).
Array / sparse / dtype payloads become tokens derived from absval's fingerprint of them.
"""
from __future__ import annotations

import collections
import functools
import hashlib
import importlib
import json
import operator
import pickle
import types

import numpy as np

from absval import abs_value
from common import cbool, clist, cstr, cz

try:
    import scipy.sparse as sp
    from scipy.sparse import spmatrix
except Exception:  # pragma: no cover
    sp = None
    spmatrix = ()

try:
    try:
        from numpy._core._multiarray_umath import _ArrayFunctionDispatcher
    except ImportError:  # pragma: no cover
        from numpy.core._multiarray_umath import _ArrayFunctionDispatcher
except ImportError:  # pragma: no cover
    _ArrayFunctionDispatcher = ()

SMALL_INT_BASE = 100000
EMPTY_TUPLE_ID = 99000
BASE = 1000000
BUILTIN_FN = type(len)
EMPTY_TUPLE = ()


class Unmodelled(Exception):
    pass


def sha(x):
    return hashlib.sha1(json.dumps(x, sort_keys=True, default=str).encode()).hexdigest()[:12]


def exc_enum(e):
    """Python exception -> the model's err enum text (coq/io/IoShow.v:show_err)"""
    n = type(e).__name__
    if n == "UnsupportedTypeException":
        return "Unsupported"
    if n == "UntrustedTypesFoundException":
        return "Untrusted"
    for cls, name in ((RecursionError, "RecursionError"), (KeyError, "KeyError"), (TypeError, "TypeError"), (ValueError, "ValueError"),
                      (AttributeError, "AttributeError"), (ImportError, "ImportError")):
        if isinstance(e, cls):
            return name
    return "Other"


ENUM_COQ = {"KeyError": "EKey", "TypeError": "EType", "ValueError": "EValue", "AttributeError": "EAttr", "ImportError": "EImport",
            "RecursionError": "ERecursion", "Unsupported": "EUnsupported", "Other": "EOther"}


_DISPATCH = []


def skops_dispatch(t):
    """name of the get_state function skops' singledispatch selects for the type t (None when skops is not importable:
    then the emitter's own isinstance chain decides, as before)"""
    if not _DISPATCH:
        try:
            import skops.io  # noqa: F401  (registers every module's GET_STATE_DISPATCH_FUNCTIONS)
            from skops.io._utils import _get_state
            _DISPATCH.append(_get_state)
        except Exception:  # pragma: no cover
            _DISPATCH.append(None)
    g = _DISPATCH[0]
    if g is None:
        return None
    try:
        return g.dispatch(t).__name__
    except Exception:  # pragma: no cover
        return None


def get_module(obj):
    """skops.io._utils.get_module == pickle.whichmodule(obj, obj.__name__) (copied from there)"""
    return pickle.whichmodule(obj, obj.__name__)


def isnamedtuple(t):
    b = t.__bases__
    if len(b) != 1 or b[0] != tuple:
        return False
    f = getattr(t, "_fields", None)
    if not isinstance(f, tuple):
        return False
    return all(isinstance(n, str) for n in f)


def float_tok(x):
    return json.dumps(x)


def scalar_term(v):
    """exact None/bool/int/float/str, or the base value of a subclass instance"""
    if v is None:
        return "SNone"
    if isinstance(v, bool):
        return f"(SBool {cbool(v)})"
    if isinstance(v, int):
        return f"(SInt {cz(int(v))})"
    if isinstance(v, float):
        return f"(SFloat {cstr(float_tok(float(v)))})"
    if isinstance(v, str):
        return f"(SStr {cstr(str.__str__(v))})"
    raise Unmodelled("scalar " + type(v).__name__)


def array_token(a):
    return sha(abs_value(a)[3]) if isinstance(a, np.ndarray) else sha(abs_value(a)[1:])


class Emitter:
    def __init__(self):
        self.ids = {}
        self.keep = []
        self.n = 0
        self.tyids = {}
        self.names = set()          # (module, name) pairs the loader may resolve
        self.namedtuples = set()
        self.generic = set()
        self.kinds = collections.Counter()
        self.stack = set()

    def oid(self, o):
        if type(o) is int and -5 <= o <= 256:
            return SMALL_INT_BASE + o
        if o is EMPTY_TUPLE:
            return EMPTY_TUPLE_ID
        k = id(o)
        if k not in self.ids:
            self.n += 1
            self.ids[k] = self.n
            self.keep.append(o)
        return self.ids[k]

    def cls(self, t, name=None):
        m, c = get_module(t), name or t.__name__
        self.names.add((m, c))
        return f"{cstr(m)} {cstr(c)}"

    def key(self, k):
        t = type(k)
        m, c = get_module(t), t.__name__
        self.names.add((m, c))
        self.tyids[f"{m}.{c}"] = self.oid(t)
        v = k
        if np.isscalar(k) and hasattr(k, "item"):
            v = k.item()
        if v is None or isinstance(v, (bool, int, float, str)):
            val = f"(Some {scalar_term(v)})"
        else:
            val = "None"
        return f"{{| k_mod := {cstr(m)}; k_cls := {cstr(c)}; k_val := {val} |}}"

    def items(self, d):
        return clist((f"({self.key(k)}, {self.emit(v)})" for k, v in d.items()), "(dkey * pval)")

    def bound(self, b):
        if b is None or isinstance(b, (bool, int, float, str)) and not isinstance(b, np.generic):
            return f"(BScalar {scalar_term(b)})"
        return "BOther"

    def emit(self, o):
        k = id(o)
        if k in self.stack:
            raise Unmodelled("cycle")
        self.stack.add(k)
        try:
            return self._emit(o)
        finally:
            self.stack.discard(k)

    def _emit(self, o):
        t = type(o)
        i = cz(self.oid(o))
        E = self.emit
        if o is None or t in (bool, int, float, str):
            self.kinds["scalar"] += 1
            return f"(PScalar {i} {scalar_term(o)})"
        if isinstance(o, (bytes, bytearray)):
            # before np.generic: numpy.bytes_ has bytes BEFORE generic in its MRO, so the dispatch picks bytes_get_state
            self.kinds["bytes" if t in (bytes, bytearray) else "bytes-subclass"] += 1
            return f"(PBytes {i} {cbool(isinstance(o, bytearray))} {self.cls(t)} {cstr(bytes(o).hex())})"
        if isinstance(o, np.generic):
            self.kinds["npscalar"] += 1
            self.generic.add(f"{get_module(t)}.{t.__name__}")
            return f"(PArr {i} true {self.cls(t)} {cstr(array_token(o))})"
        if isinstance(o, (int, float, str)):
            self.kinds["scalar-subclass"] += 1
            return f"(PSub {i} {self.cls(t)} {scalar_term(o)})"
        if isinstance(o, np.ma.MaskedArray):
            self.kinds["masked"] += 1
            return f"(PMasked {i} {self.cls(t)} {E(o.data)} {E(o.mask)})"
        if isinstance(o, np.ndarray):
            if o.dtype == object:
                self.kinds["objarray"] += 1
                cells = o.ravel(order="C").tolist() if o.ndim else [o.tolist()]
                return f"(PObjArr {i} {self.cls(t)} {clist(map(cz, o.shape), 'Z')} {clist(map(E, cells), 'pval')})"
            self.kinds["ndarray"] += 1
            return f"(PArr {i} false {self.cls(t)} {cstr(array_token(o))})"
        if isinstance(o, collections.defaultdict):
            self.kinds["defaultdict" if t is collections.defaultdict else "defaultdict-subclass"] += 1
            return f"(PDefDict {i} {self.cls(t)} {E(o.default_factory)} {self.items(o)})"
        if isinstance(o, dict):
            self.kinds["dict" if t in (dict, collections.OrderedDict) else "dict-subclass"] += 1
            return f"(PDict {i} {self.cls(t)} {self.items(o)})"
        if isinstance(o, (list, set, tuple)):
            q = "QList" if isinstance(o, list) else ("QSet" if isinstance(o, set) else "QTuple")
            nt = isinstance(o, tuple) and isnamedtuple(t)
            if nt:
                self.namedtuples.add(f"{get_module(t)}.{t.__name__}")
            self.kinds[q[1:].lower() if t in (list, set, tuple) else q[1:].lower() + "-subclass"] += 1
            return f"(PSeq {q} {i} {self.cls(t)} {cbool(nt)} {clist(map(E, o), 'pval')})"
        if isinstance(o, slice):
            self.kinds["slice"] += 1
            return f"(PSlice {i} {self.bound(o.start)} {self.bound(o.stop)} {self.bound(o.step)})"
        if isinstance(o, (types.FunctionType, np.ufunc)) or (_ArrayFunctionDispatcher and isinstance(o, _ArrayFunctionDispatcher)):
            self.kinds["function"] += 1
            m, c = get_module(o), o.__name__
            self.names.add((m, c))
            return f"(PFunc {i} {cstr(m)} {cstr(c)})"
        if isinstance(o, types.MethodType):
            self.kinds["method"] += 1
            return f"(PMethod {i} {cstr(get_module(o))} {cstr(o.__func__.__name__)} {E(o.__self__)})"
        if isinstance(o, functools.partial):
            self.kinds["partial"] += 1
            _, _, (func, args, kwds, ns) = o.__reduce__()
            return f"(PPartial {i} {self.cls(t)} {E(func)} {E(args)} {E(kwds)} {E(ns)})"
        if isinstance(o, (type, BUILTIN_FN)):
            self.kinds["type"] += 1
            m, c = get_module(o), o.__name__
            self.names.add((m, c))
            return f"(PType {i} {cstr(m)} {cstr(c)})"
        if isinstance(o, (operator.attrgetter, operator.itemgetter, operator.methodcaller)):
            self.kinds["opfunc"] += 1
            _, attrs = o.__reduce__()
            self.names.add(("operator", t.__name__))
            return f"(POpFunc {i} {cstr(t.__name__)} {E(attrs)})"
        if isinstance(o, np.dtype):
            self.kinds["dtype"] += 1
            return f"(PDType {i} {cstr(sha(abs_value(o)[1:]))})"
        if isinstance(o, np.random.RandomState):
            self.kinds["randomstate"] += 1
            return f"(PRandState {i} {self.cls(t)} {E(o.get_state(legacy=False))})"
        if isinstance(o, np.random.Generator):
            self.kinds["generator"] += 1
            return f"(PRandGen {i} {self.cls(t)} {E(o.bit_generator.state)} {E(o.bit_generator.seed_seq.state)})"
        if sp is not None and isinstance(o, spmatrix):
            self.kinds["sparse"] += 1
            return f"(PSparse {i} {self.cls(t)} {cstr(sha(abs_value(o)[3]))})"
        if isinstance(o, property):
            self.kinds["property"] += 1
            return f"(PProp {i})"
        # ---- object_get_state: only when skops' own dispatch sends the type there.  scikit-learn estimators (BaseEstimator:
        # __getstate__() = parameters + fitted attributes + _sklearn_version) and their private helpers take this path; Cython-backed
        # objects that skops registers with a function of its own (Tree -> TreeNode, loss objects -> LossNode: ReduceNode with
        # constructor arguments AND a state; the types registered as unsupported) are not part of the value model
        fn = skops_dispatch(t)
        if fn is not None and fn != "object_get_state":
            raise Unmodelled("skops dispatches " + (t.__module__ or "") .split(".")[0] + " object to " + fn)
        try:
            json.dumps(o)
            raise Unmodelled("json-able object of type " + t.__name__)
        except Unmodelled:
            raise
        except Exception:
            pass
        self.kinds["object:" + t.__name__] += 1
        hk, hidden = "HKNone", "(@nil pval)"
        if isinstance(o, frozenset):
            hk, hidden = "HKSet", clist(map(E, o), "pval")
        elif isinstance(o, collections.deque):
            hk, hidden = "HKSeq", clist(map(E, o), "pval")
        head = f"(PObj {i} {self.cls(t)} {hk} {hidden}"
        try:
            r = o.__reduce__()
        except Exception as e:
            return f"{head} (OKRaise {ENUM_COQ[exc_enum(e)]}) pnone)"
        if len(r) == 2 and r[0] is t:
            return f"{head} OKReduce {E(r[1])})"
        if hasattr(o, "__getstate__"):
            try:
                attrs = o.__getstate__()
            except Exception as e:
                return f"{head} (OKRaise {ENUM_COQ[exc_enum(e)]}) pnone)"
            return f"{head} OKState {E(attrs)})"
        if hasattr(o, "__dict__"):
            return f"{head} OKState {E(o.__dict__)})"
        return f"{head} OKNoState pnone)"

    # ---- the rest of a correspondence case
    def missing_names(self):
        out = []
        for m, c in sorted(self.names):
            try:
                getattr(importlib.import_module(m), c)
            except AttributeError:
                out.append(f"{m}.{c}")
            except Exception:
                pass
        return out

    def case_term(self, val_term, protocol, version):
        tyids = clist((f"({cstr(k)}, {cz(v)})" for k, v in sorted(self.tyids.items())), "(pstr * Z)")
        denv = f"{{| dn_tyids := {tyids}; dn_cur := {cz(protocol)}; dn_version := {cstr(version)} |}}"
        facts = (f"{{| f_namedtuples := {clist(map(cstr, sorted(self.namedtuples)), 'pstr')}; "
                 f"f_generic := {clist(map(cstr, sorted(self.generic)), 'pstr')}; "
                 f"f_missing := {clist(map(cstr, self.missing_names()), 'pstr')}; "
                 f"f_hkinds := [((s \"builtins.frozenset\"), HKSet); ((s \"collections.deque\"), HKSeq)] |}}")
        return f"{{| cc_denv := {denv}; cc_base := {cz(BASE)}; cc_facts := {facts}; cc_val := {val_term} |}}"


def emit_case(obj, protocol, version):
    e = Emitter()
    term = e.emit(obj)
    return e.case_term(term, protocol, version), dict(e.kinds)


# ---------------------------------------------------------------------------------------------
# canonical text of a value: post-processing of absval.abs_value (with the hooks below installed)
def abs_hook(v, memo, depth):
    """extra observations the model's values carry (installed into absval.EXT_HOOKS by the codec runner)"""
    t = type(v)
    if isinstance(v, (int, float, str)) and t not in (bool, int, float, str) and not isinstance(v, np.generic):
        base = int(v) if isinstance(v, int) else (float(v) if isinstance(v, float) else str.__str__(v))
        return ["sub", f"{get_module(t)}.{t.__name__}", abs_value(base)]
    if isinstance(v, np.ufunc) or (_ArrayFunctionDispatcher and isinstance(v, _ArrayFunctionDispatcher)):
        return ["callable", get_module(v), v.__name__]
    if sp is not None and sp.issparse(v) and not isinstance(v, spmatrix):
        # sparse *arrays* are not registered with the dumper: they travel through the generic object path
        key = id(v)
        if key in memo:
            return ["ref", memo[key][0]]
        memo[key] = (len(memo), v)
        return ["obj", memo[key][0], f"{t.__module__}.{t.__qualname__}", ["state", abs_value(v.__dict__, memo, depth + 1)]]
    if isinstance(v, property):
        return ["prop"]
    # container subclasses and deque: absval adds an `extra` observation (instance __dict__ / __reduce_ex__ pieces) that the
    # model does not carry; build the payload here so that nothing the canonical form drops gets an identity number
    if isinstance(v, collections.deque) or (isinstance(v, (list, tuple)) and t not in (list, tuple)):
        key = id(v)
        if key in memo:
            return ["ref", memo[key][0]]
        memo[key] = (len(memo), v)
        me = memo[key][0]
        return ["obj", me, f"{t.__module__}.{t.__qualname__}", ["seq", [abs_value(x, memo, depth + 1) for x in v], None]]
    if isinstance(v, dict) and not isinstance(v, collections.defaultdict) and t not in (dict, collections.OrderedDict):
        key = id(v)
        if key in memo:
            return ["ref", memo[key][0]]
        memo[key] = (len(memo), v)
        me = memo[key][0]
        return ["obj", me, f"{t.__module__}.{t.__qualname__}",
                ["dict", [[abs_value(k, memo, depth + 1), abs_value(x, memo, depth + 1)] for k, x in v.items()], None]]
    if isinstance(v, (np.ndarray, np.generic, np.dtype, np.random.RandomState, np.random.Generator, functools.partial, dict, list, tuple, set,
                      frozenset, collections.deque, bytes, bytearray, slice, type, types.FunctionType, types.BuiltinFunctionType,
                      types.MethodType, operator.attrgetter, operator.itemgetter, operator.methodcaller)) or v is None:
        return None
    if sp is not None and sp.issparse(v):
        return None
    try:
        json.dumps(v)
        return None
    except Exception:
        pass
    try:
        r = v.__reduce__()
    except Exception:
        return None
    key = id(v)
    if key in memo:
        return ["ref", memo[key][0]]
    memo[key] = (len(memo), v)
    me = memo[key][0]
    tn = f"{t.__module__}.{t.__qualname__}"
    if len(r) == 2 and r[0] is t:
        return ["obj", me, tn, ["reduce2", abs_value(r[1], memo, depth + 1)]]
    # what object_get_state looks at: __getstate__() (None included) before __dict__
    try:
        if hasattr(v, "__getstate__"):
            return ["obj", me, tn, ["state", abs_value(v.__getstate__(), memo, depth + 1)]]
        if hasattr(v, "__dict__"):
            return ["obj", me, tn, ["state", abs_value(v.__dict__, memo, depth + 1)]]
    except Exception as e:
        return ["obj", me, tn, ["state", ["<getstate raised>", type(e).__name__]]]
    return ["obj", me, tn, ["state", None]]


def _scalar(a):
    """abs of a scalar -> canonical"""
    tn, v = a[0], a[1]
    if tn == "builtins.float":
        return [tn, float_tok(float.fromhex(v))]
    if tn == "builtins.int" and isinstance(v, str):
        return [tn, int(v)]
    return [tn, v]


def _is_npgen(a):
    return len(a) == 3 and isinstance(a[0], str) and a[0].startswith("numpy.") and a[0] != "numpy.dtype" and all(isinstance(x, str) for x in a)


def canon_key(a):
    if _is_npgen(a):
        item = np.frombuffer(bytes.fromhex(a[2]), dtype=np.dtype(a[1]))[0].item()
        return ["npkey", a[0], _scalar(abs_value(item))]
    if a and a[0] == "sub":
        return canon(a)
    return _scalar(a) if len(a) == 2 and isinstance(a[0], str) and a[0].startswith("builtins.") else canon(a)


def canon(a):
    if a is None:
        return None
    if not isinstance(a, list) or not a:
        return a
    h = a[0]
    if h == "ref":
        return a
    if h == "sub":
        return ["sub", a[1], _scalar(a[2])]
    if h == "prop":
        return ["prop"]
    if h == "type":
        return ["name", a[1]]
    if h == "callable":
        return ["name", f"{a[1]}.{a[2]}"]
    if h == "method":
        return ["method", a[1], canon(a[2])]
    if h == "numpy.dtype":
        return ["numpy.dtype", sha(a[1:])]
    if h == "builtins.bytes":
        return a
    if h == "builtins.complex":
        return a
    if _is_npgen(a):
        return ["npgen", a[0], sha(a[1:])]
    if h == "obj":
        _, me, tn, p = a
        if tn == "builtins.property":
            return ["prop"]
        if isinstance(p, str):                      # bytearray
            return ["obj", me, tn, p]
        if tn == "builtins.slice":
            return ["obj", me, tn, [_scalar(x) if len(x) == 2 else ["?"] for x in p]]
        k = p[0]
        if k == "seq":
            return ["obj", me, tn, ["seq", [canon(x) for x in p[1]], None]]
        if k == "set":
            items = [canon(x) for x in p[1]]
            return ["obj", me, tn, ["set", ["\0raw" + t for t in sorted(render(x) for x in items)]]]
        if k == "dict":
            extra = p[2]
            keep = isinstance(extra, list) and extra and (extra[0] in ("type", "callable") or extra[0] == "builtins.NoneType")
            return ["obj", me, tn, ["dict", [[canon_key(kk), canon(vv)] for kk, vv in p[1]], canon(extra) if keep else None]]
        if k == "array":
            return ["obj", me, tn, ["array", sha(p)]]
        if k == "objarray":
            return ["obj", me, tn, ["objarray", p[1], [canon(x) for x in p[2]]]]
        if k == "masked":
            return ["obj", me, tn, ["masked", canon(p[1]), canon(p[2])]]
        if k == "sparse":
            return ["obj", me, tn, ["sparse", sha(p)]]
        if k == "rng":
            # [rng, bitgen-name, bit_generator.state, seed_seq.state or None]: RandomState has no seed sequence of its own
            if len(p) == 2:
                return ["obj", me, tn, ["rng", canon(p[1])]]
            return ["obj", me, tn, ["rng", canon(p[2])] + ([canon(p[3])] if len(p) > 3 and p[3] is not None else [])]
        if k == "partial":
            return ["obj", me, tn, ["partial", canon(p[1]), canon(p[2]), canon(p[3])]]
        if k == "opfunc":
            return ["obj", me, tn, ["opfunc", canon(p[1])]]
        if k == "reduce2":
            return ["obj", me, tn, ["reduce2", canon(p[1])]]
        if k == "state":
            return ["obj", me, tn, ["state", canon(p[1])]]
        return ["obj", me, tn, p]
    if len(a) == 2 and isinstance(h, str) and h.startswith("builtins."):
        return _scalar(a)
    return [canon(x) for x in a]


def renumber(c):
    """after canon dropped some objects: number the remaining ones in first-occurrence order"""
    m = {}

    def w(x):
        if isinstance(x, list) and x:
            if x[0] == "obj" and len(x) == 4 and isinstance(x[1], int):
                m.setdefault(x[1], len(m))
                return ["obj", m[x[1]], x[2], w(x[3])]
            if x[0] == "ref" and len(x) == 2:
                return ["ref", m.get(x[1], -1)]
            return [w(y) for y in x]
        return x
    return w(c)


def render(x):
    if x is None:
        return "~"
    if x is True:
        return "T"
    if x is False:
        return "F"
    if isinstance(x, int):
        return f"i{x}"
    if isinstance(x, str):
        if x.startswith("\0raw"):
            return x[4:]
        return f"s{len(x)}:{x}"
    return "(" + " ".join(render(y) for y in x) + ")"


def value_text(obj):
    return render(renumber(canon(abs_value(obj))))


def render_json(j):
    if j is None:
        return "~"
    if j is True:
        return "T"
    if j is False:
        return "F"
    if isinstance(j, int):
        return f"i{j}"
    if isinstance(j, float):
        t = j * 2
        return f"h{int(t)}" if t == int(t) else "h?"
    if isinstance(j, str):
        return f"s{len(j)}:{j}"
    if isinstance(j, list):
        return "[" + ",".join(render_json(x) for x in j) + "]"
    return "{" + ",".join(f"s{len(k)}:{k}={render_json(v)}" for k, v in j.items()) + "}"


def archive_text(norm_schema, norm_members):
    return render_json(norm_schema) + "|" + ",".join(sorted(norm_members))
