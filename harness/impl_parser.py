"""Implementation-side runner for C15 (skops.card._parser / _markup).
Reads {"mode":..., "cases":[...]} on stdin, writes a JSON list with one canonical outcome per case.

modes
  docs : case = list of pandoc block JSON objects  -> canonical text of PandocParser(json).generate()
  seqs : case = list of pandoc element JSON objects -> results of successive calls on ONE Markdown()
  oracle : case = list of blocks -> observations for the property's own (model independent) oracle
"""
from __future__ import annotations

import copy
import json
import sys
import warnings

warnings.simplefilter("ignore")


def exc_enum(e: BaseException) -> str:
    if not isinstance(e, Exception):
        return "BaseException:" + type(e).__name__
    for cls, name in ((ValueError, "EValue"), (KeyError, "EKey"), (TypeError, "EType"), (AttributeError, "EAttr")):
        if type(e) is cls:
            return name
    # subclasses (e.g. UnicodeError < ValueError, IndexError < LookupError) are "other"
    return "EOther"


def walk(data, kpath=(), tpath=()):
    for key, sec in data.items():
        kp, tp = kpath + (key,), tpath + (sec.title,)
        yield kp, tp, sec
        yield from walk(sec.subsections, kp, tp)


def select_safe(t: str) -> bool:
    """titles that Card.select can address through a "/"-joined key with "/" escaped as "\\/":
    not empty, no edge whitespace, no U+001F, no trailing backslash, and no "/" at an edge
    (the escape placeholder U+001F is itself stripped as whitespace: D13, property C09)"""
    return (bool(t) and t == t.strip() and "\x1f" not in t and not t.endswith("\\")
            and not t.startswith("/") and not t.endswith("/"))


def parse(blocks):
    from skops.card._parser import PandocParser
    src = json.dumps({"pandoc-api-version": [1, 23, 1], "meta": {}, "blocks": blocks})
    return PandocParser(src).generate()


def canon_card(card) -> str:
    from skops.card._model_card import PlotSection, Section, TableSection
    secs, outl, extra = [], [], []
    for kp, tp, sec in walk(card._data):
        content = sec.content
        if type(sec) is not Section or not isinstance(content, str) or sec.visible is not True or sec.folded is not False:
            extra.append("NOT-PLAIN-SECTION")
            content = repr(content)
        secs.append("\x01".join(kp) + "\x02" + sec.title + "\x02" + content + "\x03")
        outl.append("\x01".join(tp) + "\x03")
        if all(select_safe(k) for k in kp):
            key = "/".join(k.replace("/", "\\/") for k in kp)
            try:
                got = card.select(key)
            except Exception as e:  # noqa: BLE001
                got = e
            if got is not sec:
                extra.append("SELECT-MISMATCH:" + key)
    return "OK\x00" + card.get_toc() + "\x00" + card.render() + "\x00" + "".join(secs) + "\x00" + "".join(outl) + "".join(extra)


def mode_docs(cases):
    out = []
    for blocks in cases:
        try:
            card = parse(blocks)
        except BaseException as e:  # noqa: BLE001
            out.append("E:" + exc_enum(e))
            continue
        out.append(canon_card(card))
    return out


def mode_seqs(cases):
    from skops.card._markup import Markdown
    out = []
    for items in cases:
        m = Markdown()
        parts = []
        for item in items:
            try:
                r = m(copy.deepcopy(item))
                parts.append("OK:" + r if isinstance(r, str) else "NOT-STR:" + repr(r))
            except BaseException as e:  # noqa: BLE001
                parts.append("E:" + exc_enum(e))
        out.append("".join(p + "\x00" for p in parts) + "STACK:" + ",".join(str(x) for x in m._indent_trace))
    return out


NOT_ELEMENTS_DESCEND = {"Figure"}      # _figure rewrites its image before converting it


def child_elements(node, known):
    def rec(x):
        if isinstance(x, dict):
            if x.get("t") in known:
                yield x
            else:
                for v in x.values():
                    yield from rec(v)
        elif isinstance(x, list):
            for v in x:
                yield from rec(v)
    yield from rec(node.get("c"))


def culprits(node, known):
    """innermost elements that fail to convert on their own (fresh Markdown instance each)"""
    from skops.card._markup import Markdown
    res = []
    if node["t"] not in NOT_ELEMENTS_DESCEND:
        for c in child_elements(node, known):
            res += culprits(c, known)
    if res:
        return res
    try:
        Markdown()(copy.deepcopy(node))
        return []
    except Exception as e:  # noqa: BLE001
        return [{"t": node["t"], "error": exc_enum(e), "node": node}]


def mode_oracle(cases):
    """Raw observations for the property oracle in props/c15.py (no model involved):
    per document: the title-path outline, contents by path, the strings yielded by
    _generate_content, the toc, and per block the text of a FRESH Markdown instance,
    of a USED instance (after converting everything else, including a failing element)."""
    from skops.card._markup import Markdown
    from skops.card._parser import PandocParser
    out = []
    for blocks in cases:
        obs = {}
        try:
            card = parse(blocks)
        except BaseException as e:  # noqa: BLE001
            obs["error"] = exc_enum(e)
            card = None
        used = Markdown()
        try:
            used({"t": "BulletList", "c": [[{"t": "Para", "c": [{"t": "Str", "c": "x"}]}, {"t": "HorizontalRule"}]]})
        except ValueError:
            pass
        texts = []
        pp = PandocParser("{}")
        for b in blocks:
            one = {}
            for name, inst in (("fresh", Markdown()), ("used", used)):
                try:
                    one[name] = pp._post_process(inst(copy.deepcopy(b)))
                except BaseException as e:  # noqa: BLE001
                    one[name] = {"error": exc_enum(e)}
            texts.append(one)
        obs["texts"] = texts
        known = set(Markdown().mapping) | {"HorizontalRule", "Null", "LineBlock", "DefinitionList", "Underline", "SmallCaps",
                                           "Superscript", "Subscript", "Span", "Math", "Note", "Cite"}
        obs["culprits"] = [c for b, t in zip(blocks, texts) if isinstance(t["fresh"], dict) for c in culprits(b, known)]
        obs["used_trace"] = list(used._indent_trace)
        if card is not None:
            obs["sections"] = [[list(tp), sec.content] for _, tp, sec in walk(card._data)]
            obs["keys_eq_titles"] = all(kp == tp for kp, tp, _ in walk(card._data))
            obs["yielded"] = list(card._generate_content(card._data))
            obs["toc"] = card.get_toc()
            obs["render"] = card.render()
        out.append(obs)
    return out


def mode_mapping(cases):
    from skops.card._markup import Markdown
    return sorted(Markdown().mapping)


MODES = {"docs": mode_docs, "seqs": mode_seqs, "oracle": mode_oracle, "mapping": mode_mapping}

if __name__ == "__main__":
    req = json.load(sys.stdin)
    res = MODES[req["mode"]](req["cases"])
    json.dump(res, sys.stdout)
