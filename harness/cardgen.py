"""Check-side helpers shared by props/c09.py, c10.py, c14.py: seeded generator of card operation
sequences, emission of cases as Coq terms, decoding of canonical observations for diagnostics.
Never imports skops (the implementation runs in a subprocess, harness/impl_card.py)."""
from __future__ import annotations

import json
import random
import re

import common as C

U = 0x110000

# title material: slashes, escaped slashes, backslashes, blanks of several kinds (all in str.strip()'s set:
# space, tab, U+001C, U+001F, U+0085, U+00A0, U+2003, U+3000), non-BMP, markdown-active characters
PIECES = ["a", "b", "B", "x", "é", "\U0001F600", "\U00010348", "#", "|", "-", "<", "\\", "\\/", "\\/", "/", "/",
          " ", " ", "\t", "\x1f", "\x1f", "\xa0", "\xa0", "\x1c", "\x85", " ", "　", "\n", "\r", "``", "́"]
WORDS = ["a", "b", "B", "é", "\U0001F600", "x y", "a\\/b", "\\/", "a\\", "\x1f", "\xa0a", "a\x1fb", "#", "c|d"]
BLANKS = ["", "", "", " ", "  ", "\t", "\xa0", "\x1f", "　"]
CONTENTS = ["", "", "text", "line1\nline2", "é😀", " ", "\n", "<b>", "a|b", "x\ry", "trailing ", "\x1f", "𐍈",
            # content that itself looks like the wrapper render() adds around folded sections
            "<details>x</details>", " <details>\n<summary>s</summary>\n\nbody\n\n</details> tail", "<details>"]
CELLS = ["v", "", "multi\nline", "a|b", "é😀", " pad ", "\r", "x\n\ny", 0, 1, -7, 2.5, 1e-9, float("inf"), None, True, "None"]
COLNAMES = ["a", "b", "Metric", "Value", "c d", "é", "x/y", "n\nl", "", "|"]
METRICS = ["acc", "f1", "é", "a/b", "m m", "x"]
PATHS_PLOT = ["p.png", "dir/q.png", "é.png", "p q.png", "a)b.png"]
# str(estimator_html_repr(model)) as the generator invents it (add_model_plot; sklearn's HTML is not modelled):
# line feeds followed by every kind of whitespace (space, tab, LF, CR, VT, FF, U+001C-1F, U+0085, U+00A0, U+1680, U+2003, U+2028,
# U+205F, U+3000) and by look-alikes that are NOT whitespace (U+200B, U+180E, U+FEFF, U+2060, U+001B, U+0084), CR LF, LF at the
# very end, the class name zero/one/two times, split, doubled, overlapping with itself, in other case; non-BMP characters
HTML_WS = [" ", " ", "  ", "    ", "\t", "\n", "\r", "\x0b", "\x0c", "\x1c", "\x1d", "\x1e", "\x1f", "\x85", "\xa0", "\u1680",
           "\u2000", "\u2003", "\u200a", "\u2028", "\u2029", "\u202f", "\u205f", "\u3000"]
HTML_NOT_WS = ["\u200b", "\u180e", "\ufeff", "\u2060", "\x1b", "\x84", "\x86", "\x08", "\x0e", "\x7f", "\u2007\u200b", "\U000E0020"]
HTML_TEXT = ["a", "x", "<div>", "</div>", "<pre>A()</pre>", "é", "\U0001F600", "\U00010348", '"', 'class="', '">', "{", "}",
             "sk-top-container", "sk-top-container", "sk-top-container", "sk-top-", "container", "sk-top-containe", "k-top-container",
             "sk-top-sk-top-container", "sk-top-containersk-top-container", "sk-top-containesk-top-container", "Sk-top-container",
             "sk-top-container-id-1", "sk\n-top-container", "sk-top-\n container", "sk-top-\n\tcontainer"]
HTML_TEMPLATES = [
    '<style>#sk-1 {\n  color: var(--c);\n}\n\n#sk-1 pre {\n\tpadding: 0;\n}\n</style><div id="sk-1" class="sk-top-container">\n    <div class="sk-text-repr-fallback">'
    '<pre>A()</pre>\n  </div>\n</div>\n',
    '<style>#sk-2.sk-top-container {\n  x: y;\n}\n</style><body><div id="sk-2" class="sk-top-container">\r\n  <pre>P(steps=[(&#x27;a&#x27;,\n                 B())])</pre>\r\n</div></body>',
    '<div class="sk-top-container"><div class="sk-top-container">\n\n\n</div>\n\xa0</div>',
    '<div class="sk-top\n   -container">\n</div>\n',
]
DESCRIPTIONS = ["The model", "d\nd", " ", "\n", "sk-top-container", "é\U0001F600"]
FORBIDDEN_KEYS = {"folded", "description", "alt_text", "section", "self"}
# ---- Card(model, template=..., model_diagram=...): the init pseudo-operation ["init", template, diagram, params, html, real]
INIT_DEFAULT = ["init", None, False, [], "", None]        # = Card(model, template=None, model_diagram=False): the empty card
# share of sequences per kind of start (overridable per property): no template / the skops template / a custom dict /
# an unknown template name (ValueError) / a dict with a key that is a parameter name of Card.add (TypeError)
INIT_WEIGHTS = {"none": 40, "skops": 30, "custom": 26, "nosuch": 2, "clash": 2}
# what later operations may hit on a card built from the skops template (hints for the generator only: the model and the
# implementation both read the real SKOPS_TEMPLATE)
SKOPS_HINTS = ["Model description", "Model description/Intended uses & limitations", "Model description/Training Procedure",
               "Model description/Training Procedure/Hyperparameters", "Model description/Training Procedure/Model Plot",
               "Model description/Evaluation Results", "How to Get Started with the Model", "Model Card Authors",
               "Model Card Contact", "Citation"]
BAD_TEMPLATE_NAMES = ["nosuch", "", "Skops", "skops ", "hub", "auto", "skops/x"]


def norm(seq):
    """every sequence starts with an init pseudo-operation of full length (same rule as impl_card.norm_seq)"""
    seq = [list(o) for o in seq]
    if seq and seq[0][0] == "init":
        seq[0] = seq[0] + INIT_DEFAULT[len(seq[0]):]
        return seq
    return [list(INIT_DEFAULT)] + seq


def title(rnd):
    r = rnd.random()
    if r < 0.45:
        t = rnd.choice(WORDS)
    elif r < 0.9:
        t = "".join(rnd.choice(PIECES) for _ in range(rnd.randint(1, 3)))
    elif r < 0.95:
        t = ""
    else:
        t = "".join(rnd.choice(PIECES) for _ in range(rnd.randint(4, 6)))
    return t


def html_text(rnd):
    r = rnd.random()
    if r < 0.05:
        return ""
    if r < 0.09:
        return rnd.choice(["\n", "\n\n", "\n ", " \n", "\r\n", "\n\r\n", "sk-top-container", "\nsk-top-container\n"])
    if r < 0.24:
        t = rnd.choice(HTML_TEMPLATES)
        if rnd.random() < 0.3:
            t = t.replace("\n  ", "\n" + rnd.choice(HTML_WS + HTML_NOT_WS), 1)
        return t
    out = []
    for _ in range(rnd.randint(1, 9)):
        q = rnd.random()
        if q < 0.38:
            out.append("\n" + "".join(rnd.choice(HTML_WS) for _ in range(rnd.choice([0, 1, 1, 2, 3]))))
        elif q < 0.48:
            out.append("\n" + rnd.choice(HTML_NOT_WS) + rnd.choice(["", " ", "\n"]))
        elif q < 0.56:
            out.append(rnd.choice(HTML_WS))
        else:
            out.append(rnd.choice(HTML_TEXT))
    if rnd.random() < 0.25:
        out.append("\n")
    return "".join(out)


class Gen:
    """One operation sequence.  `live` approximates the paths that exist (as the generator wrote them) so that
    later operations revisit, overwrite, extend and delete them; `pool` keeps the title vocabulary small."""

    def __init__(self, rnd, weights, maxlen, init_weights=None):
        self.rnd = rnd
        self.weights = weights
        self.init_weights = init_weights or INIT_WEIGHTS
        self.pool = [title(rnd) for _ in range(rnd.randint(2, 5))]
        self.live = []
        self.n = rnd.randint(max(3, maxlen // 2), maxlen)

    def name(self):
        rnd = self.rnd
        t = rnd.choice(self.pool) if rnd.random() < 0.85 else title(rnd)
        return rnd.choice(BLANKS) + t + rnd.choice(BLANKS)

    def path(self, fresh=0.5):
        rnd = self.rnd
        if self.live and rnd.random() > fresh:
            p = rnd.choice(self.live)
            r = rnd.random()
            if r < 0.35:
                return p
            if r < 0.6:
                return p + "/" + self.name()                      # child of an existing section
            if r < 0.75 and "/" in p:
                return p.rsplit("/", 1)[0]                        # (roughly) its parent
            if r < 0.85:
                return " " + p + "\xa0"
            return p
        depth = rnd.choice([1, 1, 1, 2, 2, 3, 4])
        return "/".join(self.name() for _ in range(depth))

    def key(self, fresh=0.5):
        for _ in range(20):
            k = self.path(fresh)
            if k not in FORBIDDEN_KEYS:
                return k
        return "k"

    def kwargs(self, nmax, value, fresh=0.6):
        rnd = self.rnd
        out = {}
        for _ in range(rnd.choice([n for n in (1, 1, 1, 2, 2, 3, 4, 5) if n <= nmax])):
            out[self.key(fresh)] = value()
        for k in out:
            self.live.append(k)
        return [[k, v] for k, v in out.items()]

    def opt(self, choices):
        rnd = self.rnd
        return rnd.choice([None, None, ""] + choices)

    def table(self):
        rnd = self.rnd
        r = rnd.random()
        ncols = 0 if r < 0.06 else rnd.randint(1, 3)
        nrows = rnd.randint(0, 3)
        names = rnd.sample(COLNAMES, ncols)
        ragged = rnd.random() < 0.08
        cols = [[n, [rnd.choice(CELLS) for _ in range(nrows + (rnd.randint(0, 2) if ragged and i else 0))]]
                for i, n in enumerate(names)]
        df = (not ragged) and ncols > 0 and rnd.random() < 0.3 and all(n != "" for n in names)
        return {"cols": cols, "df": df}

    def chain(self):
        rnd = self.rnd
        p = self.path(0.15)
        parts = p.split("/")
        if len(parts) == 1 or rnd.random() < 0.2:
            return [p]
        cuts = sorted(rnd.sample(range(1, len(parts)), rnd.randint(1, min(2, len(parts) - 1))))
        ks, prev = [], 0
        for c in cuts + [len(parts)]:
            ks.append("/".join(parts[prev:c]))
            prev = c
        return ks

    def op(self):
        rnd = self.rnd
        kind = rnd.choices(list(self.weights), weights=list(self.weights.values()))[0]
        if kind == "add":
            return ["add", rnd.random() < 0.3, self.kwargs(3, lambda: rnd.choice(CONTENTS))]
        if kind == "plot":
            return ["plot", self.opt(["desc", "d\nd"]), self.opt(["ALT", "é"]), rnd.random() < 0.3,
                    self.kwargs(3, lambda: rnd.choice(PATHS_PLOT) if rnd.random() < 0.95 else "")]
        if kind == "table":
            return ["table", self.opt(["desc"]), rnd.random() < 0.3, self.kwargs(2, self.table)]
        if kind == "metrics":
            names = rnd.sample(METRICS, rnd.randint(0, 3))
            sect = self.key(0.4)
            self.live.append(sect)
            return ["metrics", sect, self.opt(["scores"]),
                    [[n, rnd.choice([0.5, 1, "0.93", "x\ny", -2, 1e20, True])] for n in names]]
        if kind == "hyper":
            sect = self.key(0.6)
            self.live.append(sect)
            names = rnd.sample(["C", "tol", "steps", "clf__alpha", "é"], rnd.randint(0, 3))
            return ["hyper", sect, self.opt(["params"]), [[n, rnd.choice([1.0, None, "l2", 100, "a\nb"])] for n in names]]
        if kind == "modelplot":
            # card.add_model_plot(section, description) with estimator_html_repr returning the invented text
            sect = self.key(0.5)
            self.live.append(sect)
            return ["modelplot", sect, self.opt(DESCRIPTIONS), html_text(rnd)]
        if kind == "select":
            return ["select", self.path(0.15)]
        if kind == "chain":
            return ["chain", self.chain()]
        if kind == "delete":
            return ["delete", self.path(0.12)]
        if kind == "dellist":
            p = self.path(0.12)
            parts = p.split("/")
            if rnd.random() < 0.6:
                parts = [x.strip() for x in parts]
            if rnd.random() < 0.05:
                parts = []
            return ["dellist", parts]
        if kind in ("vis", "fold"):
            return [kind, self.chain(), rnd.random() < (0.35 if kind == "vis" else 0.65)]
        if kind == "title":
            # card.select(...).title = t : the heading changes, the key under which the section is stored does not
            return ["title", self.chain(), self.name() if rnd.random() < 0.8 else title(rnd)]
        raise KeyError(kind)

    def diagram(self, skops):
        """model_diagram: False / True / "auto" / a section name (fresh, nested, escaped, an existing section, empty)"""
        rnd = self.rnd
        r = rnd.random()
        if r < 0.2:
            return False
        if r < 0.4:
            return True
        if r < (0.7 if skops else 0.55):
            return "auto"
        if r < 0.75:
            return rnd.choice(["", " auto", "Auto", "auto/x"])
        sect = self.key(0.4)
        self.live.append(sect)
        return sect

    def init(self):
        rnd = self.rnd
        kind = rnd.choices(list(self.init_weights), weights=list(self.init_weights.values()))[0]
        params = [[n, rnd.choice([1.0, None, "l2", 100, "a\nb"])] for n in rnd.sample(["C", "tol", "steps", "clf__alpha", "é"], rnd.randint(0, 3))]
        if kind == "none":
            # mostly the plain empty card (the starting point of all earlier runs), sometimes with a diagram request
            dg = False if rnd.random() < 0.6 else self.diagram(False)
            return ["init", None, dg, params, html_text(rnd), None]
        if kind == "skops":
            self.live += rnd.sample(SKOPS_HINTS, 4)
            return ["init", "skops", self.diagram(True), params, html_text(rnd), None]
        if kind == "nosuch":
            return ["init", rnd.choice(BAD_TEMPLATE_NAMES), self.diagram(False), params, html_text(rnd), None]
        items = self.kwargs(5, lambda: rnd.choice(CONTENTS), fresh=0.7)
        if rnd.random() < 0.1:
            items = []                                               # template={}
        if kind == "clash":
            items.insert(rnd.randint(0, len(items)), [rnd.choice(["folded", "self"]), rnd.choice(CONTENTS)])
        return ["init", {"map": items}, self.diagram(False), params, html_text(rnd), None]

    def sequence(self):
        ops = [self.init()]
        if isinstance(ops[0][1], str) and ops[0][1] != "skops" or \
                (isinstance(ops[0][1], dict) and any(k in ("folded", "self") for k, _ in ops[0][1]["map"])):
            # the constructor is expected to raise: there will be no card to operate on (one operation is kept: the runner
            # must not execute it, the model shows nothing for it)
            return ops + [["add", False, [["A", "a"]]]]
        n_first = self.rnd.randint(1, 3) if ops[0][1] is None else self.rnd.randint(0, 2)
        # start with a few adds so that later operations have something to hit
        for _ in range(n_first):
            ops.append(["add", self.rnd.random() < 0.25, self.kwargs(3, lambda: self.rnd.choice(CONTENTS), fresh=0.8)])
        while len(ops) < self.n + 1:
            if self.rnd.random() < 0.07:
                ops += self.readd_below_deleted()
            else:
                ops.append(self.op())
        return ops

    def readd_below_deleted(self):
        """a classic interaction, as consecutive operations: write below a nested parent, delete a strict ancestor of that
        parent (the whole subtree goes), then write below the same parent path again (all ancestors must be recreated, empty)
        and look at the ancestors"""
        rnd = self.rnd
        nested = [k for k in self.live if len(re.split(r"(?<!\\)/", k)) >= 3 and k not in FORBIDDEN_KEYS]
        if nested and rnd.random() < 0.6:
            parts = re.split(r"(?<!\\)/", rnd.choice(nested))
        else:
            parts = [self.name() or "a" for _ in range(rnd.choice([3, 3, 4]))]
        parent = "/".join(parts[:-1])
        anc = "/".join(parts[:rnd.randint(1, len(parts) - 2)])
        first, second = parent + "/" + (self.name() or "n"), parent + "/" + (self.name() or "m")
        self.live += [first, second]
        out = [["add", rnd.random() < 0.3, [[first, rnd.choice(CONTENTS)]]], ["delete", anc]]
        out.append(rnd.choice([["add", False, [[second, rnd.choice(CONTENTS)]]], ["add", True, [[first, "again"]]],
                               ["plot", None, None, False, [[second, "p.png"]]], ["metrics", second, None, [["acc", 0.5]]]]))
        out.append(rnd.choice([["select", anc], ["select", parent], ["chain", [anc, "/".join(parts[len(anc.split("/")):-1]) or parts[-2]]]]))
        return out


def sequences(seed, n, weights, maxlen, init_weights=None):
    rnd = random.Random(seed)
    return [Gen(random.Random(rnd.getrandbits(48)), weights, maxlen, init_weights).sequence() for _ in range(n)]


# --------------------------------------------------------------------------- Coq emission
class Emitter:
    """pstr literals as lists of per-file constants (cNNN := NNN): about 4x cheaper for coqc than numerals."""

    def __init__(self):
        self.used = set()

    CHUNK = 4000          # very long list literals overflow coqc's stack: emit them as a concatenation of chunks

    def ints(self, xs):
        xs = list(xs)
        if not xs:
            return "(@nil N)"
        self.used.update(xs)
        if len(xs) > self.CHUNK:
            parts = [xs[i:i + self.CHUNK] for i in range(0, len(xs), self.CHUNK)]
            return "(" + " ++ ".join("[" + ";".join(f"c{x}" for x in part) + "]" for part in parts) + ")"
        return "[" + ";".join(f"c{x}" for x in xs) + "]"

    def pstr(self, t):
        return self.ints(ord(ch) for ch in t)

    def opt(self, t):
        return "None" if t is None else f"(Some {self.pstr(t)})"

    def lst(self, items, ty):
        items = list(items)
        return f"(@nil {ty})" if not items else "[" + "; ".join(items) + "]"

    def kvs(self, kvs):
        return self.lst((f"({self.pstr(k)}, {self.pstr(v)})" for k, v in kvs), "(pstr * pstr)")

    def table(self, cols):
        return self.lst((f"({self.pstr(n)}, {self.lst((self.pstr(v) for v in vals), 'pstr')})" for n, vals in cols),
                        "(pstr * list pstr)")

    def op(self, op):
        k = op[0]
        b = C.cbool
        if k == "add":
            return f"OAdd {b(op[1])} {self.kvs(op[2])}"
        if k == "plot":
            return f"OAddPlot {self.opt(op[1])} {self.opt(op[2])} {b(op[3])} {self.kvs(op[4])}"
        if k == "table":
            tabs = self.lst((f"({self.pstr(key)}, {self.table(cols)})" for key, cols in op[3]), "(pstr * table)")
            return f"OAddTable {self.opt(op[1])} {b(op[2])} {tabs}"
        if k == "metrics":
            return f"OAddMetrics {self.pstr(op[1])} {self.opt(op[2])} {self.kvs(op[3])}"
        if k == "hyper":
            return f"OAddHyperparams {self.pstr(op[1])} {self.opt(op[2])} {self.kvs(op[3])}"
        if k == "modelplot":
            return f"OAddModelPlot {self.pstr(op[1])} {self.opt(op[2])} {self.pstr(op[3])}"
        if k == "select":
            return f"OSelect {self.pstr(op[1])}"
        if k == "chain":
            return f"OSelectChain {self.lst((self.pstr(x) for x in op[1]), 'pstr')}"
        if k == "delete":
            return f"ODelete {self.pstr(op[1])}"
        if k == "dellist":
            return f"ODeleteList {self.lst((self.pstr(x) for x in op[1]), 'pstr')}"
        if k == "vis":
            return f"OSetVisible {self.lst((self.pstr(x) for x in op[1]), 'pstr')} {b(op[2])}"
        if k == "fold":
            return f"OSetFolded {self.lst((self.pstr(x) for x in op[1]), 'pstr')} {b(op[2])}"
        if k == "title":
            return f"OSetTitle {self.lst((self.pstr(x) for x in op[1]), 'pstr')} {self.pstr(op[2])}"
        raise KeyError(k)

    def init(self, op):
        """the init pseudo-operation as a term of type Show.init_spec"""
        _, tspec, dspec, params, html = op[:5]
        if tspec is None:
            tt = "TNone"
        elif isinstance(tspec, str):
            tt = f"(TStr {self.pstr(tspec)})"
        else:
            tt = f"(TMap {self.kvs(tspec['map'])})"
        dd = f"(DBool {C.cbool(dspec)})" if isinstance(dspec, bool) else f"(DStr {self.pstr(dspec)})"
        return f"({tt}, {dd}, {self.kvs(params)}, {self.pstr(html)})"

    def oracle(self, entries):
        def one(h, c, out):
            cols = self.lst((self.lst((self.pstr(v) for v in col), "pstr") for col in c), "(list pstr)")
            return f"(({self.lst((self.pstr(x) for x in h), 'pstr')}, {cols}), {self.opt(out)})"
        return self.lst((one(h, c, o) for h, c, o in entries), "((list pstr * list (list pstr)) * option pstr)")

    def header(self):
        return "\n".join(f"Definition c{x} : N := {x}%N." for x in sorted(self.used))


def mode_term(mode):
    f = lambda k: C.cbool(mode.get(k, False))
    return (f"(mkMode {f('toc')} {f('render')} {f('save')} {f('nodes')} {f('addr')} {f('format')} {f('metrics')})")


def cases_file(results, mode, clip=None):
    """results: impl_card trace outputs.  One Coq file comparing show_case with the implementation's text.
    clip=n: very long observations; report only a window of n code points around the first difference."""
    em = Emitter()
    rows = []
    for r in results:
        ops = em.lst((f"({em.op(o)})" for o in r["ops"][1:]), "op")         # r["ops"][0] is the init pseudo-operation
        rows.append(f"(({em.oracle(r['oracle'])}, {em.init(r['ops'][0])}, {ops}), {em.ints(r['expected'])})")
    body = ["From Skv Require Import PyStr Json Corr Show.", "From Gen Require CardSnapshot.", "Open Scope N_scope.", em.header(),
            "Definition cases : list ((oracle_table * init_spec * list op) * pstr) := "
            + em.lst(rows, "((oracle_table * init_spec * list op) * pstr)") + ".",
            f"Eval vm_compute in report (show_case CardSnapshot.cfg {mode_term(mode)}) cases." if not clip else
            f"Eval vm_compute in report_clipped {clip} (show_case CardSnapshot.cfg {mode_term(mode)}) cases."]
    return "\n".join(body) + "\n"


def parse_report(out):
    """[(case index, first differing step (numbered from 1; 0 = text before the first step), model text of that step)]"""
    m = re.search(r"=\s*\[(.*?)\]\s*:\s*list N", out, flags=re.S)
    if not m:
        if re.search(r"=\s*\[\s*\]\s*:", out) or re.search(r"=\s*nil", out):
            return []
        raise RuntimeError("cannot parse model output: " + out[-500:])
    nums = [int(x) for x in re.findall(r"\d+", m.group(1))]
    res, i = [], 0
    while i < len(nums):
        idx, step, n = nums[i], nums[i + 1], nums[i + 2]
        res.append((idx, step, nums[i + 3: i + 3 + n]))
        i += 3 + n
    return res


# --------------------------------------------------------------------------- diagnostics
def readable(ints):
    out = []
    for x in ints:
        if x >= U:
            out.append(f"<{x - U}>")
        elif x < 32 or x == 127:
            out.append(repr(chr(x))[1:-1])
        else:
            out.append(chr(x))
    return "".join(out)


def steps(ints):
    res, cur = [], None
    for x in ints:
        if x == U + 7:
            if cur is not None:
                res.append(cur)
            cur = []
        elif cur is not None:
            cur.append(x)
    if cur is not None:
        res.append(cur)
    return res


def card_snapshot(R):
    """Regenerate Gen/CardSnapshot.v from the live skops.card code (once per run) and compile it: the template data that
    coq/card/Init.v, the C09/C10/C14 statements about constructed cards and every correspondence case are evaluated with."""
    if getattr(R, "card_snapshot_info", None) is not None:
        return R.card_snapshot_info
    v, j = R.gen / "CardSnapshot.v", R.gen / "card_snapshot.json"
    p = C.run_impl("card_snapshot.py", [v, j], timeout=300)
    if p.returncode != 0:
        R.obligation_broken("card snapshot", "translator aborted (fail-closed): " + p.stderr.decode(errors="replace")[-1500:])
        return None
    R.checker_cmds.append("harness/card_snapshot.py -> CardSnapshot.v (regenerated from the skops.card code under test)")
    try:
        C.coqc(v, R.gen)
    except C.CoqError as e:
        R.obligation_broken("card snapshot", "generated CardSnapshot.v does not compile: " + e.out[-1500:])
        return None
    R.card_snapshot_info = json.loads(j.read_text())
    R.notes["card_snapshot"] = {k: R.card_snapshot_info[k] for k in ("valid_templates", "default_sections", "add_params",
                                                                      "init_default_template", "init_default_model_diagram",
                                                                      "default_description_texts")}
    R.notes["card_snapshot"]["skops_template_keys"] = [k for k, _ in R.card_snapshot_info["skops_template"]]
    return R.card_snapshot_info


def correspond(R, name, seqs, mode, shards=None, clip=None):
    """Run the sequences on the implementation, compare with the model in Coq.
    Returns (results, bad) with bad = [(case index, step, impl text, model text)]
    (clip=n: both texts are the n code points around the first difference, prefixed with its offset in the step)."""
    if card_snapshot(R) is None:
        return None, []
    seqs = [norm(sq) for sq in seqs]
    p = C.run_impl("impl_card.py", input_obj={"what": "trace", "mode": mode, "build": str(R.gen), "cases": seqs},
                   timeout=1500)
    if p.returncode != 0:
        R.obligation_broken(f"correspondence {name}", "implementation runner failed: " + p.stderr.decode(errors="replace")[-2000:])
        return None, []
    results = json.loads(p.stdout)
    # shards: at most 500 cases and about 600k list elements per generated file (coqc's cost is per element)
    volume = sum(len(r["expected"]) for r in results)
    shards = shards or max(min(C.NPROC, max(1, len(results) // 8)), (len(results) + 499) // 500, volume // 600000 + 1)
    size = (len(results) + shards - 1) // shards
    files, spans = [], []
    for i in range(0, len(results), size):
        f = R.gen / f"Cases_{name}_{i // size}.v"
        f.write_text(cases_file(results[i:i + size], mode, clip))
        files.append(f)
        spans.append(i)
    R.notes["shards"] = R.notes.get("shards", 0) + len(files)
    R.notes["observation_elements"] = R.notes.get("observation_elements", 0) + volume
    try:
        outs = C.coqc_many(files, R.gen, timeout=1500)
    finally:
        for f in files:                      # the generated terms are large: keep only the sources of failing shards
            for ext in (".vo", ".glob", ".vok", ".vos"):
                f.with_suffix(ext).unlink(missing_ok=True)
    bad = []
    for f, base in zip(files, spans):
        rep = parse_report(outs[f])
        if not rep:
            f.unlink(missing_ok=True)
        for idx, step, got in rep:
            exp = steps(results[base + idx]["expected"])
            a = exp[step - 1] if 1 <= step <= len(exp) else []
            if clip and got:
                off, got = got[0], got[1:]
                bad.append((base + idx, step - 1, f"[@{off}] " + readable(a[off:off + clip]), f"[@{off}] " + readable(got)))
                continue
            bad.append((base + idx, step - 1, readable(a), readable(got)))
    return results, bad


# --------------------------------------------------------------------------- the run protocol shared by C09/C10/C14
TRUSTED = ["Coq 8.16.1 kernel + vm_compute (no native_compute)",
           "correspondence harness: harness/impl_card.py (replays operations on skops.card.Card, canonical observation), "
           "harness/cardgen.py (generator, Coq emission)",
           "PrettyTable's markdown layout: oracle (Section variable `pretty`); in the correspondence it is instantiated by the "
           "table recorded from the real PrettyTable for the exact (field names, cells) it was handed",
           "str() of table cells / metric values, sklearn get_params(deep=True) and str(estimator_html_repr(model)): inputs of the "
           "model, not modelled (the HTML text is either generated or captured from the one call the implementation makes)",
           "harness/card_snapshot.py: SKOPS_TEMPLATE, VALID_TEMPLATES, the builders' default sections and Card.add's parameter names as "
           "read from the imported skops.card modules (inspect.signature / module attributes), emitted as Gen/CardSnapshot.v"]


def oracle_search(R, seqs, label):
    """Protocol step 4: the property's observable statement checked directly on the implementation."""
    p = C.run_impl("impl_card.py", input_obj={"what": "oracle", "build": str(R.gen), "cases": seqs}, timeout=1500)
    if p.returncode != 0:
        R.notes["search"] = "search oracle crashed: " + p.stderr.decode(errors="replace")[-800:]
        return 0
    found = 0
    for ops, res in zip(seqs, json.loads(p.stdout)):
        if res:
            found += 1
            R.violation({"kind": res["kind"], "op": res["op"][0]},
                        f"{label}: after {res['step'] + 1} operation(s): {res['detail']}",
                        {"ops": res["ops"], "failing_step": res["step"], "kind": res["kind"], "detail": res["detail"]})
    return found


def minimise(seq, step):
    """the operations up to and including the first disagreeing step"""
    return seq[:step + 1] if step >= 0 else seq


def init_kind(init):
    """statistics: how the sequence's card was constructed"""
    t = "none" if init[1] is None else ("str:" + init[1] if isinstance(init[1], str) else "dict")
    d = repr(init[2]) if isinstance(init[2], bool) or init[2] == "auto" else "section"
    return f"template={t} model_diagram={d}"


def run_property(R, prop, weights, mode, maxlen, n_quick, n_thorough, probes=(), extra_check=None, corpus=(), init_weights=None):
    R.trusted_base += TRUSTED
    snap = card_snapshot(R)          # the props file imports Gen.CardSnapshot
    ok = R.prove(prop) if snap is not None else False
    n = n_quick if R.tier == "quick" else n_thorough
    seqs = [norm(c) for c in corpus] + sequences(R.seed, n, weights, maxlen, init_weights)
    results, bad = correspond(R, prop, seqs, mode)
    if results is None:
        oracle_search(R, seqs[:200], prop)
        return
    lens = {}
    for sq, r in zip(seqs, results):
        R.case(r["ops"], nontrivial=any(c in ("ok", "sel") for c in r["classes"]))
        R.count("start:" + init_kind(sq[0]) + " -> " + r["classes"][0])
        for o, cls in zip(sq, r["classes"]):
            R.count(f"{o[0]}:{cls}")
            if o[0] == "table":
                for _, spec in o[3]:
                    R.count("table-input:" + ("DataFrame" if spec.get("df") else "dict"))
            if o[0] == "modelplot":            # statistics only (which branches of _add_model_plot the inputs reach)
                stripped = re.sub(r"\n\s+", "", o[3])
                k = stripped.count("sk-top-container")
                R.count("modelplot-html:class-name-" + ("0" if k == 0 else "1" if k == 1 else "2+"))
                R.count("modelplot-html:" + ("LF+whitespace-present" if stripped != o[3] else "nothing-to-remove"))
                R.count("modelplot-description:" + ("None" if o[2] is None else "empty" if o[2] == "" else "text"))
        if (U + 9) in r["expected"]:
            R.count("sequences-with-a-raising-render/format")      # ragged table: PrettyTable refuses the columns
        lens[len(sq)] = lens.get(len(sq), 0) + 1
    R.notes["sequence_lengths"] = dict(sorted(lens.items()))
    R.notes["operations"] = sum(len(x) for x in seqs)
    R.notes["oracle_table_entries"] = sum(len(r["oracle"]) for r in results)
    for i in (0, len(seqs) // 2, len(seqs) - 1):
        R.sample({"ops": seqs[i], "outcomes": results[i]["classes"],
                  "implementation_last_step": readable(steps(results[i]["expected"])[-1])[:600], "model": "equal" if all(b[0] != i for b in bad) else "differs"})
    R.disagreements = len(bad)
    for i, step, a, b in bad[:8]:
        R.obligation_broken(f"correspondence {prop}/ops",
                            f"sequence {i}, step {step}, op {seqs[i][step] if 0 <= step < len(seqs[i]) else None}\n implementation: {a[:1500]}\n model         : {b[:1500]}")
    if extra_check:
        extra_check(R, seqs, results)
    # finding probes: fixed witnesses, replayed against the implementation on every run
    if probes:
        oracle_search(R, [list(p) for p in probes], prop + " known-finding witness")
    if not ok or bad:
        cand = [minimise(seqs[i], step) for i, step, _, _ in bad[:40]]
        extra = sequences(R.seed + 1, 300, weights, maxlen, init_weights)
        if not oracle_search(R, cand + extra, prop):
            R.notes["search"] = ("the property's search oracle (harness/card_spec.py: independent reference tree, render/TOC/"
                                 "save/table/metrics statements) found no failing input on the disagreeing cases and 300 fresh sequences")


def replay_property(R, rep, prop):
    """bin/check Cxx --replay file : re-run exactly that operation sequence against the implementation (and the model)."""
    ops = rep.get("replay", {}).get("ops")
    if not ops:
        R.obligation_broken("replay", "replay file has no operation sequence; re-run the check instead")
        return
    R.trusted_base += TRUSTED
    ops = norm(ops)
    if card_snapshot(R) is not None:
        R.prove(prop)
    oracle_search(R, [ops], prop + " replay")
    mode = {"toc": True, "render": True, "save": True, "nodes": True, "addr": True, "format": True, "metrics": True}
    results, bad = correspond(R, prop + "_replay", [ops], mode, shards=1)
    R.case(ops)
    for i, step, a, b in bad:
        R.obligation_broken(f"correspondence {prop}/replay", f"step {step}\n implementation: {a[:1500]}\n model         : {b[:1500]}")
