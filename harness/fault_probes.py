"""Oracles for harness/impl_faults.py (path aliases for `skops convert`, failing moves for `skops update`): situations the
file-system model of coq/sys/Fs.v does not express (links, refused renames), judged directly against the property text."""
from __future__ import annotations

import json
import shutil
import tempfile

import common as C

CONVERT_PROBES = ["convert:hardlink", "convert:hardlink-elsewhere", "convert:symlink", "convert:symlink-abs",
                  "convert:dotdot-symlinked-dir", "convert:dotdot-symlinked-dir-abs", "convert:through-symlinked-dir"]
UPDATE_PROBES = ["update:dst-is-directory", "update:dst-is-directory-slash", "update:dst-is-directory-abs-p0",
                 "update:refused-new", "update:refused-existing-p0", "update:refused-inplace", "update:refused-new-p0"]


def run_probes(names):
    scratch = tempfile.mkdtemp(prefix="faults_", dir=str(C.BUILD))
    try:
        p = C.run_impl("impl_faults.py", input_obj={"scratch": scratch, "probes": names}, timeout=600)
        if p.returncode != 0:
            return None, p.stderr.decode(errors="replace")[-800:]
        return json.loads(p.stdout.decode()), None
    finally:
        shutil.rmtree(scratch, ignore_errors=True)


def judge(name, r):
    """-> list of (sig, what)"""
    area, kind = name.split(":", 1)
    touched = {k: r.get(k) for k in ("changed", "appeared", "vanished") if r.get(k)}
    bad = []
    if area == "convert" and kind in ("hardlink", "hardlink-elsewhere", "symlink", "symlink-abs"):
        # the output names the input file itself (another directory entry of it): writing the archive there and leaving the
        # input unchanged cannot both hold; the only behaviour within the property is to refuse and touch nothing
        if not r.get("input_unchanged") or touched:
            bad.append(({"kind": "input-clobbered", "output": "alias:" + kind},
                        f"skops convert model.pkl -o {r.get('output')} ({kind} of the input): the input pickle was altered ({touched or 'bytes differ'})"))
        elif not r.get("exc"):
            bad.append(({"kind": "same-file-not-refused", "output": "alias:" + kind}, f"output is a {kind} of the input, nothing written, yet no exception"))
    elif area == "convert":
        if r.get("exc") or not r.get("archive_at_expected") or not r.get("loads_equal") or r.get("changed") or r.get("vanished") \
                or r.get("appeared") != [r.get("expect_at")]:
            bad.append(({"kind": "final-state", "okind": "alias:" + kind},
                        f"skops convert model.pkl -o {r.get('output')}: the path names {r.get('expect_at')} (symlinked directory); exception {r.get('exc')}, "
                        f"archive there: {r.get('archive_at_expected')}, loads equal: {r.get('loads_equal')}, files {touched}"))
    else:
        # the move over the destination fails: an error, every file as before (destination keeps its previous content or stays
        # absent, the input is intact) and no temporary file or directory remains
        if not r.get("exc"):
            bad.append(({"kind": "fault-swallowed", "fault": kind}, f"skops {' '.join(r.get('argv', []))}: the move failed but the command returned normally"))
        if touched or not r.get("input_unchanged"):
            residue = r.get("appeared") or []
            bad.append(({"kind": "final-state", "residue": bool(residue), "fault": kind},
                        f"skops {' '.join(r.get('argv', []))} with a failing move ({kind}): files afterwards differ: {touched}"
                        + (f"; residue {residue}" if residue else "") + ("" if r.get("input_unchanged") else "; input altered")))
    return bad


def run_and_judge(R, names, prop):
    res, err = run_probes(names)
    if res is None:
        R.obligation_broken(f"{prop}/fault probes (runner)", err)
        return
    for name in names:
        r = res.get(name) or {"harness_error": "no result"}
        R.count("fault-probe:" + name.split(":", 1)[1])
        if "harness_error" in r:
            R.obligation_broken(f"{prop}/fault probes (runner)", f"{name}: {r['harness_error']} {r.get('trace', '')[-300:]}")
            continue
        R.case(["fault-probe", name, r.get("exc"), r.get("changed"), r.get("appeared"), r.get("vanished")], nontrivial=True)
        for sig, what in judge(name, r):
            R.violation(sig, what, {"mode": "fault-probe", "probe": name})
