(* File-system model for the CLI / dump sequencing properties (C16, C17, C18).
   Model only (total Gallina); proofs live in FsFacts.v.

   - pure paths (pathlib.PurePosixPath) : [ppath] = absolute flag + components;
   - file-system paths                  : [path]  = components from the root (absolute, normalised);
   - state                              : files (path -> bytes, association list) + directory set;
   - operations with errno results; a failing operation leaves the state unchanged;
   - a *crash* (process death, not power loss) = the process stops after any prefix
     of its operation list, the last executed [Append] possibly cut short.
   Not modelled: symlinks, hard links, permissions, page-cache / fsync ordering. *)
From Skv Require Export Json Corr.
Open Scope N_scope.

(* ------------------------------------------------------------------ paths *)
Definition path := list pstr.
Definition bytes := list N.

Fixpoint path_eqb (a b : path) : bool :=
  match a, b with
  | [], [] => true
  | x :: a', y :: b' => pstr_eqb x y && path_eqb a' b'
  | _, _ => false
  end.

Fixpoint is_prefix (a b : path) : bool :=      (* a is a (non-strict) ancestor of b *)
  match a, b with
  | [], _ => true
  | x :: a', y :: b' => pstr_eqb x y && is_prefix a' b'
  | _ :: _, [] => false
  end.

Definition parent (p : path) : path := removelast p.

Record ppath := mkpp { pabs : bool; pcomps : list pstr }.

Definition dotdot : pstr := [dot; dot].

(* PurePosixPath(text): split on "/", drop empty and "." components.
   (A leading "//" keeps a special meaning in pathlib; not modelled.) *)
Definition parse_path (t : pstr) : ppath :=
  {| pabs := match t with c :: _ => N.eqb c slash | [] => false end;
     pcomps := filter (fun c => negb (pstr_eqb c [] || pstr_eqb c [dot])) (split_on slash t) |}.

(* a / b : an absolute right operand replaces the left one *)
Definition pjoin (a b : ppath) : ppath :=
  if pabs b then b else {| pabs := pabs a; pcomps := pcomps a ++ pcomps b |}.
Definition pparent (p : ppath) : ppath := {| pabs := pabs p; pcomps := removelast (pcomps p) |}.
Definition pname (p : ppath) : pstr := last (pcomps p) [].
Definition pchild (p : ppath) (n : pstr) : ppath := {| pabs := pabs p; pcomps := pcomps p ++ [n] |}.

(* str(path) *)
Definition show_ppath (p : ppath) : pstr :=
  match pabs p, pcomps p with
  | true, cs => slash :: join [slash] cs
  | false, [] => [dot]
  | false, cs => join [slash] cs
  end.

(* what the kernel does with ".." (no symlinks): pop *)
Fixpoint norm_rev (acc : path) (cs : list pstr) : path :=
  match cs with
  | [] => rev acc
  | c :: cs' => if pstr_eqb c dotdot then norm_rev (tl acc) cs' else norm_rev (c :: acc) cs'
  end.
Definition normalize (cs : list pstr) : path := norm_rev [] cs.
Definition resolve (cwd : path) (p : ppath) : path :=
  normalize (if pabs p then pcomps p else cwd ++ pcomps p).

(* PurePath.stem / .suffix of a final component (CPython 3.12):
   i = name.rfind('.');  0 < i < len(name)-1  ?  name[:i] : name *)
Fixpoint rfind_dot_from (i : nat) (t : pstr) (best : option nat) : option nat :=
  match t with
  | [] => best
  | c :: t' => rfind_dot_from (S i) t' (if N.eqb c dot then Some i else best)
  end.
Definition rfind_dot (t : pstr) : option nat := rfind_dot_from O t None.
Definition stem (name : pstr) : pstr :=
  match rfind_dot name with
  | Some i => if (Nat.ltb 0 i && Nat.ltb i (length name - 1))%bool then firstn i name else name
  | None => name
  end.

(* ------------------------------------------------------------------ state *)
Record fs := mkfs { files : list (path * bytes); dirs : list path }.

Fixpoint fget (p : path) (l : list (path * bytes)) : option bytes :=
  match l with
  | [] => None
  | (q, v) :: l' => if path_eqb p q then Some v else fget p l'
  end.
Definition fdel (p : path) (l : list (path * bytes)) : list (path * bytes) :=
  filter (fun kv => negb (path_eqb p (fst kv))) l.
Definition fset (p : path) (v : bytes) (l : list (path * bytes)) : list (path * bytes) :=
  (p, v) :: fdel p l.

Definition dmem (d : path) (l : list path) : bool := existsb (path_eqb d) l.
Definition ddel (d : path) (l : list path) : list path := filter (fun q => negb (path_eqb d q)) l.

Definition is_file (st : fs) (p : path) : bool :=
  match fget p (files st) with Some _ => true | None => false end.
Definition is_dir (st : fs) (p : path) : bool := dmem p (dirs st).

(* some entry lives directly inside d *)
Definition nonroot (p : path) : bool := match p with [] => false | _ => true end.
Definition has_child (st : fs) (d : path) : bool :=
  existsb (fun kv => nonroot (fst kv) && path_eqb (parent (fst kv)) d) (files st)
  || existsb (fun q => nonroot q && path_eqb (parent q) d) (dirs st).

(* ------------------------------------------------------------- operations *)
Inductive fsop :=
| OpenTrunc (p : path)               (* open(p, "wb"): O_WRONLY|O_CREAT|O_TRUNC *)
| Append (p : path) (chunk : bytes)  (* write(fd, chunk) at the end of p *)
| Close (p : path)
| Rename (a b : path)                (* rename(2) / os.replace *)
| Unlink (p : path)
| Mkdir (d : path)
| Rmdir (d : path)
| ReadAll (p : path).                (* open(p, "rb") and read *)

Inductive ferr := ENOENT | EEXIST | EXDEV | ENOTEMPTY | EISDIR | ENOTDIR.

(* one mount point below the root: everything under [xroot] is another device *)
Record env := mkenv { xroot : option path }.
Definition dev (e : env) (p : path) : bool :=
  match xroot e with Some r => is_prefix r p | None => false end.

Definition apply_op (e : env) (st : fs) (op : fsop) : fs + ferr :=
  match op with
  | OpenTrunc p =>
      if is_dir st p then inr EISDIR
      else if negb (is_dir st (parent p)) then inr ENOENT
      else inl (mkfs (fset p [] (files st)) (dirs st))
  | Append p c =>
      match fget p (files st) with
      | Some old => inl (mkfs (fset p (old ++ c) (files st)) (dirs st))
      | None => inr ENOENT
      end
  | Close p => if is_file st p then inl st else inr ENOENT
  | Rename a b =>
      match fget a (files st) with
      | None => inr ENOENT
      | Some v =>
          if negb (is_dir st (parent b)) then inr ENOENT
          else if negb (Bool.eqb (dev e a) (dev e b)) then inr EXDEV
          else if is_dir st b then inr EISDIR
          else if path_eqb a b then inl st
          else inl (mkfs (fset b v (fdel a (files st))) (dirs st))
      end
  | Unlink p =>
      if is_file st p then inl (mkfs (fdel p (files st)) (dirs st))
      else if is_dir st p then inr EISDIR else inr ENOENT
  | Mkdir d =>
      if is_dir st d || is_file st d then inr EEXIST
      else if negb (is_dir st (parent d)) then inr ENOENT
      else inl (mkfs (files st) (d :: dirs st))
  | Rmdir d =>
      if is_file st d then inr ENOTDIR
      else if negb (is_dir st d) then inr ENOENT
      else if has_child st d then inr ENOTEMPTY
      else inl (mkfs (files st) (ddel d (dirs st)))
  | ReadAll p =>
      if is_file st p then inl st else if is_dir st p then inr EISDIR else inr ENOENT
  end.

(* a failing operation raises in Python; the state is unchanged *)
Definition step (e : env) (st : fs) (op : fsop) : fs :=
  match apply_op e st op with inl st' => st' | inr _ => st end.
Definition op_err (e : env) (st : fs) (op : fsop) : option ferr :=
  match apply_op e st op with inl _ => None | inr x => Some x end.

Fixpoint apply_ops (e : env) (st : fs) (ops : list fsop) : fs :=
  match ops with
  | [] => st
  | op :: ops' => apply_ops e (step e st op) ops'
  end.

(* the errno each operation meets when the list is run from st *)
Fixpoint errs_of (e : env) (st : fs) (ops : list fsop) : list (option ferr) :=
  match ops with
  | [] => []
  | op :: ops' => op_err e st op :: errs_of e (step e st op) ops'
  end.

(* which file path an operation can create / change / remove *)
Definition touches (op : fsop) (p : path) : bool :=
  match op with
  | OpenTrunc q | Append q _ | Unlink q => path_eqb p q
  | Rename a b => path_eqb p a || path_eqb p b
  | Close _ | Mkdir _ | Rmdir _ | ReadAll _ => false
  end.
Definition mutating (op : fsop) : bool :=
  match op with Close _ | ReadAll _ => false | _ => true end.

(* ------------------------------------------------------------------ crash *)
Inductive bprefix {A} : list A -> list A -> Prop :=
| bp_nil l : bprefix [] l
| bp_cons x a b : bprefix a b -> bprefix (x :: a) (x :: b).

(* [crash_of ops done]: the operations actually performed when the process dies *)
Inductive crash_of : list fsop -> list fsop -> Prop :=
| crash_here ops : crash_of ops []
| crash_later op ops pre : crash_of ops pre -> crash_of (op :: ops) (op :: pre)
| crash_inside p c c' ops : bprefix c' c -> crash_of (Append p c :: ops) [Append p c'].

(* executable enumeration of the crash points (used for witnesses and the harness) *)
Fixpoint prefixes {A} (l : list A) : list (list A) :=
  match l with
  | [] => [[]]
  | x :: l' => [] :: map (cons x) (prefixes l')
  end.
Fixpoint crash_points (ops : list fsop) : list (list fsop) :=
  match ops with
  | [] => [[]]
  | op :: ops' =>
      [] :: (match op with
             | Append p c => map (fun c' => [Append p c']) (prefixes c)
             | _ => []
             end) ++ map (cons op) (crash_points ops')
  end.

Definition strict_prefix_b (a b : bytes) : bool :=
  Nat.ltb (length a) (length b) && pstr_eqb a (firstn (length a) b).

(* ------------------------------------------------------- canonical output *)
Definition show_path (p : path) : pstr := slash :: join [slash] p.

Fixpoint path_ltb (a b : path) : bool :=
  match a, b with
  | [], [] => false
  | [], _ :: _ => true
  | _ :: _, [] => false
  | x :: a', y :: b' => if pstr_ltb x y then true else if pstr_ltb y x then false else path_ltb a' b'
  end.
Fixpoint pinsert {A} (k : path) (v : A) (l : list (path * A)) : list (path * A) :=
  match l with
  | [] => [(k, v)]
  | (k', v') :: l' => if path_ltb k k' then (k, v) :: l else (k', v') :: pinsert k v l'
  end.
Definition psort {A} (l : list (path * A)) : list (path * A) :=
  fold_right (fun kv acc => pinsert (fst kv) (snd kv) acc) [] l.

Definition comma : N := 44.
Definition show_bytes (b : bytes) : pstr := join [comma] (map show_N b).

(* "/a/b=1,2;/c=;|/a;/d;"  files sorted by path, then directories sorted *)
Definition show_fs (st : fs) : pstr :=
  concat (map (fun kv => show_path (fst kv) ++ [61] ++ show_bytes (snd kv) ++ [59]) (psort (files st)))
  ++ [124]
  ++ concat (map (fun kv => show_path (fst kv) ++ [59]) (psort (map (fun d => (d, tt)) (dirs st)))).

Definition show_ferr (x : ferr) : pstr :=
  match x with
  | ENOENT => s "ENOENT" | EEXIST => s "EEXIST" | EXDEV => s "EXDEV"
  | ENOTEMPTY => s "ENOTEMPTY" | EISDIR => s "EISDIR" | ENOTDIR => s "ENOTDIR"
  end.

(* Only what an observer of system calls sees: the write()/close() calls on an
   already open descriptor raise no audit event, so OpenTrunc;Append;Close is
   rendered as one visible event "W path" followed by the state it leads to. *)
Definition show_op (op : fsop) : pstr :=
  match op with
  | OpenTrunc p => s "W " ++ show_path p
  | Append p _ => s "A " ++ show_path p
  | Close p => s "C " ++ show_path p
  | Rename a b => s "mv " ++ show_path a ++ s " " ++ show_path b
  | Unlink p => s "rm " ++ show_path p
  | Mkdir d => s "mkdir " ++ show_path d
  | Rmdir d => s "rmdir " ++ show_path d
  | ReadAll p => s "R " ++ show_path p
  end.
Definition visible (op : fsop) : bool :=
  match op with Append _ _ | Close _ => false | _ => true end.

(* "ev => state ;; ev => state ;; ..." : every visible event with the state
   that an observer finds at the next event boundary (or at the end) *)
Definition sep_state : pstr := s " => ".
Definition sep_event : pstr := s " ;; ".
Fixpoint show_trace (e : env) (st : fs) (ops : list fsop) (started : bool) : pstr :=
  match ops with
  | [] => if started then sep_state ++ show_fs st else []
  | op :: ops' =>
      if visible op
      then (if started then sep_state ++ show_fs st ++ sep_event else [])
           ++ show_op op ++ show_trace e (step e st op) ops' true
      else show_trace e (step e st op) ops' started
  end.
