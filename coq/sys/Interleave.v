(* Calls that read only immutable module tables and write only their own state commute:
   any interleaving of such steps leaves every thread with the result of its sequential run (C20). *)
From Coq Require Import List Arith Lia.
Import ListNotations.

Section Interleave.
  Variable G : Type.            (* module-level tables: registry, dispatch table, default lists *)
  Variable L : Type.            (* the private state of one call: contexts, memo, buffers, the Card instance *)
  Variable step : G -> L -> L.  (* one atomic step: reads the tables, rewrites its own state only *)

  Fixpoint iter (g : G) (n : nat) (l : L) : L :=
    match n with O => l | S n' => iter g n' (step g l) end.

  Fixpoint upd (ls : list L) (i : nat) (f : L -> L) : list L :=
    match ls, i with
    | [], _ => []
    | l :: ls', O => f l :: ls'
    | l :: ls', S i' => l :: upd ls' i' f
    end.

  (* a schedule names, tick by tick, the thread that runs next *)
  Fixpoint run (g : G) (sched : list nat) (ls : list L) : list L :=
    match sched with
    | [] => ls
    | i :: sched' => run g sched' (upd ls i (step g))
    end.

  Lemma upd_length ls i f : length (upd ls i f) = length ls.
  Proof. revert i; induction ls as [|l ls IH]; intros [|i]; simpl; auto. Qed.

  Lemma nth_upd_same ls i f d : i < length ls -> nth i (upd ls i f) d = f (nth i ls d).
  Proof.
    revert i; induction ls as [|l ls IH]; intros i H; [simpl in H; lia|].
    destruct i as [|i]; simpl; [reflexivity|]. apply IH. simpl in H. lia.
  Qed.

  Lemma nth_upd_other ls i j f d : i <> j -> nth j (upd ls i f) d = nth j ls d.
  Proof.
    revert i j; induction ls as [|l ls IH]; intros i j H; [destruct i, j; reflexivity|].
    destruct i as [|i], j as [|j]; simpl; try reflexivity; [congruence|]. apply IH. congruence.
  Qed.

  Lemma iter_step g n l : iter g n (step g l) = step g (iter g n l).
  Proof. revert l; induction n as [|n IH]; intros l; simpl; [reflexivity|]. rewrite IH. reflexivity. Qed.

  Fixpoint ticks (j : nat) (sched : list nat) : nat :=
    match sched with [] => 0 | i :: s => (if Nat.eqb i j then 1 else 0) + ticks j s end.

  (* Whatever the schedule, thread j ends in the state its own steps produce when run alone. *)
  Theorem interleaving_irrelevant g : forall sched ls j d,
    j < length ls -> nth j (run g sched ls) d = iter g (ticks j sched) (nth j ls d).
  Proof.
    induction sched as [|i sched IH]; intros ls j d Hj; simpl; [reflexivity|].
    rewrite IH by (rewrite upd_length; exact Hj).
    destruct (Nat.eqb_spec i j) as [->|N].
    - rewrite nth_upd_same by exact Hj. simpl. reflexivity.
    - rewrite nth_upd_other by exact N. reflexivity.
  Qed.

  (* two schedules that give thread j the same number of ticks give it the same result *)
  Corollary schedule_independent g s1 s2 ls j d :
    j < length ls -> ticks j s1 = ticks j s2 -> nth j (run g s1 ls) d = nth j (run g s2 ls) d.
  Proof. intros H E. rewrite !interleaving_irrelevant by exact H. rewrite E. reflexivity. Qed.

  (* the tables are the same before and after: `run` does not even return them *)
  Lemma run_length g sched ls : length (run g sched ls) = length ls.
  Proof. revert ls; induction sched as [|i s IH]; intros ls; simpl; [reflexivity|]. rewrite IH, upd_length. reflexivity. Qed.
End Interleave.

(* the hypothesis is what makes it true: a step that also writes a shared cell is schedule dependent *)
Definition shared_step (gl : nat * list nat) (i : nat) : nat * list nat :=
  (* thread i copies the shared counter into its slot, then bumps the counter *)
  let '(c, ls) := gl in
  (S c, (fix up (ls : list nat) (k : nat) := match ls, k with [], _ => [] | _ :: t, O => c :: t | h :: t, S k' => h :: up t k' end) ls i).
Definition run_shared (sched : list nat) (gl : nat * list nat) := fold_left shared_step sched gl.
Lemma shared_state_refuted : snd (run_shared [0; 1] (0, [9; 9])) <> snd (run_shared [1; 0] (0, [9; 9])).
Proof. vm_compute. discriminate. Qed.
