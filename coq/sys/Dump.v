(* skops.io.dump / dumps sequencing (skops/io/_persist.py l.29-113): serialise
   completely into an in-memory buffer (may raise), only then touch the sink.
   Model only. *)
From Skv Require Export Fs.
Open Scope N_scope.

(* `file` argument of dump: a str/Path (existing or not - that is a fact of the
   state), or a binary file object the caller opened, positioned at its end *)
Inductive sink := SinkPath (p : path) | SinkFile (p : path).
Definition sink_path (k : sink) : path := match k with SinkPath p | SinkFile p => p end.

(* _save as a process: chunks reach the BytesIO while the object is walked;
   an exception can end the walk at any point *)
Record save_run := mksave { sr_chunks : list bytes; sr_exc : option err }.

(* what _save hands to its caller: the buffer, or the exception (the partial
   buffer is dropped with the frame) *)
Definition saved_of (r : save_run) : res bytes :=
  match sr_exc r with Some e => Raise e | None => Ok (concat (sr_chunks r)) end.

(* dumps(obj) = _save(obj).getbuffer().tobytes() *)
Definition dumps_of (r : save_run) : res bytes := saved_of r.

(* dump(obj, file): buffer = _save(obj)  THEN  open/write *)
Definition dump_ops (saved : res bytes) (k : sink) : list fsop * res unit :=
  match saved with
  | Raise e => ([], Raise e)
  | Ok b =>
      match k with
      | SinkPath p => ([OpenTrunc p; Append p b; Close p], Ok tt)
      | SinkFile p => ([Append p b], Ok tt)
      end
  end.

(* file.tell() of an append-positioned file object = size of the file *)
Definition tell (st : fs) (p : path) : option nat :=
  match fget p (files st) with Some b => Some (length b) | None => None end.

(* For contrast only: what a streaming writer (open first, write chunks as they
   are produced) would do.  Not the implementation. *)
Definition streaming_dump_ops (r : save_run) (k : sink) : list fsop :=
  match k with
  | SinkPath p => OpenTrunc p :: map (Append p) (sr_chunks r) ++ [Close p]
  | SinkFile p => map (Append p) (sr_chunks r)
  end.

(* ------------------------------------------------ position of a bad element *)
(* The recursive shape of get_state on containers: children are visited left
   to right, the first exception propagates.  Leaves are oracles: what the
   leaf's dispatch function writes into the archive, or the exception it raises. *)
Section Walk.
  Variable leaf : Type.
  Variable leaf_save : leaf -> res bytes.

  Inductive ckind := KList | KTuple | KDictValues | KSet | KObjectAttrs.
  Inductive pv := PLeaf (l : leaf) | PNode (k : ckind) (xs : list pv).

  Fixpoint walk (v : pv) (acc : list bytes) {struct v} : list bytes * option err :=
    match v with
    | PLeaf l => match leaf_save l with Ok b => (acc ++ [b], None) | Raise e => (acc, Some e) end
    | PNode _ xs =>
        (fix go (xs : list pv) (acc : list bytes) {struct xs} : list bytes * option err :=
           match xs with
           | [] => (acc, None)
           | x :: r => match walk x acc with (a, None) => go r a | bad => bad end
           end) xs acc
    end.

  Fixpoint walk_list (xs : list pv) (acc : list bytes) : list bytes * option err :=
    match xs with
    | [] => (acc, None)
    | x :: r => match walk x acc with (a, None) => walk_list r a | bad => bad end
    end.

  Definition save_value (v : pv) : save_run :=
    let r := walk v [] in mksave (fst r) (snd r).

  (* one-hole contexts: "anywhere inside, at any depth or position" *)
  Inductive ctx := CHole | CNode (k : ckind) (left : list pv) (c : ctx) (right : list pv).
  Fixpoint plug (c : ctx) (v : pv) : pv :=
    match c with
    | CHole => v
    | CNode k l c' r => PNode k (l ++ plug c' v :: r)
    end.
  Fixpoint cdepth (c : ctx) : nat := match c with CHole => O | CNode _ _ c' _ => S (cdepth c') end.
End Walk.
Arguments PLeaf {leaf}.
Arguments PNode {leaf}.
Arguments CHole {leaf}.
Arguments CNode {leaf}.

(* ------------------------------------------------------- canonical output *)
Definition show_dump (e : env) (st : fs) (saved : res bytes) (k : sink) : pstr :=
  (match snd (dump_ops saved k) with Ok _ => s "ok" | Raise _ => s "raise" end)
  ++ s " ## " ++ show_trace e st (fst (dump_ops saved k)) false
  ++ s " ## " ++ show_fs (apply_ops e st (fst (dump_ops saved k)))
  ++ s " ## tell=" ++ match tell (apply_ops e st (fst (dump_ops saved k))) (sink_path k) with
                      | Some n => show_N (N.of_nat n) | None => s "-" end.
