(* Theorems about dump / dumps sequencing as modelled in Dump.v (C18). *)
From Skv Require Import PyStr PyStrFacts Json Fs FsFacts Dump.
From Coq Require Import Lia.
Open Scope N_scope.

(* ---------------------------------------------------------------- no touch *)
(* _save raised: dump performs no operation on the sink, whatever its kind
   (path that exists, path that does not, open file object), and re-raises *)
Theorem dump_no_touch saved k x :
  saved = Raise x -> dump_ops saved k = ([], Raise x).
Proof. intros ->. reflexivity. Qed.

(* ... hence the file system is the same at every moment of the failed call:
   an existing file keeps its bytes, a missing one stays missing, the file
   object's position (= size) does not move *)
Theorem dump_failure_inert e saved k x :
  saved = Raise x ->
  forall st pre, crash_of (fst (dump_ops saved k)) pre ->
    apply_ops e st pre = st /\ tell (apply_ops e st pre) (sink_path k) = tell st (sink_path k).
Proof.
  intros -> st pre C. cbn in C. apply ops_of_crash_nil in C. subst. split; reflexivity.
Qed.

(* success, for the three sink kinds *)
Theorem dump_path_completes e st p b :
  is_dir st p = false -> is_dir st (parent p) = true ->
  let fin := apply_ops e st (fst (dump_ops (Ok b) (SinkPath p))) in
  (forall q, fget q (files fin) = if path_eqb q p then Some b else fget q (files st))
  /\ dirs fin = dirs st.
Proof.
  intros Hd Hp. cbn [dump_ops fst]. destruct (write_file_run e st p b Hd Hp) as [R _].
  cbn zeta. rewrite R. split; [intros q; apply write_file_get | reflexivity].
Qed.
Theorem dump_file_completes e st p old b :
  fget p (files st) = Some old ->
  let fin := apply_ops e st (fst (dump_ops (Ok b) (SinkFile p))) in
  fget p (files fin) = Some (old ++ b)
  /\ tell fin p = Some (length old + length b)%nat
  /\ (forall q, q <> p -> fget q (files fin) = fget q (files st)).
Proof.
  intros H. cbn [dump_ops fst apply_ops]. unfold step. cbn [apply_op]. rewrite H. cbn zeta.
  unfold tell. cbn [files]. rewrite fget_fset_eq, app_length.
  repeat split. intros q N. apply fget_fset_neq. exact N.
Qed.

(* ------------------------------------------------------------------- dumps *)
(* dumps returns the complete buffer or raises: a run that ended in an
   exception returns nothing, however many chunks had reached the buffer *)
Theorem dumps_total r :
  match dumps_of r with
  | Ok b => sr_exc r = None /\ b = concat (sr_chunks r)
  | Raise x => sr_exc r = Some x
  end.
Proof. unfold dumps_of, saved_of. destruct (sr_exc r); [reflexivity | split; reflexivity]. Qed.

Corollary dumps_never_partial r x :
  sr_exc r = Some x -> dumps_of r = Raise x.
Proof. unfold dumps_of, saved_of. intros ->. reflexivity. Qed.

(* the sequencing is what carries the guarantee: a writer that opens first
   leaves a truncated / partial destination on the same failed run *)
Theorem streaming_refuted :
  let r := mksave [[7; 7]] (Some EUnsupported) in
  let p := [s "S"; s "model.skops"] in
  let st := mkfs [(p, [1; 2; 3])] [[]; [s "S"]] in
  saved_of r = Raise EUnsupported
  /\ fget p (files (apply_ops (mkenv None) st (fst (dump_ops (saved_of r) (SinkPath p))))) = Some [1; 2; 3]
  /\ exists pre, crash_of (streaming_dump_ops r (SinkPath p)) pre
       /\ fget p (files (apply_ops (mkenv None) st pre)) = Some [7; 7].
Proof.
  cbn zeta. repeat split.
  eexists. split; [apply crash_later, crash_later, crash_here | reflexivity].
Qed.

(* ---------------------------------------------------------------- position *)
Section Position.
  Variable leaf : Type.
  Variable leaf_save : leaf -> res bytes.
  Notation walk := (walk leaf leaf_save).
  Notation walk_list := (walk_list leaf leaf_save).

  Lemma walk_node k xs acc : walk (PNode k xs) acc = walk_list xs acc.
  Proof.
    cbn [Dump.walk]. revert acc. induction xs as [|x r IH]; intros acc; [reflexivity|].
    cbn [Dump.walk_list]. destruct (walk x acc) as [a [e|]]; [reflexivity | apply IH].
  Qed.

  Lemma walk_list_app l x r acc :
    walk_list (l ++ x :: r) acc =
      match walk_list l acc with
      | (a, None) => match walk x a with (a', None) => walk_list r a' | bad => bad end
      | bad => bad
      end.
  Proof.
    revert acc; induction l as [|y l IH]; intros acc; cbn [app Dump.walk_list].
    - reflexivity.
    - destruct (walk y acc) as [a [e|]]; [reflexivity | apply IH].
  Qed.

  (* an element whose serialisation raises makes the whole walk raise, wherever
     it sits: any depth, any position, any container kind *)
  Theorem walk_position c bad x :
    leaf_save bad = Raise x ->
    forall acc, exists x', snd (walk (plug leaf c (PLeaf bad)) acc) = Some x'.
  Proof.
    intros B. induction c as [|k l c IH r]; intros acc; cbn [plug].
    - cbn [Dump.walk]. rewrite B. exists x. reflexivity.
    - rewrite walk_node, walk_list_app.
      destruct (walk_list l acc) as [a [e|]]; [exists e; reflexivity|].
      destruct (IH a) as [x' E]. destruct (walk (plug leaf c (PLeaf bad)) a) as [a' [e|]]; cbn [snd] in E.
      + exists e. reflexivity.
      + discriminate.
  Qed.

  (* all elements visited before the bad one are fine: it is its exception *)
  Fixpoint lefts_ok (c : ctx leaf) (acc : list bytes) : Prop :=
    match c with
    | CHole => True
    | CNode _ l c' _ => exists a, walk_list l acc = (a, None) /\ lefts_ok c' a
    end.
  Theorem walk_position_exact c bad x :
    leaf_save bad = Raise x ->
    forall acc, lefts_ok c acc -> snd (walk (plug leaf c (PLeaf bad)) acc) = Some x.
  Proof.
    intros B. induction c as [|k l c IH r]; intros acc L; cbn [plug].
    - cbn [Dump.walk]. rewrite B. reflexivity.
    - destruct L as [a [La Lc]]. rewrite walk_node, walk_list_app, La.
      specialize (IH a Lc). destruct (walk (plug leaf c (PLeaf bad)) a) as [a' [e|]]; cbn [snd] in IH.
      + cbn [snd]. exact IH.
      + discriminate.
  Qed.

  (* ... so dump never touches the sink and dumps returns nothing *)
  Theorem dump_position c bad x k :
    leaf_save bad = Raise x ->
    exists x', dump_ops (saved_of (save_value leaf leaf_save (plug leaf c (PLeaf bad)))) k = ([], Raise x')
               /\ dumps_of (save_value leaf leaf_save (plug leaf c (PLeaf bad))) = Raise x'.
  Proof.
    intros B. destruct (walk_position c bad x B []) as [x' E].
    exists x'. unfold dumps_of, saved_of, save_value. cbn [sr_exc]. rewrite E. split; reflexivity.
  Qed.
End Position.

(* a three-level example: list of [tuple, dict-values] with the bad leaf inside the dict *)
Example position_example :
  let save := fun n : N => if N.eqb n 0 then Raise EUnsupported else Ok [n] in
  let c := CNode KList [PLeaf 1; PNode KTuple [PLeaf 2; PLeaf 3]]
             (CNode KDictValues [PLeaf 4] CHole [PLeaf 5]) [PLeaf 6] in
  walk N save (plug N c (PLeaf 0)) [] = ([[1]; [2]; [3]; [4]], Some EUnsupported).
Proof. vm_compute. reflexivity. Qed.

(* --------------------------------------------------------------- oracle *)
Section Oracle.
  Variable obj : Type.
  Variable dumps : obj -> res bytes.            (* skops' serialiser, as the codec part models it *)
  Variable octx : Type.
  Variable oplug : octx -> obj -> obj.
  Variable unsupported : obj -> Prop.
  Hypothesis dumps_strict : forall c bad, unsupported bad -> exists x, dumps (oplug c bad) = Raise x.

  Theorem dump_position_oracle c bad k e st :
    unsupported bad ->
    exists x, dump_ops (dumps (oplug c bad)) k = ([], Raise x)
              /\ apply_ops e st (fst (dump_ops (dumps (oplug c bad)) k)) = st.
  Proof.
    intros U. destruct (dumps_strict c bad U) as [x E]. exists x. rewrite E. split; reflexivity.
  Qed.
End Oracle.
