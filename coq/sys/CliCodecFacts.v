(* The command-line tools composed with the codec: `skops update` writes dump(load(input)) and `skops convert` writes
   dumps(pickle.load(input)); in the file-operation models (Update.v, Convert.v) those bytes are opaque (w_new, k_saved).
   Here they are instantiated with the dump model + the zip container oracle, and the round-trip theorem of the codec
   (CodecRootFacts.root_roundtrip_total, i.e. C05) is carried through the file operations: what is on disk at the
   destination afterwards unzips to an archive that loads_model maps back to the very value.
   Scope: values in the C05 fragment (c05_guard); the zip container is an oracle that reads back what it wrote. *)
From Coq Require Import List ZArith.
From Skv Require Import Fs FsFacts Dump DumpFacts SinkFacts Update UpdateFacts Convert ConvertFacts.
From Skv Require Import PyVal CodecDump CodecLoad CodecShareFacts CodecFacts CodecRootFacts.
Import ListNotations.

Section CliCodec.
  Variable zipc : nat -> nat -> archive -> bytes.
  Variable unzip : bytes -> option archive.
  Hypothesis unzip_zipc : forall method level a, unzip (zipc method level a) = Some a.

  (* dumping a fragment value and reading the buffer back gives an archive that loads to the value *)
  Lemma saved_loads_back reg cur (F : cfacts) (D : denv) base v method level b :
    dn_cur D = cur -> reg_ok reg cur = true -> facts_sane F = true -> c05_guard F D base v = true ->
    save_model zipc D base v method level = Ok b ->
    exists a, unzip b = Some a /\ dumps_model D base v = Ok a
              /\ loads_model (cenv_of reg cur F a) (a_schema a) = Ok v.
  Proof.
    intros H1 H2 H3 H4 S.
    pose proof (root_roundtrip_total reg cur F D base v H1 H2 H3 H4) as R.
    unfold roundtrip in R. unfold save_model in S.
    destruct (dumps_model D base v) as [a|x] eqn:Ha; [|discriminate S].
    injection S as <-. cbn [bind] in R.
    exists a. repeat split; [apply unzip_zipc | exact R].
  Qed.

  (* skops update: the destination ends up holding a current-protocol archive of the value the old archive held *)
  Theorem update_result_loads_equal_partial e w c st out reg cur (F : cfacts) (D : denv) base v method level :
    fits e w c st = true -> should_write w c = true -> dest w c = Some out -> c_dstdir_ok c = true ->
    dn_cur D = cur -> reg_ok reg cur = true -> facts_sane F = true -> c05_guard F D base v = true ->
    save_model zipc D base v method level = Ok (w_new w) ->                (* w_new = dump(load(input)), load(input) = v *)
    let fin := apply_ops e st (fst (update_ops w c)) in
    exists a, fget (dst_of w out) (files fin) = Some (w_new w)
              /\ unzip (w_new w) = Some a
              /\ loads_model (cenv_of reg cur F a) (a_schema a) = Ok v.
  Proof.
    intros Hf Hs Hd Hok H1 H2 H3 H4 S. cbn zeta.
    destruct (update_completes e w c st out Hf Hs Hd Hok) as (_ & _ & G & _). cbn zeta in G.
    destruct (saved_loads_back reg cur F D base v method level (w_new w) H1 H2 H3 H4 S) as [a [U [_ L]]].
    exists a. repeat split; [rewrite G, path_eqb_refl; reflexivity | exact U | exact L].
  Qed.

  (* skops convert: the output file holds an archive that loads to the unpickled value *)
  Theorem convert_result_loads_equal_partial e c st reg cur (F : cfacts) (D : denv) base v method level b :
    cfits c st = true -> same_file c = false -> k_outdir_ok c = true ->
    dn_cur D = cur -> reg_ok reg cur = true -> facts_sane F = true -> c05_guard F D base v = true ->
    k_saved c = save_model zipc D base v method level -> k_saved c = Ok b ->   (* k_saved = dumps(pickle.load(input)) *)
    let fin := apply_ops e st (convert_ops c) in
    exists a, fget (out_path c) (files fin) = Some b
              /\ unzip b = Some a
              /\ loads_model (cenv_of reg cur F a) (a_schema a) = Ok v.
  Proof.
    intros Hf Hns Hok H1 H2 H3 H4 S Sb. cbn zeta.
    destruct (convert_completes e c st b Hf Hns Sb Hok) as (_ & _ & G & _). cbn zeta in G.
    rewrite Sb in S. symmetry in S.
    destruct (saved_loads_back reg cur F D base v method level b H1 H2 H3 H4 S) as [a [U [_ L]]].
    exists a. repeat split; [rewrite G, path_eqb_refl; reflexivity | exact U | exact L].
  Qed.
End CliCodec.
