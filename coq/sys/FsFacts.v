(* Facts about the file-system model: lookup algebra, frame lemma (an operation
   that does not touch a path leaves it alone), crash prefixes, and the generic
   "write elsewhere, then rename" atomicity theorem. *)
From Skv Require Import PyStr PyStrFacts Json Fs.
From Coq Require Import Lia.
Open Scope N_scope.

(* ------------------------------------------------------------------ paths *)
Lemma path_eqb_eq a b : path_eqb a b = true <-> a = b.
Proof.
  revert b; induction a as [|x a IH]; intros [|y b]; cbn [path_eqb]; split; intro H;
    try reflexivity; try discriminate.
  - apply andb_true_iff in H as [H1 H2]. apply pstr_eqb_eq in H1. apply IH in H2. congruence.
  - injection H as -> ->. rewrite pstr_eqb_refl. cbn [andb]. apply IH. reflexivity.
Qed.
Lemma path_eqb_refl a : path_eqb a a = true.
Proof. apply path_eqb_eq. reflexivity. Qed.
Lemma path_eqb_neq a b : path_eqb a b = false <-> a <> b.
Proof.
  split; intro H.
  - intro E. apply path_eqb_eq in E. congruence.
  - destruct (path_eqb a b) eqn:E; [apply path_eqb_eq in E; contradiction | reflexivity].
Qed.
Lemma path_eqb_sym a b : path_eqb a b = path_eqb b a.
Proof.
  destruct (path_eqb a b) eqn:E.
  - apply path_eqb_eq in E. subst. symmetry. apply path_eqb_refl.
  - symmetry. apply path_eqb_neq. apply path_eqb_neq in E. congruence.
Qed.

Lemma parent_snoc (d : path) (x : pstr) : parent (d ++ [x]) = d.
Proof. unfold parent. apply removelast_last. Qed.

Lemma is_prefix_app a b : is_prefix a (a ++ b) = true.
Proof. induction a as [|x a IH]; cbn; [reflexivity|]. rewrite pstr_eqb_refl. exact IH. Qed.
Lemma is_prefix_refl a : is_prefix a a = true.
Proof. rewrite <- (app_nil_r a) at 2. apply is_prefix_app. Qed.
Lemma is_prefix_parent (q : path) : nonroot q = true -> is_prefix (parent q) q = true.
Proof.
  intros H. destruct q as [|x q]; [discriminate|].
  destruct (exists_last (l := x :: q) ltac:(discriminate)) as [d [y E]].
  rewrite E. rewrite parent_snoc. apply is_prefix_app.
Qed.
Lemma snoc_neq_self (d : path) (x : pstr) : d ++ [x] <> d.
Proof. intro E. apply (f_equal (@length _)) in E. rewrite app_length in E. cbn in E. lia. Qed.
Lemma snoc2_neq_snoc (d : path) (x y z : pstr) : d ++ [x] ++ [y] <> d ++ [z].
Proof. intro E. apply (f_equal (@length _)) in E. rewrite !app_length in E. cbn in E. lia. Qed.

(* ----------------------------------------------------------------- lookup *)
Lemma fget_fdel_eq p l : fget p (fdel p l) = None.
Proof.
  induction l as [|[q v] l IH]; cbn; [reflexivity|].
  destruct (path_eqb p q) eqn:E; cbn; [exact IH|]. rewrite E. exact IH.
Qed.
Lemma fget_fdel_neq p q l : p <> q -> fget p (fdel q l) = fget p l.
Proof.
  intros N. induction l as [|[r v] l IH]; cbn; [reflexivity|].
  destruct (path_eqb q r) eqn:E; cbn.
  - apply path_eqb_eq in E. subst r.
    apply path_eqb_neq in N. rewrite N. exact IH.
  - destruct (path_eqb p r); [reflexivity | exact IH].
Qed.
Lemma fget_fset_eq p v l : fget p (fset p v l) = Some v.
Proof. unfold fset. cbn. rewrite path_eqb_refl. reflexivity. Qed.
Lemma fget_fset_neq p q v l : p <> q -> fget p (fset q v l) = fget p l.
Proof.
  intros N. unfold fset. cbn. apply path_eqb_neq in N. rewrite N.
  apply fget_fdel_neq. apply path_eqb_neq. exact N.
Qed.

Lemma dmem_ddel_eq d l : dmem d (ddel d l) = false.
Proof.
  unfold dmem, ddel. induction l as [|q l IH]; [reflexivity|].
  cbn [filter]. destruct (path_eqb d q) eqn:E; cbn [negb existsb]; [exact IH|].
  rewrite E, IH. reflexivity.
Qed.
Lemma dmem_ddel_neq d q l : d <> q -> dmem d (ddel q l) = dmem d l.
Proof.
  intros N. unfold dmem, ddel. induction l as [|r l IH]; [reflexivity|].
  cbn [filter existsb]. destruct (path_eqb q r) eqn:E; cbn [negb existsb].
  - rewrite IH. apply path_eqb_eq in E. subst r. apply path_eqb_neq in N. rewrite N. reflexivity.
  - rewrite IH. reflexivity.
Qed.

(* nothing of the state lives at or below t (a fresh mkdtemp name) *)
Definition fresh_under (t : path) (st : fs) : bool :=
  forallb (fun kv => negb (is_prefix t (fst kv))) (files st)
  && forallb (fun q => negb (is_prefix t q)) (dirs st).

Lemma fresh_fget t st p :
  fresh_under t st = true -> is_prefix t p = true -> fget p (files st) = None.
Proof.
  unfold fresh_under. intros H Hp. apply andb_true_iff in H as [H _].
  induction (files st) as [|[q v] l IH]; cbn in *; [reflexivity|].
  apply andb_true_iff in H as [H1 H2].
  destruct (path_eqb p q) eqn:E.
  - apply path_eqb_eq in E. subst q. rewrite Hp in H1. discriminate.
  - apply IH. exact H2.
Qed.
Lemma fresh_dmem t st p :
  fresh_under t st = true -> is_prefix t p = true -> dmem p (dirs st) = false.
Proof.
  unfold fresh_under. intros H Hp. apply andb_true_iff in H as [_ H].
  induction (dirs st) as [|q l IH]; cbn in *; [reflexivity|].
  apply andb_true_iff in H as [H1 H2].
  destruct (path_eqb p q) eqn:E.
  - apply path_eqb_eq in E. subst q. rewrite Hp in H1. discriminate.
  - cbn. apply IH. exact H2.
Qed.

(* ------------------------------------------------------------ frame lemma *)
Lemma step_untouched e st op p :
  touches op p = false -> fget p (files (step e st op)) = fget p (files st).
Proof.
  unfold step. destruct op as [q|q c|q|a b|q|d|d|q]; cbn [apply_op touches]; intros T.
  - destruct (is_dir st q); [reflexivity|]. destruct (negb (is_dir st (parent q))); [reflexivity|].
    cbn [files]. apply fget_fset_neq. apply path_eqb_neq. exact T.
  - destruct (fget q (files st)); [|reflexivity].
    cbn [files]. apply fget_fset_neq. apply path_eqb_neq. exact T.
  - destruct (is_file st q); reflexivity.
  - apply orb_false_iff in T as [Ta Tb].
    destruct (fget a (files st)); [|reflexivity].
    destruct (negb (is_dir st (parent b))); [reflexivity|].
    destruct (negb (Bool.eqb (dev e a) (dev e b))); [reflexivity|].
    destruct (is_dir st b); [reflexivity|].
    destruct (path_eqb a b); [reflexivity|].
    cbn [files]. rewrite fget_fset_neq by (apply path_eqb_neq; exact Tb).
    apply fget_fdel_neq. apply path_eqb_neq. exact Ta.
  - destruct (is_file st q).
    + cbn [files]. apply fget_fdel_neq. apply path_eqb_neq. exact T.
    + destruct (is_dir st q); reflexivity.
  - destruct (is_dir st d || is_file st d); [reflexivity|].
    destruct (negb (is_dir st (parent d))); reflexivity.
  - destruct (is_file st d); [reflexivity|]. destruct (negb (is_dir st d)); [reflexivity|].
    destruct (has_child st d); reflexivity.
  - destruct (is_file st q); [reflexivity|]. destruct (is_dir st q); reflexivity.
Qed.

Lemma step_ReadAll e st p : step e st (ReadAll p) = st.
Proof. unfold step; cbn. destruct (is_file st p); [reflexivity|]. destruct (is_dir st p); reflexivity. Qed.
Lemma step_Close e st p : step e st (Close p) = st.
Proof. unfold step; cbn. destruct (is_file st p); reflexivity. Qed.
Lemma step_nonmutating e st op : mutating op = false -> step e st op = st.
Proof. destruct op; cbn; try discriminate; intros _; [apply step_Close | apply step_ReadAll]. Qed.

Definition untouched_by (ops : list fsop) (p : path) : bool :=
  forallb (fun op => negb (touches op p)) ops.

Lemma apply_ops_app e st a b : apply_ops e st (a ++ b) = apply_ops e (apply_ops e st a) b.
Proof. revert st; induction a as [|op a IH]; intros st; cbn; [reflexivity | apply IH]. Qed.

Lemma apply_ops_untouched e ops p :
  untouched_by ops p = true -> forall st, fget p (files (apply_ops e st ops)) = fget p (files st).
Proof.
  induction ops as [|op ops IH]; cbn; intros H st; [reflexivity|].
  apply andb_true_iff in H as [H1 H2]. rewrite IH by exact H2.
  apply step_untouched. apply negb_true_iff. exact H1.
Qed.

Lemma apply_ops_nonmutating e ops :
  forallb (fun op => negb (mutating op)) ops = true -> forall st, apply_ops e st ops = st.
Proof.
  induction ops as [|op ops IH]; cbn; intros H st; [reflexivity|].
  apply andb_true_iff in H as [H1 H2]. rewrite step_nonmutating by (apply negb_true_iff; exact H1).
  apply IH. exact H2.
Qed.

(* ------------------------------------------------------------------ crash *)
Lemma bprefix_refl {A} (l : list A) : bprefix l l.
Proof. induction l; constructor; assumption. Qed.

Lemma crash_complete ops : crash_of ops ops.
Proof.
  induction ops as [|op ops IH]; [constructor | apply crash_later; exact IH].
Qed.

Lemma crash_untouched_by ops pre p :
  crash_of ops pre -> untouched_by ops p = true -> untouched_by pre p = true.
Proof.
  induction 1 as [ops | op ops pre H IH | q c c' ops Hc]; cbn; intros U.
  - reflexivity.
  - apply andb_true_iff in U as [U1 U2]. rewrite U1. cbn. apply IH. exact U2.
  - apply andb_true_iff in U as [U1 _]. cbn in U1. rewrite U1. reflexivity.
Qed.

(* a path no operation of the program touches keeps its content at every crash point *)
Theorem crash_untouched e ops p :
  untouched_by ops p = true ->
  forall pre st, crash_of ops pre -> fget p (files (apply_ops e st pre)) = fget p (files st).
Proof.
  intros U pre st C. apply apply_ops_untouched. eapply crash_untouched_by; eassumption.
Qed.

Lemma crash_app a b pre :
  crash_of (a ++ b) pre ->
  crash_of a pre \/ exists pre', pre = a ++ pre' /\ crash_of b pre'.
Proof.
  revert pre; induction a as [|op a IH]; intros pre C.
  - right. exists pre. split; [reflexivity | exact C].
  - cbn in C. inversion C as [ops E1 E2 | op' ops pre0 C' E1 E2 | q c c' ops Hc E1 E2]; subst.
    + left. constructor.
    + destruct (IH _ C') as [L | [pre' [E R]]].
      * left. apply crash_later. exact L.
      * right. exists pre'. subst pre0. split; [reflexivity | exact R].
    + left. apply crash_inside. exact Hc.
Qed.

Lemma crash_app_r a b pre' : crash_of b pre' -> crash_of (a ++ b) (a ++ pre').
Proof. intros C. induction a as [|op a IH]; cbn; [exact C | apply crash_later; exact IH]. Qed.

(* the executable enumeration lists exactly the crash points *)
Lemma prefixes_sound {A} (l p : list A) : In p (prefixes l) -> bprefix p l.
Proof.
  revert p; induction l as [|x l IH]; cbn; intros p H.
  - destruct H as [<-|[]]. constructor.
  - destruct H as [<-|H]; [constructor|].
    apply in_map_iff in H as [p' [<- H]]. constructor. apply IH. exact H.
Qed.
Lemma prefixes_complete {A} (l p : list A) : bprefix p l -> In p (prefixes l).
Proof.
  induction 1 as [l | x a b H IH].
  - destruct l; cbn; left; reflexivity.
  - cbn. right. apply in_map. exact IH.
Qed.

Theorem crash_points_spec ops pre : In pre (crash_points ops) <-> crash_of ops pre.
Proof.
  split.
  - revert pre; induction ops as [|op ops IH]; cbn; intros pre H.
    + destruct H as [<-|[]]. constructor.
    + destruct H as [<-|H]; [constructor|].
      apply in_app_or in H as [H|H].
      * destruct op; try contradiction.
        apply in_map_iff in H as [c' [<- H]]. apply crash_inside. apply prefixes_sound. exact H.
      * apply in_map_iff in H as [pre' [<- H]]. apply crash_later. apply IH. exact H.
  - induction 1 as [ops | op ops pre H IH | q c c' ops Hc].
    + destruct ops; cbn; left; reflexivity.
    + cbn. right. apply in_or_app. right. apply in_map. exact IH.
    + cbn. right. apply in_or_app. left.
      apply (in_map (fun c0 => [Append q c0])). apply prefixes_complete. exact Hc.
Qed.

(* ------------------------------------ write elsewhere, then rename: atomic *)
Theorem rename_atomic e (A B : list fsop) (t d : path) :
  untouched_by A d = true -> untouched_by B d = true ->
  forall st pre, crash_of (A ++ Rename t d :: B) pre ->
    fget d (files (apply_ops e st pre)) = fget d (files st)
    \/ fget d (files (apply_ops e st pre)) = fget d (files (apply_ops e st (A ++ [Rename t d]))).
Proof.
  intros UA UB st pre C.
  apply crash_app in C as [C | [pre' [-> C]]].
  - left. apply (crash_untouched e A d UA pre st C).
  - inversion C as [ops E1 E2 | op' ops pre0 C' E1 E2 | q c c' ops Hc E1 E2]; subst.
    + left. rewrite app_nil_r. apply apply_ops_untouched. exact UA.
    + right.
      replace (A ++ Rename t d :: pre0) with ((A ++ [Rename t d]) ++ pre0)
        by (rewrite <- app_assoc; reflexivity).
      rewrite apply_ops_app.
      apply (crash_untouched e B d UB pre0 _ C').
Qed.

(* directories only change through Mkdir / Rmdir *)
Lemma step_dirs_file_op e st op :
  match op with Mkdir _ | Rmdir _ => False | _ => True end -> dirs (step e st op) = dirs st.
Proof.
  unfold step. destruct op as [q|q c|q|a b|q|d|d|q]; cbn [apply_op]; intros H; try contradiction.
  - destruct (is_dir st q); [reflexivity|]. destruct (negb (is_dir st (parent q))); reflexivity.
  - destruct (fget q (files st)); reflexivity.
  - destruct (is_file st q); reflexivity.
  - destruct (fget a (files st)); [|reflexivity].
    destruct (negb (is_dir st (parent b))); [reflexivity|].
    destruct (negb (Bool.eqb (dev e a) (dev e b))); [reflexivity|].
    destruct (is_dir st b); [reflexivity|]. destruct (path_eqb a b); reflexivity.
  - destruct (is_file st q); [reflexivity|]. destruct (is_dir st q); reflexivity.
  - destruct (is_file st q); [reflexivity|]. destruct (is_dir st q); reflexivity.
Qed.

(* open(p, "wb"); write(b); close()  on a path whose directory exists *)
Lemma write_file_run e st p b :
  is_dir st p = false -> is_dir st (parent p) = true ->
  apply_ops e st [OpenTrunc p; Append p b; Close p] = mkfs (fset p b (fset p [] (files st))) (dirs st)
  /\ errs_of e st [OpenTrunc p; Append p b; Close p] = [None; None; None].
Proof.
  intros Hd Hp.
  assert (O : apply_op e st (OpenTrunc p) = inl (mkfs (fset p [] (files st)) (dirs st)))
    by (cbn [apply_op]; rewrite Hd, Hp; reflexivity).
  set (st1 := mkfs (fset p [] (files st)) (dirs st)).
  assert (A : apply_op e st1 (Append p b) = inl (mkfs (fset p b (fset p [] (files st))) (dirs st)))
    by (cbn [apply_op]; unfold st1; cbn [files dirs]; rewrite fget_fset_eq; reflexivity).
  set (st2 := mkfs (fset p b (fset p [] (files st))) (dirs st)).
  assert (C : apply_op e st2 (Close p) = inl st2)
    by (cbn [apply_op]; unfold is_file, st2; cbn [files]; rewrite fget_fset_eq; reflexivity).
  cbn [apply_ops errs_of]. unfold step, op_err. rewrite O. fold st1. rewrite A. fold st2. rewrite C.
  split; reflexivity.
Qed.

Lemma write_file_get p b l q :
  fget q (fset p b (fset p [] l)) = if path_eqb q p then Some b else fget q l.
Proof.
  destruct (path_eqb q p) eqn:E.
  - apply path_eqb_eq in E. subst q. apply fget_fset_eq.
  - apply path_eqb_neq in E. rewrite !fget_fset_neq by exact E. reflexivity.
Qed.

(* open(p, "wb") on a path whose directory is missing: ENOENT, nothing changes *)
Lemma open_missing_dir e st p :
  is_dir st p = false -> is_dir st (parent p) = false ->
  step e st (OpenTrunc p) = st /\ op_err e st (OpenTrunc p) = Some ENOENT.
Proof. intros Hd Hp. unfold step, op_err. cbn [apply_op]. rewrite Hd, Hp. split; reflexivity. Qed.

Lemma ops_of_crash_nil pre : crash_of [] pre -> pre = [].
Proof. inversion 1; reflexivity. Qed.
