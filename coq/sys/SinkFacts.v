(* dump(obj, file, compression=, compresslevel=) / dumps(obj, compression=, compresslevel=) as a composition:
   the archive (schema + members) is computed by the dump model from the value alone; the zip container turns it
   into bytes under the requested compression; the ONE resulting buffer is what every kind of sink receives
   (skops/io/_persist.py: _save builds the whole zip in a BytesIO; dump writes buffer.getbuffer() to the path or
   file object; dumps returns it).  The zip container is an oracle with the single assumption that reading back
   what it wrote yields the same members whatever the compression method and level (zipfile is trusted, not
   modelled).  Everything else is proved. *)
From Coq Require Import List.
From Skv Require Import Fs FsFacts Dump DumpFacts CodecDump.
Import ListNotations.

Section Sinks.
  Variable zipc : nat -> nat -> archive -> bytes.          (* ZipFile(buffer, "w", compression, compresslevel) *)
  Variable unzip : bytes -> option archive.                (* ZipFile(..., "r"): namelist + read *)
  Hypothesis unzip_zipc : forall method level a, unzip (zipc method level a) = Some a.

  (* _save(obj, compression, compresslevel) *)
  Definition save_model (D : denv) (base : BinNums.Z) (v : PyVal.pval) (method level : nat) : res bytes :=
    match dumps_model D base v with Ok a => Ok (zipc method level a) | Raise e => Raise e end.

  (* what the caller can read back from each sink after the call *)
  Inductive target := TBytes | TSink (k : sink).

  (* the bytes that reached the target: dumps returns them; a path holds exactly them; a file object that was
     positioned at the end of `old` holds old ++ them *)
  Definition received (e : env) (st : fs) (t : target) (saved : res bytes) : option bytes :=
    match saved with
    | Raise _ => None
    | Ok b =>
        match t with
        | TBytes => Some b
        | TSink (SinkPath p) => fget p (files (apply_ops e st (fst (dump_ops saved (SinkPath p)))))
        | TSink (SinkFile p) =>
            match fget p (files st), fget p (files (apply_ops e st (fst (dump_ops saved (SinkFile p))))) with
            | Some old, Some now => Some (skipn (length old) now)
            | _, _ => None
            end
        end
    end.

  (* the sink is usable: a path whose directory exists and which is not a directory; an open file object *)
  Definition target_ok (st : fs) (t : target) : Prop :=
    match t with
    | TBytes => True
    | TSink (SinkPath p) => is_dir st p = false /\ is_dir st (parent p) = true
    | TSink (SinkFile p) => exists old, fget p (files st) = Some old
    end.

  Lemma skipn_app_exact {A} (a b : list A) : skipn (length a) (a ++ b) = b.
  Proof. induction a as [|x a IH]; [reflexivity | exact IH]. Qed.

  (* every target receives exactly the one buffer *)
  Theorem received_is_buffer e st t b :
    target_ok st t -> received e st t (Ok b) = Some b.
  Proof.
    destruct t as [|[p|p]]; cbn [target_ok received].
    - reflexivity.
    - intros [Hd Hp]. destruct (dump_path_completes e st p b Hd Hp) as [G _]. cbn zeta in G.
      rewrite G, path_eqb_refl. reflexivity.
    - intros [old Ho]. destruct (dump_file_completes e st p old b Ho) as [G _]. cbn zeta in G.
      rewrite Ho, G, skipn_app_exact. reflexivity.
  Qed.

  (* C12: the same object written to a path, an open binary file or returned by dumps, under any zip compression
     method and level, yields the same archive -- schema and members identical (not only up to ids: the ids are a
     function of the dump call's allocator state D/base, which the sink and the compression do not influence) *)
  Theorem sink_compression_independent e st D base v a :
    dumps_model D base v = Ok a ->
    forall t method level, target_ok st t ->
      exists b, received e st t (save_model D base v method level) = Some b /\ unzip b = Some a.
  Proof.
    intros Ha t method level Ht. unfold save_model. rewrite Ha.
    exists (zipc method level a). split; [apply received_is_buffer; exact Ht | apply unzip_zipc].
  Qed.

  (* two different targets / compression settings: same logical archive *)
  Corollary sink_compression_pairwise e st D base v a t1 m1 l1 t2 m2 l2 :
    dumps_model D base v = Ok a -> target_ok st t1 -> target_ok st t2 ->
    exists b1 b2, received e st t1 (save_model D base v m1 l1) = Some b1
               /\ received e st t2 (save_model D base v m2 l2) = Some b2
               /\ unzip b1 = unzip b2 /\ unzip b1 = Some a.
  Proof.
    intros Ha H1 H2.
    destruct (sink_compression_independent e st D base v a Ha t1 m1 l1 H1) as [b1 [R1 U1]].
    destruct (sink_compression_independent e st D base v a Ha t2 m2 l2 H2) as [b2 [R2 U2]].
    exists b1, b2. repeat split; try assumption. rewrite U1, U2. reflexivity.
  Qed.

  (* a failing serialisation: no target receives anything, whatever the compression *)
  Theorem failing_dump_delivers_nothing e st D base v x t method level :
    dumps_model D base v = Raise x -> received e st t (save_model D base v method level) = None.
  Proof. intros H. unfold save_model. rewrite H. reflexivity. Qed.
End Sinks.
