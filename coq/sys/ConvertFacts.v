(* Theorems about `skops convert` as modelled in Convert.v (C17). *)
From Skv Require Import PyStr PyStrFacts Json Fs FsFacts Convert.
From Coq Require Import Lia.
Open Scope N_scope.

(* ------------------------------------------------------------------- stem *)
Definition no_dot (t : pstr) : Prop := forall c, In c t -> c <> dot.

Lemma rfind_no_dot t i best : no_dot t -> rfind_dot_from i t best = best.
Proof.
  revert i best; induction t as [|c t IH]; intros i best H; cbn; [reflexivity|].
  destruct (N.eqb_spec c dot) as [E|_]; [exfalso; apply (H c); [left; reflexivity | exact E]|].
  apply IH. intros x Hx. apply H. right. exact Hx.
Qed.
Lemma rfind_last_dot a b i best :
  no_dot b -> rfind_dot_from i (a ++ dot :: b) best = Some (i + length a)%nat.
Proof.
  revert i best; induction a as [|c a IH]; intros i best H; cbn [app rfind_dot_from length].
  - rewrite N.eqb_refl. rewrite rfind_no_dot by exact H. f_equal. lia.
  - rewrite IH by exact H. f_equal. lia.
Qed.

(* "name.ext" -> "name"; only the last suffix is removed; a leading dot or a
   trailing dot is not a suffix separator; no dot: unchanged *)
Theorem stem_ext a b : a <> [] -> b <> [] -> no_dot b -> stem (a ++ dot :: b) = a.
Proof.
  intros Ha Hb H. unfold stem, rfind_dot. rewrite rfind_last_dot by exact H. cbn [plus].
  assert (L1 : Nat.ltb 0 (length a) = true) by (apply Nat.ltb_lt; destruct a; [congruence | cbn; lia]).
  assert (L2 : Nat.ltb (length a) (length (a ++ dot :: b) - 1) = true).
  { apply Nat.ltb_lt. rewrite app_length. cbn [length]. destruct b; [congruence | cbn; lia]. }
  rewrite L1, L2. cbn [andb]. rewrite firstn_app, firstn_all, Nat.sub_diag. cbn. apply app_nil_r.
Qed.
Theorem stem_no_dot t : no_dot t -> stem t = t.
Proof. intros H. unfold stem, rfind_dot. rewrite rfind_no_dot by exact H. reflexivity. Qed.
Theorem stem_leading_dot b : no_dot b -> stem (dot :: b) = dot :: b.
Proof.
  intros H. unfold stem, rfind_dot. pose proof (rfind_last_dot [] b O None H) as R.
  cbn [app] in R. rewrite R. reflexivity.
Qed.
Theorem stem_trailing_dot a : stem (a ++ [dot]) = a ++ [dot].
Proof.
  unfold stem, rfind_dot. rewrite (rfind_last_dot a [] O None) by (intros c []).
  cbn [plus]. rewrite app_length. cbn [length].
  replace (length a + 1 - 1)%nat with (length a) by lia. rewrite Nat.ltb_irrefl, andb_false_r. reflexivity.
Qed.

(* ----------------------------------------------------------- default path *)
Theorem convert_default_path c :
  given_output c = None ->
  out_path c = k_cwd c ++ [stem (pname (parse_path (k_input c))) ++ dot_skops]
  /\ out_text c = slash :: join [slash] (k_cwd c ++ [stem (pname (parse_path (k_input c))) ++ dot_skops]).
Proof. intros G. unfold out_path, out_text. rewrite G. split; reflexivity. Qed.

Example default_path_examples :
  map (fun i => show_path (out_path (mkccfg [s "S"; s "cwd"] i None 0 (Ok []) [] true)))
      [s "model.pkl"; s "a/b/model.tar.gz"; s "/abs/.hidden"; s "noext"; s "dir/x."; s "./m.pickle"]
  = [s "/S/cwd/model.skops"; s "/S/cwd/model.tar.skops"; s "/S/cwd/.hidden.skops";
     s "/S/cwd/noext.skops"; s "/S/cwd/x..skops"; s "/S/cwd/m.skops"].
Proof. vm_compute. reflexivity. Qed.

(* ------------------------------------------------------------------ order *)
Theorem convert_order c :
  convert_ops c =
    if same_file c then [] else
    ReadAll (in_path c) ::
    match k_saved c with
    | Raise _ => []
    | Ok b => if k_outdir_ok c then [OpenTrunc (out_path c); Append (out_path c) b; Close (out_path c)]
              else [OpenTrunc (out_path c)]
    end.
Proof.
  unfold convert_ops, convert_events. destruct (same_file c); [reflexivity|].
  destruct (k_saved c) as [b|x]; [|reflexivity].
  destruct (k_outdir_ok c); destruct (k_untrusted c); reflexivity.
Qed.

(* log filtering never removes a file operation *)
Lemma ops_of_filter v evs : ops_of (filter (shown v) evs) = ops_of evs.
Proof.
  induction evs as [|[l t|op] r IH]; cbn; [reflexivity | | rewrite IH; reflexivity].
  destruct (emitted v l); cbn; exact IH.
Qed.
Theorem convert_run_ops c : ops_of (fst (convert_run c)) = convert_ops c.
Proof. unfold convert_run. cbn [fst]. apply ops_of_filter. Qed.

(* dumps raised: the exception escapes, and at no moment is anything created,
   changed or removed - in particular the output *)
(* the output is the input itself: refused before anything is read, logged or written *)
Theorem convert_same_file_refused c :
  same_file c = true -> convert_run c = ([], CExc EValue) /\ convert_ops c = [].
Proof.
  intros H. unfold convert_ops, convert_run, convert_events. rewrite H. split; reflexivity.
Qed.

Theorem convert_failure_inert e c x :
  k_saved c = Raise x ->
  (same_file c = false -> snd (convert_run c) = CExc x)
  /\ forall st pre, crash_of (convert_ops c) pre -> apply_ops e st pre = st.
Proof.
  intros H. split.
  - intros NS. unfold convert_run, convert_events. rewrite NS, H. reflexivity.
  - intros st pre C. rewrite convert_order, H in C.
    destruct (same_file c).
    { apply ops_of_crash_nil in C. subst. reflexivity. }
    apply apply_ops_nonmutating.
    inversion C as [ops E1 E2 | op' ops pre0 C' E1 E2 | q ch ch' ops Hc E1 E2]; subst; [reflexivity|].
    apply ops_of_crash_nil in C'. subst. reflexivity.
Qed.

(* the input is never written when the output is another file *)
Theorem convert_input_untouched e c :
  forall st pre, crash_of (convert_ops c) pre ->
    fget (in_path c) (files (apply_ops e st pre)) = fget (in_path c) (files st).
Proof.
  intros st pre C. apply (crash_untouched e (convert_ops c)); [|exact C].
  rewrite convert_order. unfold same_file. destruct (path_eqb (out_path c) (in_path c)) eqn:SF; [reflexivity|].
  assert (N : path_eqb (in_path c) (out_path c) = false).
  { destruct (path_eqb (in_path c) (out_path c)) eqn:E; [|reflexivity]. apply path_eqb_eq in E. rewrite E, path_eqb_refl in SF. discriminate. }
  destruct (k_saved c) as [b|x]; [|reflexivity].
  destruct (k_outdir_ok c); unfold untouched_by; cbn [forallb touches]; rewrite N; reflexivity.
Qed.

Definition cfits (c : ccfg) (st : fs) : bool :=
  is_file st (in_path c)
  && Bool.eqb (k_outdir_ok c) (is_dir st (parent (out_path c)))
  && negb (is_dir st (out_path c)).

(* success: the output holds exactly the bytes dumps returned, nothing else changed *)
Theorem convert_completes e c st b :
  cfits c st = true -> same_file c = false -> k_saved c = Ok b -> k_outdir_ok c = true ->
  let fin := apply_ops e st (convert_ops c) in
  snd (convert_run c) = CDone
  /\ errs_of e st (convert_ops c) = [None; None; None; None]
  /\ (forall p, fget p (files fin) = if path_eqb p (out_path c) then Some b else fget p (files st))
  /\ dirs fin = dirs st.
Proof.
  intros F NS S OK. cbn zeta.
  unfold cfits in F. apply andb_true_iff in F as [F F3]. apply andb_true_iff in F as [F1 F2].
  apply negb_true_iff in F3. apply Bool.eqb_prop in F2. rewrite OK in F2. symmetry in F2.
  rewrite convert_order, NS, S, OK.
  destruct (write_file_run e st (out_path c) b F3 F2) as [R1 R2].
  set (W := [OpenTrunc (out_path c); Append (out_path c) b; Close (out_path c)]) in *.
  change (apply_ops e st (ReadAll (in_path c) :: W)) with (apply_ops e (step e st (ReadAll (in_path c))) W).
  change (errs_of e st (ReadAll (in_path c) :: W))
    with (op_err e st (ReadAll (in_path c)) :: errs_of e (step e st (ReadAll (in_path c))) W).
  rewrite step_ReadAll, R1, R2.
  repeat split.
  - unfold convert_run, convert_events. rewrite NS, S, OK. reflexivity.
  - unfold op_err. cbn [apply_op]. rewrite F1. reflexivity.
  - intros p. cbn [files]. apply write_file_get.
Qed.

(* --------------------------------------------------------------- warning *)
Definition warnings (evs : list cev) : list pstr :=
  flat_map (fun ev => match ev with CLog LWarning t => [t] | _ => [] end) evs.

(* a WARNING record is emitted, at every verbosity, exactly when dumps succeeded
   and the audit reports unknown types; it is the one record built from exactly
   that list, and there is never a second one *)
Theorem convert_warning_iff c :
  warnings (fst (convert_run c)) =
    if same_file c then [] else
    match k_saved c, k_untrusted c with
    | Ok _, _ :: _ => [warn_text c]
    | _, _ => []
    end.
Proof.
  unfold convert_run, convert_events. destruct (same_file c); [reflexivity|].
  destruct (k_verbosity c) as [|[|v]]; destruct (k_saved c) as [b|x];
    destruct (k_outdir_ok c); destruct (k_untrusted c) as [|n ns]; reflexivity.
Qed.

(* the names can be read back from the record: splitting the listed part on
   ", " gives the audit's list (for names that contain no ", ") *)
Theorem warn_text_shape c :
  warn_text c = s "While converting " ++ k_input c ++ s ", the following unknown types were found: "
                ++ join comma_sp (k_untrusted c) ++ s ". When loading " ++ out_text c
                ++ s " with skops.load, these types must be specified as 'trusted'".
Proof. reflexivity. Qed.

(* --------------------------------------------------------------- oracle *)
Section Oracle.
  Variable obj : Type.
  Variable dumps : obj -> res bytes.                     (* skops.io.dumps *)
  Variable loads : bytes -> list pstr -> res obj.        (* skops.io.loads(data, trusted=...) *)
  Variable untrusted : bytes -> list pstr.               (* get_untrusted_types(data=...) *)
  Variable equiv : obj -> obj -> Prop.
  Hypothesis roundtrip : forall o b, dumps o = Ok b -> exists o', loads b (untrusted b) = Ok o' /\ equiv o' o.

  (* the archive written is dumps(obj); loading it while trusting exactly what
     the audit reports gives an equivalent object (second half: the premise) *)
  Theorem convert_equiv e c st o b :
    cfits c st = true -> same_file c = false -> k_saved c = dumps o -> dumps o = Ok b -> k_outdir_ok c = true ->
    fget (out_path c) (files (apply_ops e st (convert_ops c))) = Some b
    /\ exists o', loads b (untrusted b) = Ok o' /\ equiv o' o.
  Proof.
    intros F NS S D OK. rewrite D in S.
    destruct (convert_completes e c st b F NS S OK) as (_ & _ & G & _). cbn zeta in G.
    split; [rewrite G, path_eqb_refl; reflexivity | apply roundtrip; exact D].
  Qed.
End Oracle.

(* ----------------------------------------------------------- the former D29 witness *)
(* the default output name is the input itself (a pickle file named x.skops, in the cwd): before the repair the
   input was replaced by the archive; now the call is refused and nothing is touched *)
Definition clobber_cfg : ccfg := mkccfg [s "S"; s "cwd"] (s "m.skops") None 0 (Ok [9; 9]) [] true.
Definition clobber_fs : fs := mkfs [([s "S"; s "cwd"; s "m.skops"], [1])] [[]; [s "S"]; [s "S"; s "cwd"]].
Theorem convert_input_clobber_repaired :
  cfits clobber_cfg clobber_fs = true
  /\ out_path clobber_cfg = in_path clobber_cfg
  /\ convert_run clobber_cfg = ([], CExc EValue)
  /\ apply_ops (mkenv None) clobber_fs (convert_ops clobber_cfg) = clobber_fs.
Proof. vm_compute. repeat split; reflexivity. Qed.

(* the hypotheses of the theorems above are satisfiable: explicit output, default
   output, an object that cannot be persisted *)
Definition ex_cfs : fs :=
  mkfs [([s "S"; s "cwd"; s "model.pkl"], [1]); ([s "S"; s "cwd"; s "out.skops"], [2])]
       [[]; [s "S"]; [s "S"; s "cwd"]; [s "S"; s "cwd"; s "sub"]].
Definition ex_ccfg (out : option pstr) (saved : res bytes) : ccfg :=
  mkccfg [s "S"; s "cwd"] (s "model.pkl") out 1 saved [s "m.A"; s "m.B"] true.
Example cfits_examples :
  forallb (fun c => cfits c ex_cfs && negb (path_eqb (out_path c) (in_path c)))
    [ex_ccfg (Some (s "out.skops")) (Ok [9]); ex_ccfg None (Ok [9]); ex_ccfg (Some (s "sub/o.skops")) (Raise EUnsupported)] = true
  /\ warnings (fst (convert_run (ex_ccfg None (Ok [9])))) <> [].
Proof. split; [vm_compute; reflexivity | vm_compute; discriminate]. Qed.
