(* `skops convert` (skops/cli/_convert.py) as a sequence of log records and
   file operations.  Model only.  The serialiser and the audit are oracles:
   [k_saved] = dumps(pickle.load(input)), [k_untrusted] = get_untrusted_types(data=...). *)
From Skv Require Export Fs.
Open Scope N_scope.

Inductive level := LDebug | LInfo | LWarning.
Inductive cev := CLog (l : level) (text : pstr) | COp (op : fsop).

Record ccfg := mkccfg {
  k_cwd : path;              (* pathlib.Path.cwd() *)
  k_input : pstr;            (* args.input, the raw string *)
  k_output : option pstr;    (* args.output_file; "" counts as absent (`if not output_file`) *)
  k_verbosity : nat;         (* number of -v flags *)
  k_saved : res bytes;       (* oracle: dumps(obj) *)
  k_untrusted : list pstr;   (* oracle: get_untrusted_types(data=skops_dump), sorted *)
  k_outdir_ok : bool         (* the output's directory exists *)
}.

Inductive coutcome := CDone | CExc (e : err) | CExcOs (x : ferr).

Definition given_output (c : ccfg) : option pstr :=
  match k_output c with Some (x :: t) => Some (x :: t) | _ => None end.

(* pathlib.Path(input_file).stem *)
Definition model_name (c : ccfg) : pstr := stem (pname (parse_path (k_input c))).
Definition dot_skops : pstr := s ".skops".
Definition default_name (c : ccfg) : pstr := model_name c ++ dot_skops.

(* main l.96-115: output_file or Path.cwd() / f"{stem}.skops" *)
Definition out_path (c : ccfg) : path :=
  match given_output c with
  | Some t => resolve (k_cwd c) (pparent (parse_path t)) ++ [pname (parse_path t)]
  | None => k_cwd c ++ [default_name c]
  end.
(* f"{output_file}" *)
Definition out_text (c : ccfg) : pstr :=
  match given_output c with
  | Some t => t
  | None => show_ppath {| pabs := true; pcomps := k_cwd c ++ [default_name c] |}
  end.
Definition in_path (c : ccfg) : path := resolve (k_cwd c) (parse_path (k_input c)).

Definition comma_sp : pstr := s ", ".
Definition warn_text (c : ccfg) : pstr :=
  s "While converting " ++ k_input c ++ s ", the following unknown types were found: "
  ++ join comma_sp (k_untrusted c) ++ s ". When loading " ++ out_text c
  ++ s " with skops.load, these types must be specified as 'trusted'".
Definition info_text (c : ccfg) : pstr := s "No unknown types found in " ++ model_name c ++ s ".".

(* os.path.exists(output) and os.path.samefile(input, output): the model's file system has no links, and the
   input exists in every modelled configuration, so this is path equality after resolution *)
Definition same_file (c : ccfg) : bool := path_eqb (out_path c) (in_path c).

(* everything _convert_file does, in program order, before log-level filtering *)
Definition convert_events (c : ccfg) : list cev * coutcome :=
  if same_file c then ([], CExc EValue) else        (* D29 repaired: refuses to overwrite its own input *)
  let head := [CLog LDebug (s "Converting " ++ model_name c); COp (ReadAll (in_path c))] in
  match k_saved c with
  | Raise e => (head, CExc e)                               (* dumps raised: nothing else happens *)
  | Ok b =>
      let verdict := match k_untrusted c with
                     | [] => CLog LInfo (info_text c)
                     | _ => CLog LWarning (warn_text c)
                     end in
      if k_outdir_ok c
      then (head ++ [verdict; COp (OpenTrunc (out_path c));
                     CLog LDebug (s "Writing to " ++ out_text c);
                     COp (Append (out_path c) b); COp (Close (out_path c))], CDone)
      else (head ++ [verdict; COp (OpenTrunc (out_path c))], CExcOs ENOENT)
  end.

(* get_log_level: 0 -> WARNING, 1 -> INFO, >=2 -> DEBUG *)
Definition emitted (v : nat) (l : level) : bool :=
  match l with LWarning => true | LInfo => Nat.leb 1 v | LDebug => Nat.leb 2 v end.
Definition shown (v : nat) (ev : cev) : bool :=
  match ev with CLog l _ => emitted v l | COp _ => true end.

Definition convert_run (c : ccfg) : list cev * coutcome :=
  (filter (shown (k_verbosity c)) (fst (convert_events c)), snd (convert_events c)).

Fixpoint ops_of (evs : list cev) : list fsop :=
  match evs with
  | [] => []
  | COp op :: r => op :: ops_of r
  | CLog _ _ :: r => ops_of r
  end.
Definition convert_ops (c : ccfg) : list fsop := ops_of (fst (convert_events c)).

(* configuration of a concrete call: k_outdir_ok is read off the initial state *)
Definition ccfg_for (st : fs) (cwd : path) (input : pstr) (output : option pstr) (v : nat)
                    (saved : res bytes) (untrusted : list pstr) : ccfg :=
  let c0 := mkccfg cwd input output v saved untrusted true in
  mkccfg cwd input output v saved untrusted (is_dir st (parent (out_path c0))).

(* ------------------------------------------------------- canonical output *)
Definition show_level (l : level) : pstr :=
  match l with LDebug => s "DEBUG" | LInfo => s "INFO" | LWarning => s "WARNING" end.

Definition show_err (e : err) : pstr :=
  match e with
  | EUntrusted _ => s "EUntrusted" | ENoLoader _ => s "ENoLoader" | ETrustedTrue => s "ETrustedTrue"
  | EKey => s "EKey" | EType => s "EType" | EValue => s "EValue" | EAttr => s "EAttr"
  | EImport => s "EImport" | ERecursion => s "ERecursion" | EUnsupported => s "EUnsupported"
  | EOther => s "EOther" | EFuel => s "EFuel" | EDomain => s "EDomain"
  end.
Definition show_coutcome (o : coutcome) : pstr :=
  match o with
  | CDone => s "done"
  | CExc e => s "exc:" ++ show_err e
  | CExcOs ENOENT => s "exc:FileNotFoundError"
  | CExcOs EISDIR => s "exc:IsADirectoryError"
  | CExcOs _ => s "exc:OSError"
  end.

(* log records and visible file events in program order, each followed by the
   state an observer finds at the next record / event *)
Fixpoint show_events (e : env) (st : fs) (evs : list cev) (started : bool) : pstr :=
  let lead := if started then sep_state ++ show_fs st ++ sep_event else [] in
  match evs with
  | [] => if started then sep_state ++ show_fs st else []
  | CLog l t :: r => lead ++ s "log " ++ show_level l ++ s " " ++ t ++ show_events e st r true
  | COp op :: r =>
      if visible op then lead ++ show_op op ++ show_events e (step e st op) r true
      else show_events e (step e st op) r started
  end.

Definition show_convert (e : env) (st : fs) (c : ccfg) : pstr :=
  show_coutcome (snd (convert_run c)) ++ s " ## " ++ show_events e st (fst (convert_run c)) false
  ++ s " ## " ++ show_fs (apply_ops e st (convert_ops c)).
