(* Theorems about `skops update` as modelled in Update.v (C16). *)
From Skv Require Import PyStr PyStrFacts Json Fs FsFacts Update.
From Coq Require Import Lia.
Open Scope N_scope.

(* The initial states the theorems speak about.  Every conjunct is a fact about
   the environment of one call, none is a restriction on the configuration:
   - the input archive exists;
   - the destination has a proper last component (not "", "..") and the name
     mkdtemp picks differs from it (mkdtemp only returns names that do not exist;
     the destination may not exist yet, so this is stated);
   - c_dstdir_ok says whether the destination's directory exists;
   - mkdtemp's directory is fresh: nothing lives at or below it;
   - the destination is not itself a directory;
   - the fresh directory is on the device of the directory it is created in
     (a mount point cannot sit at a name that does not exist yet). *)
Definition fits (e : env) (w : world) (c : cfg) (st : fs) : bool :=
  is_file st (inp_path w)
  && match dest w c with
     | None => true
     | Some out =>
         negb (pstr_eqb (pname out) []) && negb (pstr_eqb (pname out) dotdot)
         && negb (pstr_eqb (pname out) (w_tmpname w))
         && Bool.eqb (c_dstdir_ok c) (is_dir st (dstdir_of w out))
         && fresh_under (tmpdir_of w out) st
         && negb (is_dir st (dst_of w out))
         && Bool.eqb (dev e (tmpfile_of w out)) (dev e (dst_of w out))
     end.

Definition writes (ops : list fsop) : bool := existsb mutating ops.

(* ---------------------------------------------------------------- decision *)
Lemma reads_nonmutating w : forallb (fun op => negb (mutating op)) (reads w) = true.
Proof. reflexivity. Qed.

Theorem update_decision w c :
  (writes (fst (update_ops w c)) = true <-> should_write w c = true)
  /\ (should_write w c = false ->
        forallb (fun op => negb (mutating op)) (fst (update_ops w c)) = true
        /\ snd (update_ops w c) =
             (if c_inplace c && is_some (c_output c) then ExcValue
              else match c_proto c with Same => UpToDate | Newer => TooNew | Older => NeedDest end)).
Proof.
  unfold update_ops, should_write, dest, writes.
  destruct (c_inplace c) eqn:I; destruct (c_output c) as [o|] eqn:O; cbn [is_some andb negb];
    destruct (c_proto c) eqn:P; cbn [fst snd andb negb];
    try (split; [split; intro H; (discriminate H || reflexivity || exact H) | intros H; try discriminate H; split; reflexivity]).
  all: destruct (c_dstdir_ok c); cbn [fst snd];
    (split; [split; intros _; reflexivity | intros H; discriminate H]).
Qed.

Theorem should_write_spec w c :
  should_write w c = true <->
  c_proto c = Older /\ dest w c <> None /\ ~ (c_inplace c = true /\ c_output c <> None).
Proof.
  unfold should_write. rewrite !andb_true_iff, negb_true_iff. split.
  - intros [[P D] B]. repeat split.
    + destruct (c_proto c); (reflexivity || discriminate).
    + destruct (dest w c); discriminate.
    + intros [I O]. rewrite I in B. destruct (c_output c); [discriminate B | apply O; reflexivity].
  - intros (P & D & B). repeat split.
    + rewrite P. reflexivity.
    + destruct (dest w c); [reflexivity | exfalso; apply D; reflexivity].
    + destruct (c_inplace c); [|reflexivity].
      destruct (c_output c); [exfalso; apply B; split; [reflexivity | discriminate] | reflexivity].
Qed.

(* in every non-writing case nothing at all is changed, at any moment *)
Theorem update_nowrite_inert e w c :
  should_write w c = false ->
  forall st pre, crash_of (fst (update_ops w c)) pre -> apply_ops e st pre = st.
Proof.
  intros H st pre C. destruct (update_decision w c) as [_ D]. destruct (D H) as [NM _].
  apply apply_ops_nonmutating.
  clear - NM C. induction C as [ops | op ops pre C IH | q ch ch' ops Hc]; cbn in *.
  - reflexivity.
  - apply andb_true_iff in NM as [N1 N2]. rewrite N1. cbn. apply IH. exact N2.
  - discriminate NM.
Qed.

(* ------------------------------------------------- symbolic run of a write *)
Section Write.
  Variables (e : env) (w : world) (out : ppath) (st : fs).
  Let dd := dstdir_of w out.
  Let T := tmpdir_of w out.
  Let tf := tmpfile_of w out.
  Let d := dst_of w out.
  Let new := w_new w.

  Hypothesis Hinp : is_file st (inp_path w) = true.
  Hypothesis Hdd : is_dir st dd = true.
  Hypothesis Hfresh : fresh_under T st = true.
  Hypothesis Hdnotdir : is_dir st d = false.
  Hypothesis Hdev : Bool.eqb (dev e tf) (dev e d) = true.
  Hypothesis Hname : pname out <> w_tmpname w.

  Lemma T_eq : T = dd ++ [w_tmpname w]. Proof. reflexivity. Qed.
  Lemma tf_eq : tf = T ++ [pname out ++ dot_tmp]. Proof. reflexivity. Qed.
  Lemma d_eq : d = dd ++ [pname out]. Proof. reflexivity. Qed.

  Lemma T_neq_d : T <> d.
  Proof. rewrite T_eq, d_eq. intro E. apply app_inj_tail in E as [_ E]. congruence. Qed.
  Lemma tf_neq_T : tf <> T.
  Proof. rewrite tf_eq. apply snoc_neq_self. Qed.
  Lemma tf_neq_d : tf <> d.
  Proof. rewrite tf_eq, T_eq, d_eq, <- app_assoc. apply snoc2_neq_snoc. Qed.
  Lemma T_neq_dd : T <> dd.
  Proof. rewrite T_eq. apply snoc_neq_self. Qed.
  Lemma pre_T_tf : is_prefix T tf = true.
  Proof. rewrite tf_eq. apply is_prefix_app. Qed.

  Definition files_moved : list (path * bytes) :=
    fset d new (fdel tf (fset tf ([] ++ new) (fset tf [] (files st)))).

  Let to_rename : list fsop :=
    reads w ++ [Mkdir T; OpenTrunc tf; Append tf new; Close tf; Rename tf d].

  Lemma run_to_rename :
    apply_ops e st to_rename = mkfs files_moved (T :: dirs st)
    /\ errs_of e st to_rename = map (fun _ => None) to_rename.
  Proof.
    unfold to_rename, reads.
    assert (R : forall s p, step e s (ReadAll p) = s) by (intros; apply step_ReadAll).
    assert (Rerr : op_err e st (ReadAll (inp_path w)) = None)
      by (unfold op_err; cbn [apply_op]; rewrite Hinp; reflexivity).
    cbn [app apply_ops errs_of map]. rewrite !R.
    (* Mkdir T *)
    assert (M : apply_op e st (Mkdir T) = inl (mkfs (files st) (T :: dirs st))).
    { cbn [apply_op]. unfold is_dir, is_file.
      rewrite (fresh_dmem T st T Hfresh (is_prefix_refl T)).
      rewrite (fresh_fget T st T Hfresh (is_prefix_refl T)). cbn [orb].
      fold T. rewrite T_eq, parent_snoc. fold (is_dir st dd). rewrite Hdd. reflexivity. }
    set (st1 := mkfs (files st) (T :: dirs st)).
    assert (S1 : step e st (Mkdir T) = st1) by (unfold step; rewrite M; reflexivity).
    assert (E1 : op_err e st (Mkdir T) = None) by (unfold op_err; rewrite M; reflexivity).
    (* OpenTrunc tf *)
    assert (O : apply_op e st1 (OpenTrunc tf) = inl (mkfs (fset tf [] (files st)) (T :: dirs st))).
    { cbn [apply_op]. unfold is_dir, st1. cbn [dirs files dmem existsb].
      assert (X : path_eqb tf T = false) by (apply path_eqb_neq; exact tf_neq_T). rewrite X.
      fold (dmem tf (dirs st)). rewrite (fresh_dmem T st tf Hfresh pre_T_tf). cbn [orb].
      rewrite tf_eq at 1. rewrite parent_snoc. rewrite path_eqb_refl. reflexivity. }
    set (st2 := mkfs (fset tf [] (files st)) (T :: dirs st)).
    assert (S2 : step e st1 (OpenTrunc tf) = st2) by (unfold step; rewrite O; reflexivity).
    assert (E2 : op_err e st1 (OpenTrunc tf) = None) by (unfold op_err; rewrite O; reflexivity).
    (* Append tf new *)
    set (st3 := mkfs (fset tf ([] ++ new) (fset tf [] (files st))) (T :: dirs st)).
    assert (Ap : apply_op e st2 (Append tf new) = inl st3).
    { cbn [apply_op]. unfold st2. cbn [files dirs]. rewrite fget_fset_eq. reflexivity. }
    assert (S3 : step e st2 (Append tf new) = st3) by (unfold step; rewrite Ap; reflexivity).
    assert (E3 : op_err e st2 (Append tf new) = None) by (unfold op_err; rewrite Ap; reflexivity).
    (* Close tf *)
    assert (Cl : apply_op e st3 (Close tf) = inl st3).
    { cbn [apply_op]. unfold is_file, st3. cbn [files]. rewrite fget_fset_eq. reflexivity. }
    assert (S4 : step e st3 (Close tf) = st3) by (unfold step; rewrite Cl; reflexivity).
    assert (E4 : op_err e st3 (Close tf) = None) by (unfold op_err; rewrite Cl; reflexivity).
    (* Rename tf d *)
    assert (Rn : apply_op e st3 (Rename tf d) = inl (mkfs files_moved (T :: dirs st))).
    { assert (Pd : parent d = dd) by (rewrite d_eq; apply parent_snoc).
      cbn [apply_op]. unfold st3 at 1. cbn [files]. rewrite fget_fset_eq.
      unfold is_dir, st3. cbn [dirs dmem existsb files]. rewrite Pd.
      fold (dmem dd (dirs st)). fold (is_dir st dd). rewrite Hdd, orb_true_r. cbn [negb].
      rewrite Hdev. cbn [negb].
      assert (X : path_eqb d T = false) by (apply path_eqb_neq; intro E; apply T_neq_d; congruence).
      rewrite X. fold (dmem d (dirs st)). fold (is_dir st d). rewrite Hdnotdir. cbn [orb].
      assert (Y : path_eqb tf d = false) by (apply path_eqb_neq; exact tf_neq_d). rewrite Y.
      reflexivity. }
    assert (S5 : step e st3 (Rename tf d) = mkfs files_moved (T :: dirs st)) by (unfold step; rewrite Rn; reflexivity).
    assert (E5 : op_err e st3 (Rename tf d) = None) by (unfold op_err; rewrite Rn; reflexivity).
    rewrite S1, S2, S3, S4, S5, E1, E2, E3, E4, E5, Rerr.
    split; reflexivity.
  Qed.

  Lemma files_moved_get p :
    fget p files_moved = if path_eqb p d then Some new else fget p (files st).
  Proof.
    unfold files_moved. destruct (path_eqb p d) eqn:E.
    - apply path_eqb_eq in E. subst p. apply fget_fset_eq.
    - apply path_eqb_neq in E. rewrite fget_fset_neq by exact E.
      destruct (path_eqb p tf) eqn:F.
      + apply path_eqb_eq in F. subst p. rewrite fget_fdel_eq.
        symmetry. apply (fresh_fget T st tf Hfresh pre_T_tf).
      + apply path_eqb_neq in F. rewrite fget_fdel_neq by exact F.
        rewrite !fget_fset_neq by exact F. reflexivity.
  Qed.

  Lemma In_fdel kv p l : In kv (fdel p l) -> In kv l /\ fst kv <> p.
  Proof.
    unfold fdel. intros H. apply filter_In in H as [H1 H2]. split; [exact H1|].
    apply negb_true_iff in H2. apply path_eqb_neq in H2. congruence.
  Qed.
  Lemma In_fset kv p v l : In kv (fset p v l) -> kv = (p, v) \/ (In kv l /\ fst kv <> p).
  Proof. unfold fset. intros [H|H]; [left; congruence | right; apply In_fdel; exact H]. Qed.

  Lemma no_child_after_move : has_child (mkfs files_moved (T :: dirs st)) T = false.
  Proof.
    unfold has_child. cbn [files dirs]. apply orb_false_iff. split.
    - destruct (existsb _ files_moved) eqn:X; [|reflexivity]. exfalso.
      apply existsb_exists in X as [kv [Hin Hf]].
      apply andb_true_iff in Hf as [Hnr Hpar]. apply path_eqb_eq in Hpar.
      unfold files_moved in Hin. apply In_fset in Hin as [-> | [Hin Hn1]].
      + cbn [fst] in Hpar. rewrite d_eq, parent_snoc in Hpar. apply T_neq_dd. congruence.
      + apply In_fdel in Hin as [Hin Hn2].
        apply In_fset in Hin as [-> | [Hin _]]; [cbn [fst] in Hn2; congruence|].
        apply In_fset in Hin as [-> | [Hin _]]; [cbn [fst] in Hn2; congruence|].
        pose proof (is_prefix_parent (fst kv) Hnr) as Hp. rewrite Hpar in Hp.
        pose proof (fresh_fget T st (fst kv) Hfresh Hp) as Hnone.
        clear - Hin Hnone. destruct kv as [q v]. cbn [fst] in *.
        induction (files st) as [|[r u] l IH]; [contradiction|].
        cbn in Hnone. destruct (path_eqb q r) eqn:E; [discriminate|].
        destruct Hin as [Hin|Hin]; [injection Hin as -> ->; rewrite path_eqb_refl in E; discriminate|].
        apply IH; assumption.
    - cbn [existsb]. assert (PT : parent T = dd) by (rewrite T_eq; apply parent_snoc). rewrite PT.
      assert (X : path_eqb dd T = false) by (apply path_eqb_neq; intro E; apply T_neq_dd; congruence).
      rewrite X, andb_false_r. cbn [orb].
      destruct (existsb _ (dirs st)) eqn:Y; [|reflexivity]. exfalso.
      apply existsb_exists in Y as [q [Hin Hf]].
      apply andb_true_iff in Hf as [Hnr Hpar]. apply path_eqb_eq in Hpar.
      pose proof (is_prefix_parent q Hnr) as Hp. rewrite Hpar in Hp.
      pose proof (fresh_dmem T st q Hfresh Hp) as Hnone.
      clear - Hin Hnone. unfold dmem in Hnone.
      induction (dirs st) as [|r l IH]; [contradiction|].
      cbn in Hnone. apply orb_false_iff in Hnone as [E Hn].
      destruct Hin as [->|Hin]; [rewrite path_eqb_refl in E; discriminate|]. apply IH; assumption.
  Qed.

  Definition final_state : fs := mkfs files_moved (ddel T (T :: dirs st)).

  Lemma run_write :
    apply_ops e st (reads w ++ write_ops w out) = final_state
    /\ errs_of e st (reads w ++ write_ops w out) = map (fun _ => None) (reads w ++ write_ops w out).
  Proof.
    destruct run_to_rename as [R1 R2]. unfold to_rename in R1, R2.
    replace (reads w ++ write_ops w out)
      with ((reads w ++ [Mkdir T; OpenTrunc tf; Append tf new; Close tf; Rename tf d]) ++ [Rmdir T])
      by (rewrite <- app_assoc; reflexivity).
    set (A := reads w ++ [Mkdir T; OpenTrunc tf; Append tf new; Close tf; Rename tf d]) in *.
    set (st5 := mkfs files_moved (T :: dirs st)) in *.
    assert (Rm : apply_op e st5 (Rmdir T) = inl final_state).
    { cbn [apply_op]. unfold is_file, is_dir. unfold st5 at 1 2. cbn [files dirs].
      rewrite files_moved_get.
      assert (X : path_eqb T d = false) by (apply path_eqb_neq; exact T_neq_d). rewrite X.
      rewrite (fresh_fget T st T Hfresh (is_prefix_refl T)).
      cbn [dmem existsb]. rewrite path_eqb_refl. cbn [orb negb].
      unfold st5. rewrite no_child_after_move. reflexivity. }
    split.
    - rewrite apply_ops_app, R1. cbn [apply_ops]. unfold step. rewrite Rm. reflexivity.
    - clear Rm. rewrite map_app.
      assert (G : forall a b s, errs_of e s (a ++ b) = errs_of e s a ++ errs_of e (apply_ops e s a) b).
      { induction a as [|x a IH]; intros b s; cbn; [reflexivity | rewrite IH; reflexivity]. }
      rewrite G, R1, R2. f_equal. cbn [errs_of map]. unfold op_err.
      fold st5.
      assert (Rm : apply_op e st5 (Rmdir T) = inl final_state).
      { cbn [apply_op]. unfold is_file, is_dir. unfold st5 at 1 2. cbn [files dirs].
        rewrite files_moved_get.
        assert (X : path_eqb T d = false) by (apply path_eqb_neq; exact T_neq_d). rewrite X.
        rewrite (fresh_fget T st T Hfresh (is_prefix_refl T)).
        cbn [dmem existsb]. rewrite path_eqb_refl. cbn [orb negb].
        unfold st5. rewrite no_child_after_move. reflexivity. }
      rewrite Rm. reflexivity.
  Qed.

  Lemma final_dirs q : dmem q (dirs final_state) = dmem q (dirs st).
  Proof.
    unfold final_state. cbn [dirs]. unfold ddel at 1. cbn [filter]. rewrite path_eqb_refl. cbn [negb].
    fold (ddel T (dirs st)).
    destruct (path_eqb q T) eqn:E.
    - apply path_eqb_eq in E. subst q. rewrite dmem_ddel_eq.
      symmetry. apply (fresh_dmem T st T Hfresh (is_prefix_refl T)).
    - apply dmem_ddel_neq. apply path_eqb_neq. exact E.
  Qed.
End Write.

(* ------------------------------------------------------------ main theorems *)
Lemma fits_dest e w c st out :
  fits e w c st = true -> dest w c = Some out ->
  is_file st (inp_path w) = true
  /\ pname out <> w_tmpname w
  /\ c_dstdir_ok c = is_dir st (dstdir_of w out)
  /\ fresh_under (tmpdir_of w out) st = true
  /\ is_dir st (dst_of w out) = false
  /\ Bool.eqb (dev e (tmpfile_of w out)) (dev e (dst_of w out)) = true.
Proof.
  unfold fits. intros F D. rewrite D in F.
  apply andb_true_iff in F as [F0 F].
  apply andb_true_iff in F as [F F7]. apply andb_true_iff in F as [F F6].
  apply andb_true_iff in F as [F F5]. apply andb_true_iff in F as [F F4].
  apply andb_true_iff in F as [F F3]. apply andb_true_iff in F as [F1 F2].
  repeat split.
  - exact F0.
  - apply negb_true_iff in F3. apply pstr_eqb_neq in F3. exact F3.
  - apply Bool.eqb_prop in F4. exact F4.
  - exact F5.
  - apply negb_true_iff in F6. exact F6.
  - exact F7.
Qed.

Lemma should_write_ops w c :
  should_write w c = true ->
  exists out, dest w c = Some out /\
    update_ops w c = if c_dstdir_ok c then (reads w ++ write_ops w out, Wrote out)
                     else (reads w ++ [Mkdir (tmpdir_of w out)], ExcOs ENOENT).
Proof.
  unfold should_write, update_ops. intros H.
  apply andb_true_iff in H as [H H3]. apply andb_true_iff in H as [H1 H2].
  apply negb_true_iff in H3. rewrite H3.
  destruct (c_proto c); try discriminate H1.
  destruct (dest w c) as [out|]; [|discriminate H2].
  exists out. split; reflexivity.
Qed.

(* normal completion: the destination holds the complete new archive, every
   other path is as before (no temporary file or directory remains, the input
   is intact unless it is the destination), and no operation failed *)
Theorem update_completes e w c st out :
  fits e w c st = true -> should_write w c = true -> dest w c = Some out -> c_dstdir_ok c = true ->
  let r := update_ops w c in
  let fin := apply_ops e st (fst r) in
  snd r = Wrote out
  /\ errs_of e st (fst r) = map (fun _ => None) (fst r)
  /\ (forall p, fget p (files fin) = if path_eqb p (dst_of w out) then Some (w_new w) else fget p (files st))
  /\ (forall q, dmem q (dirs fin) = dmem q (dirs st)).
Proof.
  intros F SW D OK.
  destruct (should_write_ops w c SW) as [out' [D' U]]. rewrite D in D'. injection D' as <-.
  rewrite OK in U. cbn zeta. rewrite U. cbn [fst snd].
  destruct (fits_dest e w c st out F D) as (Hinp & Hname & Hdd & Hfresh & Hnd & Hdev).
  rewrite OK in Hdd. symmetry in Hdd.
  destruct (run_write e w out st Hinp Hdd Hfresh Hnd Hdev Hname) as [R1 R2].
  rewrite R1, R2. repeat split.
  - intros p. unfold final_state. cbn [files]. apply files_moved_get. exact Hfresh.
  - intros q. apply final_dirs. exact Hfresh.
Qed.

(* destination directory missing: mkdtemp fails, nothing changes *)
Theorem update_missing_dir e w c st out :
  fits e w c st = true -> should_write w c = true -> dest w c = Some out -> c_dstdir_ok c = false ->
  let r := update_ops w c in
  snd r = ExcOs ENOENT
  /\ apply_ops e st (fst r) = st
  /\ errs_of e st (fst r) = [None; None; None; Some ENOENT].
Proof.
  intros F SW D OK.
  destruct (should_write_ops w c SW) as [out' [D' U]]. rewrite D in D'. injection D' as <-.
  rewrite OK in U. cbn zeta. rewrite U. cbn [fst snd].
  destruct (fits_dest e w c st out F D) as (Hinp & Hname & Hdd & Hfresh & Hnd & Hdev).
  rewrite OK in Hdd. symmetry in Hdd.
  assert (M : apply_op e st (Mkdir (tmpdir_of w out)) = inr ENOENT).
  { cbn [apply_op]. unfold is_dir at 1, is_file.
    rewrite (fresh_dmem _ st _ Hfresh (is_prefix_refl _)).
    rewrite (fresh_fget _ st _ Hfresh (is_prefix_refl _)). cbn [orb].
    unfold tmpdir_of. rewrite parent_snoc. rewrite Hdd. reflexivity. }
  assert (Rerr : op_err e st (ReadAll (inp_path w)) = None)
    by (unfold op_err; cbn [apply_op]; rewrite Hinp; reflexivity).
  unfold reads. cbn [app apply_ops errs_of]. rewrite !step_ReadAll.
  unfold step, op_err in *. rewrite M. cbn [apply_op] in Rerr |- *. rewrite Hinp. repeat split; reflexivity.
Qed.

(* the destination holds its complete previous content or the complete new
   archive at every moment the process can die - for both values of c_same_fs *)
Theorem update_atomic e w c st out :
  fits e w c st = true -> dest w c = Some out ->
  forall pre, crash_of (fst (update_ops w c)) pre ->
    fget (dst_of w out) (files (apply_ops e st pre)) = fget (dst_of w out) (files st)
    \/ fget (dst_of w out) (files (apply_ops e st pre)) = Some (w_new w).
Proof.
  intros F D pre C.
  destruct (should_write w c) eqn:SW.
  2:{ left. rewrite (update_nowrite_inert e w c SW st pre C). reflexivity. }
  destruct (should_write_ops w c SW) as [out' [D' U]]. rewrite D in D'. injection D' as <-.
  destruct (fits_dest e w c st out F D) as (Hinp & Hname & Hdd & Hfresh & Hnd & Hdev).
  rewrite U in C.
  assert (TFD : path_eqb (dst_of w out) (tmpfile_of w out) = false).
  { apply path_eqb_neq. intro E. apply (tf_neq_d w out). congruence. }
  destruct (c_dstdir_ok c) eqn:OK; cbn [fst] in C.
  - symmetry in Hdd.
    set (A := reads w ++ [Mkdir (tmpdir_of w out); OpenTrunc (tmpfile_of w out);
                          Append (tmpfile_of w out) (w_new w); Close (tmpfile_of w out)]).
    assert (EQ : reads w ++ write_ops w out
                 = A ++ Rename (tmpfile_of w out) (dst_of w out) :: [Rmdir (tmpdir_of w out)])
      by (unfold A; rewrite <- app_assoc; reflexivity).
    rewrite EQ in C.
    assert (UA : untouched_by A (dst_of w out) = true)
      by (unfold A, reads, untouched_by; cbn [app forallb touches]; rewrite TFD; reflexivity).
    assert (UB : untouched_by [Rmdir (tmpdir_of w out)] (dst_of w out) = true) by reflexivity.
    destruct (rename_atomic e A _ _ _ UA UB st pre C) as [L|R]; [left; exact L|].
    right. rewrite R.
    destruct (run_to_rename e w out st Hinp Hdd Hfresh Hnd Hdev Hname) as [R1 _].
    unfold A. rewrite <- app_assoc. cbn [app]. rewrite R1. cbn [files].
    rewrite (files_moved_get w out st Hfresh). rewrite path_eqb_refl. reflexivity.
  - left. apply (crash_untouched e _ _ (eq_refl : untouched_by (reads w ++ [Mkdir (tmpdir_of w out)]) (dst_of w out) = true) pre st C).
Qed.

(* not --inplace and the destination is another file: the input's bytes are
   the same at every moment *)
Theorem update_input_untouched e w c st :
  fits e w c st = true -> c_inplace c = false ->
  (forall out, c_output c = Some out -> dst_of w out <> inp_path w) ->
  forall pre, crash_of (fst (update_ops w c)) pre ->
    fget (inp_path w) (files (apply_ops e st pre)) = fget (inp_path w) (files st).
Proof.
  intros F I NE pre C.
  destruct (should_write w c) eqn:SW.
  2:{ rewrite (update_nowrite_inert e w c SW st pre C). reflexivity. }
  destruct (should_write_ops w c SW) as [out [D U]].
  destruct (fits_dest e w c st out F D) as (Hinp & Hname & Hdd & Hfresh & Hnd & Hdev).
  assert (O : c_output c = Some out) by (unfold dest in D; rewrite I in D; exact D).
  specialize (NE out O).
  assert (N1 : path_eqb (inp_path w) (dst_of w out) = false) by (apply path_eqb_neq; congruence).
  assert (N2 : path_eqb (inp_path w) (tmpfile_of w out) = false).
  { apply path_eqb_neq. intro E. unfold is_file in Hinp. rewrite E in Hinp.
    rewrite (fresh_fget _ st _ Hfresh (pre_T_tf w out)) in Hinp. discriminate. }
  apply (crash_untouched e (fst (update_ops w c))); [|exact C].
  rewrite U. destruct (c_dstdir_ok c); cbn [fst]; unfold reads, write_ops, untouched_by;
    cbn [app forallb touches]; rewrite ?N1, ?N2; reflexivity.
Qed.

(* --------------------------------------------------------------- oracle *)
Section Oracle.
  Variable obj : Type.
  Variable loads : bytes -> res obj.          (* skops.io.load on the archive bytes *)
  Variable dumps : obj -> res bytes.          (* skops.io.dumps at the current protocol *)

  (* the file written is dumps of the object loaded from the input *)
  Theorem update_result_loads e w c st out inb o :
    fits e w c st = true -> should_write w c = true -> dest w c = Some out -> c_dstdir_ok c = true ->
    fget (inp_path w) (files st) = Some inb -> loads inb = Ok o -> dumps o = Ok (w_new w) ->
    exists b, fget (dst_of w out) (files (apply_ops e st (fst (update_ops w c)))) = Some b
              /\ dumps o = Ok b.
  Proof.
    intros F SW D OK _ _ HD.
    destruct (update_completes e w c st out F SW D OK) as (_ & _ & G & _).
    exists (w_new w). split; [|exact HD]. cbn zeta in G. rewrite G, path_eqb_refl. reflexivity.
  Qed.
End Oracle.

(* ----------------------------------------------------- a concrete world *)
Definition p_S : pstr := s "S".  Definition p_X : pstr := s "X".
Definition ex_env : env := mkenv (Some [p_X]).
Definition ex_cwd : path := [p_S; s "cwd"].
Definition ex_world : world :=
  mkworld ex_cwd (parse_path (s "in.skops")) [9; 9; 9; 9] (s "T") [p_X; s "tmp"].
Definition ex_fs : fs :=
  mkfs [(ex_cwd ++ [s "in.skops"], [1]); (ex_cwd ++ [s "out.skops"], [2]); (ex_cwd ++ [s "sub"; s "out.skops"], [3])]
       [[]; [p_S]; ex_cwd; ex_cwd ++ [s "sub"]; [p_S; s "abs"]; [p_X]; [p_X; s "tmp"]].
Definition ex_cfg (out : pstr) (same_fs : bool) : cfg :=
  mkcfg Older (Some (parse_path out)) false same_fs true.

(* the hypotheses of the theorems are satisfiable, for each output kind and both file systems *)
Example fits_examples :
  forallb (fun c => fits ex_env ex_world c ex_fs && should_write ex_world c)
    [ex_cfg (s "out.skops") true; ex_cfg (s "out.skops") false;
     ex_cfg (s "sub/out.skops") true; ex_cfg (s "sub/out.skops") false;
     ex_cfg (s "/S/abs/out.skops") false; ex_cfg (s "./sub/../new.skops") false;
     mkcfg Older None true false true] = true.
Proof. vm_compute. reflexivity. Qed.

(* ------------------------------------------------------ the code before the fix *)
(* D23: bare output name, TMPDIR on another file system: some crash point leaves a
   strict prefix of the new archive in place of the old destination *)
Theorem legacy_xfs_refuted :
  let c := ex_cfg (s "out.skops") false in
  let d := legacy_dst ex_world (parse_path (s "out.skops")) in
  exists pre, crash_of (fst (legacy_update_ops ex_world c)) pre
    /\ exists partial, fget d (files (apply_ops ex_env ex_fs pre)) = Some partial
       /\ strict_prefix_b partial (w_new ex_world) = true
       /\ fget d (files ex_fs) <> Some partial
       /\ In (Some EXDEV) (errs_of ex_env ex_fs (fst (legacy_update_ops ex_world c))).
Proof.
  cbn zeta.
  set (ops := fst (legacy_update_ops ex_world (ex_cfg (s "out.skops") false))).
  exists (firstn 10 ops ++ [Append (legacy_dst ex_world (parse_path (s "out.skops"))) [9; 9]]).
  split.
  - apply crash_points_spec. vm_compute. repeat (try (left; reflexivity); right).
  - exists [9; 9]. vm_compute. repeat split; try reflexivity; try discriminate.
    repeat (try (left; reflexivity); right).
Qed.

(* with TMPDIR on the destination's file system the same code is atomic at this witness *)
Example legacy_samefs_ok :
  let c := ex_cfg (s "out.skops") true in
  let d := legacy_dst ex_world (parse_path (s "out.skops")) in
  forallb (fun pre => match fget d (files (apply_ops (mkenv None) ex_fs pre)) with
                      | Some b => pstr_eqb b [2] || pstr_eqb b (w_new ex_world) | None => false end)
          (crash_points (fst (legacy_update_ops ex_world c))) = true.
Proof. vm_compute. reflexivity. Qed.

(* D22: nested relative output: FileNotFoundError, nothing written *)
Theorem legacy_nested_refuted :
  let c := ex_cfg (s "sub/out.skops") true in
  snd (legacy_update_ops ex_world c) = ExcOs ENOENT
  /\ In (Some ENOENT) (errs_of ex_env ex_fs (fst (legacy_update_ops ex_world c)))
  /\ show_fs (apply_ops ex_env ex_fs (fst (legacy_update_ops ex_world c))) = show_fs ex_fs
  /\ snd (update_ops ex_world c) = Wrote (parse_path (s "sub/out.skops")).
Proof. vm_compute. repeat split; try reflexivity. repeat (try (left; reflexivity); right). Qed.
