(* `skops update` (skops/cli/_update.py) as a file-operation program.
   Model only.  [update_ops] follows the code as it is now (temporary directory
   inside the destination's own directory + os.replace); [legacy_update_ops]
   is the code before the fix of D22/D23 (TemporaryDirectory() under TMPDIR,
   Path(tmp_dir) / f"{output_file}.tmp", shutil.move), kept to state what the
   fix repaired and to recognise a regression. *)
From Skv Require Export Fs.
Open Scope N_scope.

Inductive proto_rel := Older | Same | Newer.

Record world := mkworld {
  w_cwd : path;          (* os.getcwd() *)
  w_input : ppath;       (* Path(args.input) *)
  w_new : bytes;         (* dump(load(input)) : the complete new archive *)
  w_tmpname : pstr;      (* the fresh name tempfile.mkdtemp picks ("tmpXXXXXXXX") *)
  w_tmproot : path       (* tempfile.gettempdir(); read by the legacy code only *)
}.

Record cfg := mkcfg {
  c_proto : proto_rel;           (* archive protocol vs skops.io._protocol.PROTOCOL *)
  c_output : option ppath;       (* Path(args.output_file) if given *)
  c_inplace : bool;
  c_same_fs : bool;              (* TMPDIR on the destination's file system? *)
  c_dstdir_ok : bool             (* does the destination's directory exist? *)
}.

Inductive outcome :=
| Wrote (dst : ppath)            (* INFO "Updated skops file written to ..." *)
| UpToDate | TooNew | NeedDest   (* the three WARNING returns *)
| ExcValue                       (* ValueError: output + inplace *)
| ExcOs (x : ferr).              (* OSError subclass escaping main_cli *)

Definition is_some {A} (o : option A) : bool := match o with Some _ => true | None => false end.

(* l.41-49 : the destination the call asked for *)
Definition dest (w : world) (c : cfg) : option ppath :=
  if c_inplace c then Some (w_input w) else c_output c.

Definition dot_tmp : pstr := s ".tmp".

Definition inp_path (w : world) : path := resolve (w_cwd w) (w_input w).
(* the kernel resolves the directory part, then looks the last component up *)
Definition dstdir_of (w : world) (out : ppath) : path := resolve (w_cwd w) (pparent out).
Definition dst_of (w : world) (out : ppath) : path := dstdir_of w out ++ [pname out].
Definition tmpdir_of (w : world) (out : ppath) : path := dstdir_of w out ++ [w_tmpname w].
Definition tmpfile_of (w : world) (out : ppath) : path := tmpdir_of w out ++ [pname out ++ dot_tmp].

(* get_untrusted_types(file=input); load(input); ZipFile(input).read("schema.json") *)
Definition reads (w : world) : list fsop :=
  [ReadAll (inp_path w); ReadAll (inp_path w); ReadAll (inp_path w)].

Definition write_ops (w : world) (out : ppath) : list fsop :=
  [Mkdir (tmpdir_of w out);                        (* TemporaryDirectory(dir=output_file.parent) *)
   OpenTrunc (tmpfile_of w out);                   (* dump(input_model, tmp_output_file)          *)
   Append (tmpfile_of w out) (w_new w);
   Close (tmpfile_of w out);
   Rename (tmpfile_of w out) (dst_of w out);       (* os.replace(tmp_output_file, output_file)    *)
   Rmdir (tmpdir_of w out)].                       (* TemporaryDirectory.__exit__                 *)

Definition update_ops (w : world) (c : cfg) : list fsop * outcome :=
  if c_inplace c && is_some (c_output c) then ([], ExcValue)
  else match c_proto c with
       | Same => (reads w, UpToDate)
       | Newer => (reads w, TooNew)
       | Older =>
           match dest w c with
           | None => (reads w, NeedDest)
           | Some out =>
               if c_dstdir_ok c then (reads w ++ write_ops w out, Wrote out)
               else (reads w ++ [Mkdir (tmpdir_of w out)], ExcOs ENOENT)
           end
       end.

(* the decision of l.41-75 as a pure predicate *)
Definition should_write (w : world) (c : cfg) : bool :=
  match c_proto c with Older => true | _ => false end
  && is_some (dest w c)
  && negb (c_inplace c && is_some (c_output c)).

(* ---------------------------------------------------------------- legacy *)
(* f"{output_file}.tmp" re-parsed by Path(tmp_dir) / ... *)
Definition legacy_tmp_rel (out : ppath) : ppath :=
  {| pabs := pabs out; pcomps := removelast (pcomps out) ++ [pname out ++ dot_tmp] |}.
Definition legacy_tmpdir (w : world) : path := w_tmproot w ++ [w_tmpname w].
Definition legacy_tmpfile (w : world) (out : ppath) : path :=
  resolve (w_cwd w) (pjoin {| pabs := true; pcomps := legacy_tmpdir w |} (legacy_tmp_rel out)).
Definition legacy_dst (w : world) (out : ppath) : path := resolve (w_cwd w) out.
Definition nested_relative (out : ppath) : bool :=
  negb (pabs out) && Nat.ltb 1 (length (pcomps out)).

Definition legacy_update_ops (w : world) (c : cfg) : list fsop * outcome :=
  if c_inplace c && is_some (c_output c) then ([], ExcValue)
  else match c_proto c with
       | Same => (reads w, UpToDate)
       | Newer => (reads w, TooNew)
       | Older =>
           match dest w c with
           | None => (reads w, NeedDest)
           | Some out =>
               let td := legacy_tmpdir w in
               let tf := legacy_tmpfile w out in
               let d := legacy_dst w out in
               if nested_relative out
               then (reads w ++ [Mkdir td; OpenTrunc tf (* ENOENT: no sub-directory in td *); Rmdir td], ExcOs ENOENT)
               else if c_same_fs c || pabs out
               then (reads w ++ [Mkdir td; OpenTrunc tf; Append tf (w_new w); Close tf; Rename tf d; Rmdir td], Wrote out)
               else (reads w ++ [Mkdir td; OpenTrunc tf; Append tf (w_new w); Close tf;
                                 Rename tf d (* EXDEV *);
                                 ReadAll tf; OpenTrunc d; Append d (w_new w); Close d;   (* shutil.copyfile *)
                                 Unlink tf; Rmdir td], Wrote out)
           end
       end.

(* configuration of a concrete call: c_dstdir_ok is read off the initial state *)
Definition cfg_for (w : world) (st : fs) (pr : proto_rel) (out : option ppath) (inplace same_fs : bool) : cfg :=
  let c0 := mkcfg pr out inplace same_fs true in
  mkcfg pr out inplace same_fs
        (match dest w c0 with Some o => is_dir st (dstdir_of w o) | None => true end).

(* ------------------------------------------------------- canonical output *)
Definition show_outcome (o : outcome) : pstr :=
  match o with
  | Wrote d => s "wrote:" ++ show_ppath d
  | UpToDate => s "uptodate"
  | TooNew => s "toonew"
  | NeedDest => s "needdest"
  | ExcValue => s "exc:ValueError"
  | ExcOs ENOENT => s "exc:FileNotFoundError"
  | ExcOs EISDIR => s "exc:IsADirectoryError"
  | ExcOs _ => s "exc:OSError"
  end.

Definition show_run (e : env) (st : fs) (r : list fsop * outcome) : pstr :=
  show_outcome (snd r) ++ s " ## " ++ show_trace e st (fst r) false
  ++ s " ## " ++ show_fs (apply_ops e st (fst r)).
