(* C19 -- malformed archives fail cleanly (schema-level part; byte-level corruption is handled by
   zipfile / numpy / scipy and is exercised by the harness only). *)
From Skv Require Import PyStr Json Node GetTree Unsafe Walk Fuel Cost TreeWf TreeIds.
From Coq Require Import Lia.

(* The model is total on EVERY JSON value (Coq functions are), and its answer is never the fuel
   artefact as long as the schema is not nested deeper than the fuel: for any malformed schema the
   model predicts a definite outcome -- a tree, or one of the ordinary exceptions of the enum. *)
Theorem C19_inspect_never_out_of_fuel :
  forall E proto fuel extra sl m j, (jdepth j < fuel)%nat -> get_tree fuel E proto extra sl m j <> Raise EFuel.
Proof. exact get_tree_nofuel. Qed.
Print Assumptions C19_inspect_never_out_of_fuel.

Theorem C19_root_never_out_of_fuel :
  forall E schema, (jdepth schema < default_fuel)%nat -> root_tree E schema <> Raise EFuel.
Proof.
  intros E schema Hd. unfold root_tree. destruct (jindex schema (K "protocol")) as [p|e] eqn:P; cbn [bind]; [|intros X; injection X as ->; revert P; generalize (jindex_nofuel schema (K "protocol")); intros N P; apply N; exact P].
  apply get_tree_nofuel. exact Hd.
Qed.
Print Assumptions C19_root_never_out_of_fuel.

(* whatever the schema, a tree that is built satisfies the structural invariants the audit relies on *)
Theorem C19_built_trees_wellformed :
  forall E schema t m, root_tree E schema = Ok (t, m) -> wf_node t = true /\ NoDup (ids t).
Proof. intros E schema t m H. split; [eapply root_tree_wf | eapply root_tree_ids_unique]; eauto. Qed.
Print Assumptions C19_built_trees_wellformed.

(* "terminate promptly" is FALSE for the audit: a 29-node tree (schema of a = []; 14 x a = [a, a], a few kB)
   costs 2^15 - 1 node visits, because a shared child is re-audited at every reference (finding D11) *)
Theorem C19_audit_cost_refuted :
  size (ladder 14) = 29%nat /\ N.of_nat (audit_visits (ladder 14)) = 32767%N.
Proof. exact ladder_cost_14. Qed.
Print Assumptions C19_audit_cost_refuted.
