(* C19 -- malformed archives fail cleanly (schema-level part; byte-level corruption is handled by
   zipfile / numpy / scipy and is exercised by the harness only). *)
From Skv Require Import PyStr Json Node GetTree Unsafe Walk Construct NodeInd Fuel Cost CostFacts TreeWf TreeIds TermFacts.
From Coq Require Import Lia.
From Gen Require Import Snapshot.

(* The model is total on EVERY JSON value (Coq functions are), and its answer is never the fuel
   artefact as long as the schema is not nested deeper than the fuel: for any malformed schema the
   model predicts a definite outcome -- a tree, or one of the ordinary exceptions of the enum. *)
Theorem C19_inspect_never_out_of_fuel :
  forall E proto fuel extra sl m j, (jdepth j < fuel)%nat -> get_tree fuel E proto extra sl m j <> Raise EFuel.
Proof. exact get_tree_nofuel. Qed.
Print Assumptions C19_inspect_never_out_of_fuel.

Theorem C19_root_never_out_of_fuel :
  forall E schema, (jdepth schema < default_fuel)%nat -> root_tree E schema <> Raise EFuel.
Proof.
  intros E schema Hd. unfold root_tree. destruct (jindex schema (K "protocol")) as [p|e] eqn:P; cbn [bind]; [|intros X; injection X as ->; revert P; generalize (jindex_nofuel schema (K "protocol")); intros N P; apply N; exact P].
  apply get_tree_nofuel. exact Hd.
Qed.
Print Assumptions C19_root_never_out_of_fuel.

(* whatever the schema, a tree that is built satisfies the structural invariants the audit relies on *)
Theorem C19_built_trees_wellformed :
  forall E schema t m, root_tree E schema = Ok (t, m) -> wf_node t = true /\ NoDup (ids t).
Proof. intros E schema t m H. split; [eapply root_tree_wf | eapply root_tree_ids_unique]; eauto. Qed.
Print Assumptions C19_built_trees_wellformed.

(* "terminate promptly" is FALSE for the audit: a 29-node tree (schema of a = []; 14 x a = [a, a], a few kB)
   costs 2^15 - 1 node visits, because a shared child is re-audited at every reference (finding D11) *)
Theorem C19_audit_cost_refuted :
  size (ladder 14) = 29%nat /\ N.of_nat (audit_visits (ladder 14)) = 32767%N.
Proof. exact ladder_cost_14. Qed.
Print Assumptions C19_audit_cost_refuted.

(* ... for EVERY depth: the n-rung ladder has 2n+1 nodes and its audit makes 2^(n+1) - 1 node visits
   (n < 50 only because audit_visits fixes the fuel at 100; ladder_visits is the fuel-generic statement) *)
Theorem C19_audit_exponential :
  forall n, (n < 50)%nat -> size (ladder n) = (2 * n + 1)%nat /\ audit_visits (ladder n) = (2 ^ (S n) - 1)%nat.
Proof. exact audit_exponential. Qed.
Print Assumptions C19_audit_exponential.

Theorem C19_ladder_visits_any_fuel :
  forall N n fuel path, (n <= N)%nat -> (2 * n < fuel)%nat -> (forall k, In (rid k) path -> (n < k)%nat) ->
  visits_g (ladder N) fuel path (ladder n) = (2 ^ (S n) - 1)%nat.
Proof. exact ladder_visits. Qed.
Print Assumptions C19_ladder_visits_any_fuel.

(* the ladder is what get_tree really builds from the corresponding schema (a = []; 10 times a = [a, a]) under
   the registry extracted from /repo: 22 nodes (the innermost list keeps an empty-list leaf), 2047 audit visits *)
Fixpoint ladder_json (n : nat) : json :=
  let st (id : Z) (content : list json) :=
    JObj [(s "__class__", JStr (s "list")); (s "__module__", JStr (s "builtins")); (s "__loader__", JStr (s "ListNode"));
          (s "__id__", JInt id); (s "content", JArr content)] in
  match n with
  | O => st 1000%Z []
  | S n' => st (1000 + Z.of_nat n)%Z [ladder_json n'; JObj [(s "__id__", JInt (1000 + Z.of_nat n')%Z)]]
  end.
Definition envS : env :=
  {| e_reg := Snapshot.registry; e_cur := Snapshot.current; e_classes := Snapshot.classes;
     e_unavailable := Snapshot.unavailable; e_members := []; e_resolve := [] |}.
Theorem C19_ladder_is_what_get_tree_builds :
  match get_tree 100 envS (JInt Snapshot.current) [] (SOne (s "root")) [] (ladder_json 10) with
  | Ok (t, _) => size t = 22%nat /\ N.of_nat (audit_visits t) = 2047%N
  | Raise _ => False
  end.
Proof. vm_compute. split; reflexivity. Qed.
Print Assumptions C19_ladder_is_what_get_tree_builds.

(* ------------------------------------------------------------------------------------------------
   The walks over the built tree (a GRAPH: a Ref is the memoised node) never return the fuel artefact
   either, for structural reasons.  No well-formedness of the tree is needed, only that the node the
   walk stands on belongs to the tree whose ids the Refs are resolved in.
   height: Refs and leaves 0, a Node one more than its highest child.
   free root path  = number of ids of root that are not on the path;
   free2 root path = sum over the ids of root of (2 - occurrences on the path).
   ------------------------------------------------------------------------------------------------ *)

(* Node.get_unsafe_set() with its _computing_unsafe_set guard: any fuel above the lexicographic bound *)
Theorem C19_audit_graph_terminates :
  forall E T root fuel path n, sub n root ->
    (free root path * S (height root) + height n + 2 <= fuel)%nat ->
    unsafe_g E T root fuel path n <> Raise EFuel.
Proof. exact unsafe_g_nofuel. Qed.
Print Assumptions C19_audit_graph_terminates.

(* get_unsafe_set() / is_safe() of any node of the tree, with the fixed fuel *)
Theorem C19_audit_of_any_node_terminates :
  forall E T root n, sub n root ->
    (length (ids root) * S (height root) + height n + 2 <= unsafe_fuel)%nat ->
    unsafe E T root n <> Raise EFuel.
Proof. exact unsafe_nofuel. Qed.
Print Assumptions C19_audit_of_any_node_terminates.

(* walk_tree has no guard; the model unrolls every cycle twice: each id may be pushed twice *)
Theorem C19_walk_graph_terminates :
  forall E T skipped root,
    (forall x, sub x root -> unsafe E T root x <> Raise EFuel) ->
    forall fuel path name level last n, sub n root ->
      (free2 root path * S (height root) + height n + 2 <= fuel)%nat ->
      snd (walk E T skipped root fuel path name level last n) <> Some EFuel.
Proof. exact walk_nofuel. Qed.
Print Assumptions C19_walk_graph_terminates.

(* construct(): a node on the path raises RecursionError, a finished one is taken from the memo *)
Theorem C19_construct_graph_terminates :
  forall root fuel path d n, sub n root ->
    (free root path * S (height root) + height n + 2 <= fuel)%nat ->
    ctrace root fuel path d n <> Raise EFuel.
Proof. exact ctrace_nofuel. Qed.
Print Assumptions C19_construct_graph_terminates.

(* the entry points, for every schema whose tree is small enough for the fixed fuels *)
Theorem C19_get_untrusted_types_nofuel_partial :
  forall E schema t m, root_tree E schema = Ok (t, m) ->
    (length (ids t) * S (height t) + height t + 2 <= unsafe_fuel)%nat ->
    get_untrusted_types E schema <> Raise EFuel.
Proof. exact get_untrusted_types_nofuel. Qed.
Print Assumptions C19_get_untrusted_types_nofuel_partial.

Theorem C19_load_audit_nofuel_partial :
  forall E schema ta t m, root_tree E schema = Ok (t, m) ->
    (length (ids t) * S (height t) + height t + 2 <= unsafe_fuel)%nat ->
    load_audit E schema ta <> Raise EFuel.
Proof. exact load_audit_nofuel. Qed.
Print Assumptions C19_load_audit_nofuel_partial.

Theorem C19_visualize_stream_nofuel_partial :
  forall E skipped schema T t m, root_tree E schema = Ok (t, m) ->
    (length (ids t) * S (height t) + height t + 2 <= unsafe_fuel)%nat ->
    (2 * length (ids t) * S (height t) + height t + 2 <= walk_fuel)%nat ->
    exists st, visualize_stream E skipped schema T = Ok st /\ snd st <> Some EFuel.
Proof. exact visualize_stream_nofuel. Qed.
Print Assumptions C19_visualize_stream_nofuel_partial.

Theorem C19_visualize_rows_nofuel_partial :
  forall E skipped schema T t m, root_tree E schema = Ok (t, m) ->
    (length (ids t) * S (height t) + height t + 2 <= unsafe_fuel)%nat ->
    (2 * length (ids t) * S (height t) + height t + 2 <= walk_fuel)%nat ->
    visualize_rows E skipped schema T <> Raise EFuel.
Proof. exact visualize_rows_nofuel. Qed.
Print Assumptions C19_visualize_rows_nofuel_partial.

Theorem C19_visualize_nofuel_partial :
  forall E skipped schema T sh t m, root_tree E schema = Ok (t, m) ->
    (length (ids t) * S (height t) + height t + 2 <= unsafe_fuel)%nat ->
    (2 * length (ids t) * S (height t) + height t + 2 <= walk_fuel)%nat ->
    visualize E skipped schema T sh <> Raise EFuel.
Proof. exact visualize_nofuel. Qed.
Print Assumptions C19_visualize_nofuel_partial.

Theorem C19_construct_trace_nofuel_partial :
  forall t, (length (ids t) * S (height t) + height t + 2 <= 3000)%nat -> construct_trace t <> Raise EFuel.
Proof. exact construct_trace_nofuel. Qed.
Print Assumptions C19_construct_trace_nofuel_partial.

(* the rounder sufficient conditions *)
Theorem C19_fits_of_product :
  forall t, ((S (length (ids t)) * (height t + 2) <= unsafe_fuel)%nat ->
             (length (ids t) * S (height t) + height t + 2 <= unsafe_fuel)%nat)
         /\ ((S (2 * length (ids t)) * (height t + 2) <= walk_fuel)%nat ->
             (2 * length (ids t) * S (height t) + height t + 2 <= walk_fuel)%nat).
Proof. intros t. split; [exact (audit_fits_of_product t) | exact (walk_fits_of_product t)]. Qed.
Print Assumptions C19_fits_of_product.

(* together with C19_root_never_out_of_fuel: on ANY schema nested less deeply than get_tree's fuel, whose tree --
   if one is built at all -- fits, the model's verdict is a genuine outcome *)
Theorem C19_get_untrusted_types_genuine_partial :
  forall E schema, (jdepth schema < default_fuel)%nat ->
    (forall t m, root_tree E schema = Ok (t, m) -> (length (ids t) * S (height t) + height t + 2 <= unsafe_fuel)%nat) ->
    get_untrusted_types E schema <> Raise EFuel.
Proof. exact get_untrusted_types_genuine. Qed.
Print Assumptions C19_get_untrusted_types_genuine_partial.

Theorem C19_load_audit_genuine_partial :
  forall E schema ta, (jdepth schema < default_fuel)%nat ->
    (forall t m, root_tree E schema = Ok (t, m) -> (length (ids t) * S (height t) + height t + 2 <= unsafe_fuel)%nat) ->
    load_audit E schema ta <> Raise EFuel.
Proof. exact load_audit_genuine. Qed.
Print Assumptions C19_load_audit_genuine_partial.

Theorem C19_visualize_genuine_partial :
  forall E skipped schema T sh, (jdepth schema < default_fuel)%nat ->
    (forall t m, root_tree E schema = Ok (t, m) ->
       (length (ids t) * S (height t) + height t + 2 <= unsafe_fuel)%nat
       /\ (2 * length (ids t) * S (height t) + height t + 2 <= walk_fuel)%nat) ->
    visualize E skipped schema T sh <> Raise EFuel.
Proof. exact visualize_genuine. Qed.
Print Assumptions C19_visualize_genuine_partial.

(* ... and the size of the tree is bounded by the schema: its height by the nesting depth, its number of memoised
   ids by the number of truthy hashable "__id__" values (jids lists their hashes, with repetitions) *)
Theorem C19_built_tree_bounded_by_schema :
  forall E schema t m, root_tree E schema = Ok (t, m) ->
    (height t <= jdepth schema)%nat /\ (length (ids t) <= length (jids schema))%nat.
Proof. intros E schema t m H. split; [eapply root_tree_height | eapply root_tree_ids_count]; eauto. Qed.
Print Assumptions C19_built_tree_bounded_by_schema.

(* hence two arithmetic conditions on the schema alone make every verdict of the model genuine, whatever else is
   wrong with the schema *)
Theorem C19_get_untrusted_types_schema_partial :
  forall E schema, (jdepth schema < default_fuel)%nat ->
    (length (jids schema) * S (jdepth schema) + jdepth schema + 2 <= unsafe_fuel)%nat ->
    get_untrusted_types E schema <> Raise EFuel.
Proof. exact get_untrusted_types_schema. Qed.
Print Assumptions C19_get_untrusted_types_schema_partial.

Theorem C19_load_audit_schema_partial :
  forall E schema ta, (jdepth schema < default_fuel)%nat ->
    (length (jids schema) * S (jdepth schema) + jdepth schema + 2 <= unsafe_fuel)%nat ->
    load_audit E schema ta <> Raise EFuel.
Proof. exact load_audit_schema. Qed.
Print Assumptions C19_load_audit_schema_partial.

Theorem C19_visualize_schema_partial :
  forall E skipped schema T sh, (jdepth schema < default_fuel)%nat ->
    (length (jids schema) * S (jdepth schema) + jdepth schema + 2 <= unsafe_fuel)%nat ->
    (2 * length (jids schema) * S (jdepth schema) + jdepth schema + 2 <= walk_fuel)%nat ->
    visualize E skipped schema T sh <> Raise EFuel.
Proof. exact visualize_schema. Qed.
Print Assumptions C19_visualize_schema_partial.

Theorem C19_construct_trace_schema_partial :
  forall E schema t m, root_tree E schema = Ok (t, m) ->
    (length (jids schema) * S (jdepth schema) + jdepth schema + 2 <= 3000)%nat ->
    construct_trace t <> Raise EFuel.
Proof. exact construct_trace_schema. Qed.
Print Assumptions C19_construct_trace_schema_partial.

(* The hypotheses hold of a non-trivial graph: the tree get_tree builds (registry of /repo) from
   root = [a, a, root] with a = [a, []] -- id 4 (a) is shared and cyclic, id 2 (the root) is cyclic *)
Example C19_knot_fits :
  exists t m, root_tree envS (knot_json Snapshot.current) = Ok (t, m)
    /\ ids t = [HNum 2; HNum 4] /\ refs t = [HNum 4; HNum 4; HNum 2] /\ height t = 3%nat
    /\ (length (ids t) * S (height t) + height t + 2 <= unsafe_fuel)%nat
    /\ (2 * length (ids t) * S (height t) + height t + 2 <= walk_fuel)%nat
    /\ (length (ids t) * S (height t) + height t + 2 <= 3000)%nat
    /\ (jdepth (knot_json Snapshot.current) < default_fuel)%nat
    (* ... and the verdicts are the genuine ones: the audit passes, walk_tree and construct end in RecursionError *)
    /\ get_untrusted_types envS (knot_json Snapshot.current) = Ok []
    /\ visualize envS Snapshot.skipped (knot_json Snapshot.current) None ShowAll = Raise ERecursion
    /\ construct_trace t = Raise ERecursion.
Proof.
  eexists. eexists. split; [vm_compute; reflexivity|].
  repeat split; try (vm_compute; reflexivity); try (apply Nat.leb_le; vm_compute; reflexivity); apply Nat.ltb_lt; vm_compute; reflexivity.
Qed.

Example C19_knot_schema_fits :
  jids (knot_json Snapshot.current) = [HNum 2; HNum 4; HNum 4; HNum 4; HNum 2]
  /\ jdepth (knot_json Snapshot.current) = 6%nat
  /\ (length (jids (knot_json Snapshot.current)) * S (jdepth (knot_json Snapshot.current)) + jdepth (knot_json Snapshot.current) + 2 <= unsafe_fuel)%nat
  /\ (2 * length (jids (knot_json Snapshot.current)) * S (jdepth (knot_json Snapshot.current)) + jdepth (knot_json Snapshot.current) + 2 <= walk_fuel)%nat.
Proof.
  split; [vm_compute; reflexivity|]. split; [vm_compute; reflexivity|].
  split; apply Nat.leb_le; vm_compute; reflexivity.
Qed.

(* an instance of the general statements in the middle of a walk: standing on the child a with the root on the path *)
Example C19_knot_inside :
  exists t m n, root_tree envS (knot_json Snapshot.current) = Ok (t, m)
    /\ sub n t /\ height n = 2%nat /\ ids n = [HNum 4]
    /\ (free t [HNum 2] * S (height t) + height n + 2 <= 8)%nat
    /\ (free2 t [HNum 2; HNum 2; HNum 4] * S (height t) + height n + 2 <= 8)%nat.
Proof.
  eexists. eexists. eexists. split; [vm_compute; reflexivity|].
  split; [eapply sub_step; [left; reflexivity | apply sub_refl]|].
  repeat split; try (vm_compute; reflexivity); apply Nat.leb_le; vm_compute; reflexivity.
Qed.

(* WITHOUT the size condition the statement is FALSE of the model: a schema nested 386 < 400 deep (16 blocks of
   190 nested lists side by side, each ending in a reference to the block written before it; 17 ids, height 193,
   bound 17 * 194 + 195 = 3493 > 3000) drives the audit about 16 * 192 levels deep -- the model answers with its
   fuel artefact.  (The implementation raises RecursionError on this archive, an ordinary exception: the artefact
   is the model's.)  The walk-only variant -- audit fuel sufficient, walk_fuel = 2000 not: 11 blocks,
   visualize_stream ends in Some EFuel after 12505 rows -- takes minutes of vm_compute and is not replayed here. *)
Theorem C19_entry_points_nofuel_refuted :
  exists schema, (jdepth schema < default_fuel)%nat
    /\ match root_tree envS schema with
       | Ok (t, _) => length (ids t) = 17%nat /\ height t = 193%nat
       | Raise _ => False
       end
    /\ get_untrusted_types envS schema = Raise EFuel
    /\ load_audit envS schema (TList None) = Raise EFuel
    /\ visualize envS Snapshot.skipped schema None ShowAll = Raise EFuel.
Proof.
  exists (tower_json Snapshot.current 190 16).
  split; [apply Nat.ltb_lt; vm_compute; reflexivity|].
  split; [vm_compute; split; reflexivity|].
  split; [vm_compute; reflexivity|]. split; vm_compute; reflexivity.
Qed.
Print Assumptions C19_entry_points_nofuel_refuted.
(* (with one block less, `tower_json _ 190 15`, the model answers Ok []: the sufficient bound 16 * 194 + 195 = 3299 is
   within a factor 1 + 1/k of what the audit really needs) *)
