(* C19 -- malformed archives fail cleanly (schema-level part; byte-level corruption is handled by
   zipfile / numpy / scipy and is exercised by the harness only). *)
From Skv Require Import PyStr Json Node GetTree Unsafe Walk Fuel Cost CostFacts TreeWf TreeIds.
From Coq Require Import Lia.
From Gen Require Import Snapshot.

(* The model is total on EVERY JSON value (Coq functions are), and its answer is never the fuel
   artefact as long as the schema is not nested deeper than the fuel: for any malformed schema the
   model predicts a definite outcome -- a tree, or one of the ordinary exceptions of the enum. *)
Theorem C19_inspect_never_out_of_fuel :
  forall E proto fuel extra sl m j, (jdepth j < fuel)%nat -> get_tree fuel E proto extra sl m j <> Raise EFuel.
Proof. exact get_tree_nofuel. Qed.
Print Assumptions C19_inspect_never_out_of_fuel.

Theorem C19_root_never_out_of_fuel :
  forall E schema, (jdepth schema < default_fuel)%nat -> root_tree E schema <> Raise EFuel.
Proof.
  intros E schema Hd. unfold root_tree. destruct (jindex schema (K "protocol")) as [p|e] eqn:P; cbn [bind]; [|intros X; injection X as ->; revert P; generalize (jindex_nofuel schema (K "protocol")); intros N P; apply N; exact P].
  apply get_tree_nofuel. exact Hd.
Qed.
Print Assumptions C19_root_never_out_of_fuel.

(* whatever the schema, a tree that is built satisfies the structural invariants the audit relies on *)
Theorem C19_built_trees_wellformed :
  forall E schema t m, root_tree E schema = Ok (t, m) -> wf_node t = true /\ NoDup (ids t).
Proof. intros E schema t m H. split; [eapply root_tree_wf | eapply root_tree_ids_unique]; eauto. Qed.
Print Assumptions C19_built_trees_wellformed.

(* "terminate promptly" is FALSE for the audit: a 29-node tree (schema of a = []; 14 x a = [a, a], a few kB)
   costs 2^15 - 1 node visits, because a shared child is re-audited at every reference (finding D11) *)
Theorem C19_audit_cost_refuted :
  size (ladder 14) = 29%nat /\ N.of_nat (audit_visits (ladder 14)) = 32767%N.
Proof. exact ladder_cost_14. Qed.
Print Assumptions C19_audit_cost_refuted.

(* ... for EVERY depth: the n-rung ladder has 2n+1 nodes and its audit makes 2^(n+1) - 1 node visits
   (n < 50 only because audit_visits fixes the fuel at 100; ladder_visits is the fuel-generic statement) *)
Theorem C19_audit_exponential :
  forall n, (n < 50)%nat -> size (ladder n) = (2 * n + 1)%nat /\ audit_visits (ladder n) = (2 ^ (S n) - 1)%nat.
Proof. exact audit_exponential. Qed.
Print Assumptions C19_audit_exponential.

Theorem C19_ladder_visits_any_fuel :
  forall N n fuel path, (n <= N)%nat -> (2 * n < fuel)%nat -> (forall k, In (rid k) path -> (n < k)%nat) ->
  visits_g (ladder N) fuel path (ladder n) = (2 ^ (S n) - 1)%nat.
Proof. exact ladder_visits. Qed.
Print Assumptions C19_ladder_visits_any_fuel.

(* the ladder is what get_tree really builds from the corresponding schema (a = []; 10 times a = [a, a]) under
   the registry extracted from /repo: 22 nodes (the innermost list keeps an empty-list leaf), 2047 audit visits *)
Fixpoint ladder_json (n : nat) : json :=
  let st (id : Z) (content : list json) :=
    JObj [(s "__class__", JStr (s "list")); (s "__module__", JStr (s "builtins")); (s "__loader__", JStr (s "ListNode"));
          (s "__id__", JInt id); (s "content", JArr content)] in
  match n with
  | O => st 1000%Z []
  | S n' => st (1000 + Z.of_nat n)%Z [ladder_json n'; JObj [(s "__id__", JInt (1000 + Z.of_nat n')%Z)]]
  end.
Definition envS : env :=
  {| e_reg := Snapshot.registry; e_cur := Snapshot.current; e_classes := Snapshot.classes;
     e_unavailable := Snapshot.unavailable; e_members := []; e_resolve := [] |}.
Theorem C19_ladder_is_what_get_tree_builds :
  match get_tree 100 envS (JInt Snapshot.current) [] (SOne (s "root")) [] (ladder_json 10) with
  | Ok (t, _) => size t = 22%nat /\ N.of_nat (audit_visits t) = 2047%N
  | Raise _ => False
  end.
Proof. vm_compute. split; reflexivity. Qed.
Print Assumptions C19_ladder_is_what_get_tree_builds.
