(* C18 -- a failed dump leaves the destination untouched.
   Only statements.  Model: coq/sys/Dump.v (skops/io/_persist.py: _save fully into
   a BytesIO, only then open/write the sink). *)
From Skv Require Import PyStr Json Fs FsFacts Dump DumpFacts.
From Skv Require PyVal CodecDump CodecInsideFacts SinkFacts.
From Coq Require String.
From Skv Require CallGraph CallGraphFacts.
From Gen Require CallGraphGen.

(* _save raised: no operation at all on the sink - path that exists, path that does
   not, open file object - and the same exception leaves dump *)
Theorem C18_no_touch : forall saved k x,
  saved = Raise x -> dump_ops saved k = ([], Raise x).
Proof. exact dump_no_touch. Qed.
Print Assumptions C18_no_touch.

(* hence at every moment of the failed call the file system is the same: existing
   bytes kept, missing file not created, the file object's position unchanged *)
Theorem C18_failure_inert : forall e saved k x,
  saved = Raise x ->
  forall st pre, crash_of (fst (dump_ops saved k)) pre ->
    apply_ops e st pre = st /\ tell (apply_ops e st pre) (sink_path k) = tell st (sink_path k).
Proof. exact dump_failure_inert. Qed.
Print Assumptions C18_failure_inert.

(* dumps returns the complete buffer or raises; an exception after some chunks
   reached the buffer returns nothing *)
Theorem C18_dumps_total : forall r,
  match dumps_of r with
  | Ok b => sr_exc r = None /\ b = concat (sr_chunks r)
  | Raise x => sr_exc r = Some x
  end.
Proof. exact dumps_total. Qed.
Print Assumptions C18_dumps_total.

(* the sequencing is what carries it: the same failed run through a writer that
   opens the destination first leaves a partial file, through dump_ops it does not *)
Theorem C18_streaming_refuted :
  let r := mksave [[7; 7]] (Some EUnsupported) in
  let p := [s "S"; s "model.skops"] in
  let st := mkfs [(p, [1; 2; 3])] [[]; [s "S"]] in
  saved_of r = Raise EUnsupported
  /\ fget p (files (apply_ops (mkenv None) st (fst (dump_ops (saved_of r) (SinkPath p))))) = Some [1; 2; 3]
  /\ exists pre, crash_of (streaming_dump_ops r (SinkPath p)) pre
       /\ fget p (files (apply_ops (mkenv None) st pre)) = Some [7; 7].
Proof. exact streaming_refuted. Qed.
Print Assumptions C18_streaming_refuted.

(* successful dump, for contrast and for the correspondence: path sink replaces,
   file-object sink appends and advances tell() by the archive's length *)
Theorem C18_path_completes : forall e st p b,
  is_dir st p = false -> is_dir st (parent p) = true ->
  let fin := apply_ops e st (fst (dump_ops (Ok b) (SinkPath p))) in
  (forall q, fget q (files fin) = if path_eqb q p then Some b else fget q (files st))
  /\ dirs fin = dirs st.
Proof. exact dump_path_completes. Qed.
Print Assumptions C18_path_completes.

Theorem C18_file_completes : forall e st p old b,
  fget p (files st) = Some old ->
  let fin := apply_ops e st (fst (dump_ops (Ok b) (SinkFile p))) in
  fget p (files fin) = Some (old ++ b)
  /\ tell fin p = Some (length old + length b)%nat
  /\ (forall q, q <> p -> fget q (files fin) = fget q (files st)).
Proof. exact dump_file_completes. Qed.
Print Assumptions C18_file_completes.

(* "anywhere inside, at any depth or position": for the recursive shape of
   get_state on containers (children left to right, first exception propagates) with
   the leaves' serialisers as an oracle, an element that raises makes the walk raise
   for EVERY one-hole context - so nothing is written and dumps returns nothing *)
Theorem C18_position :
  forall (leaf : Type) (leaf_save : leaf -> res bytes) (c : ctx leaf) (bad : leaf) (x : err) (k : sink),
  leaf_save bad = Raise x ->
  exists x', dump_ops (saved_of (save_value leaf leaf_save (plug leaf c (PLeaf bad)))) k = ([], Raise x')
             /\ dumps_of (save_value leaf leaf_save (plug leaf c (PLeaf bad))) = Raise x'.
Proof. exact dump_position. Qed.
Print Assumptions C18_position.

(* if everything visited before it is fine, the exception is the element's own *)
Theorem C18_position_exact :
  forall (leaf : Type) (leaf_save : leaf -> res bytes) (c : ctx leaf) (bad : leaf) (x : err),
  leaf_save bad = Raise x ->
  forall acc, lefts_ok leaf leaf_save c acc ->
    snd (walk leaf leaf_save (plug leaf c (PLeaf bad)) acc) = Some x.
Proof. exact walk_position_exact. Qed.
Print Assumptions C18_position_exact.

Theorem C18_position_example :
  let save := fun n : N => if N.eqb n 0 then Raise EUnsupported else Ok [n] in
  let c := CNode KList [PLeaf 1; PNode KTuple [PLeaf 2; PLeaf 3]]
             (CNode KDictValues [PLeaf 4] CHole [PLeaf 5]) [PLeaf 6] in
  walk N save (plug N c (PLeaf 0)) [] = ([[1]; [2]; [3]; [4]], Some EUnsupported).
Proof. exact position_example. Qed.
Print Assumptions C18_position_example.

(* the same over an oracle `dumps` for skops' serialiser as the codec part models it:
   strictness of dumps in unsupported sub-objects is the visible premise *)
Theorem C18_position_oracle :
  forall (obj : Type) (dumps : obj -> res bytes) (octx : Type) (oplug : octx -> obj -> obj)
         (unsupported : obj -> Prop),
  (forall c bad, unsupported bad -> exists x, dumps (oplug c bad) = Raise x) ->
  forall c bad k e st, unsupported bad ->
    exists x, dump_ops (dumps (oplug c bad)) k = ([], Raise x)
              /\ apply_ops e st (fst (dump_ops (dumps (oplug c bad)) k)) = st.
Proof. exact dump_position_oracle. Qed.
Print Assumptions C18_position_oracle.

(* ---- the same statement over the REAL dump model (coq/io/CodecDump.get_state, all value kinds), not over the abstract
   container walk above.  x "cannot be persisted" = get_state raises on it from every dump state (an unsupported type, an
   object whose __getstate__/__reduce__ raises, a property object).  `inside x v`: x sits in v at a position the dumper
   serialises -- an item of a list/tuple/set, a dict or defaultdict value, a default factory, a cell of an object array of
   any rank (every cell is serialised, below the nested lists of tolist()), masked-array data/mask, an
   RNG state, a slot of functools.partial, the attrs of an operator helper, the owner of a bound method, the state or
   reduce arguments of an object -- at ANY depth (the relation is closed under nesting). *)
Theorem C18_codec_inside_raises :
  forall E base x v, CodecInsideFacts.inside x v -> CodecInsideFacts.always_raises E x ->
    exists e, CodecDump.dumps_model E base v = Raise e.
Proof. exact CodecInsideFacts.inside_dumps_raises. Qed.
Print Assumptions C18_codec_inside_raises.

(* ... and then no kind of destination receives a single byte, under any compression setting: dumps returns nothing, a
   path (existing or new) and an open file object see no operation (composition with the file-operation model of dump) *)
Theorem C18_codec_unpersistable_touches_nothing :
  forall (zipc : nat -> nat -> CodecDump.archive -> bytes) e st E base x v t method level,
    CodecInsideFacts.inside x v -> CodecInsideFacts.always_raises E x ->
    SinkFacts.received e st t (SinkFacts.save_model zipc E base v method level) = None
    /\ (forall k, fst (dump_ops (SinkFacts.save_model zipc E base v method level) k) = []).
Proof.
  intros zipc e st E base x v t method level Hin Hx.
  destruct (CodecInsideFacts.inside_dumps_raises E base x v Hin Hx) as [err He].
  split; [eapply SinkFacts.failing_dump_delivers_nothing; exact He|].
  intros k. unfold SinkFacts.save_model. rewrite He. reflexivity.
Qed.
Print Assumptions C18_codec_unpersistable_touches_nothing.

(* the three ways a value can be unpersistable in the model *)
Theorem C18_unpersistable_kinds :
  forall E, (forall id m c, CodecInsideFacts.always_raises E (PyVal.PUnsup id m c))
         /\ (forall id m c hk hid err arg, CodecInsideFacts.always_raises E (PyVal.PObj id m c hk hid (PyVal.OKRaise err) arg))
         /\ (forall id, CodecInsideFacts.always_raises E (PyVal.PProp id)).
Proof.
  intros E. repeat split; intros.
  - apply CodecInsideFacts.unsup_always_raises.
  - apply CodecInsideFacts.raising_obj_always_raises.
  - apply CodecInsideFacts.property_always_raises.
Qed.
Print Assumptions C18_unpersistable_kinds.

(* ---- the translated source (harness/callgraph.py re-translates skops/io on every run; see C02): dump() is split at its
   call of _save.  Everything dump() can call -- directly or through any chain of calls inside skops.io -- up to and
   including the serialisation uses no file-system primitive: only writers that stay in memory (np.save / save_npz into a
   local io.BytesIO(), writestr into the zip _save builds over a local io.BytesIO(): the translator checks those argument
   shapes and labels them mem:) and reflection on live objects.  The destination is opened by the code AFTER that point. *)
Theorem C18_static_serialise_before_touching :
  forall e f, In e CallGraphGen.dump_entries -> CallGraphFacts.reach CallGraphGen.callgraph e f ->
    CallGraph.inert_with CallGraph.permitted_in_memory CallGraphGen.callgraph f = true.
Proof. apply (CallGraphFacts.static_inert_with _ _ CallGraphGen.dump_reach_hint). vm_compute. reflexivity. Qed.
Print Assumptions C18_static_serialise_before_touching.

Theorem C18_static_entries : CallGraphGen.dump_entries = ["_persist.dump@pre"]%string.
Proof. reflexivity. Qed.
Print Assumptions C18_static_entries.

(* non-vacuity: the part of dump() AFTER the serialisation does touch the file system (open / write of the destination) *)
Theorem C18_static_not_blind :
  CallGraph.inert_with CallGraph.permitted_in_memory CallGraphGen.callgraph "_persist.dump@post"%string = false.
Proof. vm_compute. reflexivity. Qed.
Print Assumptions C18_static_not_blind.
